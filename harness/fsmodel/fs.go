package PKGNAME

// In-memory file system model used by harnesses of packages that call the os
// package directly (filesystem part store, filesystem cache persistor). Under
// the executor the spec redirects os.MkdirAll/CreateTemp/OpenFile/Rename/
// Remove/ReadDir/Stat, (*os.File).Name/Close/Write/Read/ReadFrom,
// path/filepath.Abs and ioutils.Copy to these functions; natively the real file
// system is used (verifNativeRoot gives a scratch directory).

import (
	"io"
	"io/fs"
	"os"
	"syscall"
)

var verifNativeRoot func() string

// ---- file system model (executor only) ---------------------------------------------

type verifFile struct {
	name string
	data []byte
}

var verifFS []verifFile

type verifHandle struct {
	name string
	off  int
	data []byte // snapshot for readers
}

var verifHandles = map[*os.File]*verifHandle{}
var verifTmpSeq int

func verifFSFind(name string) int {
	for i := range verifFS {
		if verifFS[i].name == name {
			return i
		}
	}
	return -1
}

func verifStubMkdirAll(path string, perm os.FileMode) error { return nil }

func verifStubCreateTemp(dir, pattern string) (*os.File, error) {
	verifTmpSeq++
	name := dir + "/" + pattern + string(rune('0'+verifTmpSeq))
	verifFS = append(verifFS, verifFile{name: name})
	f := new(os.File)
	verifHandles[f] = &verifHandle{name: name}
	return f, nil
}

func verifStubFileName(f *os.File) string { return verifHandles[f].name }
func verifStubFileClose(f *os.File) error  { return nil }
func verifStubFileWrite(f *os.File, p []byte) (int, error) {
	h := verifHandles[f]
	i := verifFSFind(h.name)
	// write at the handle's offset, overwriting what is there and extending the
	// file if necessary (a file opened without O_TRUNC keeps its old tail)
	old := verifFS[i].data
	n := h.off + len(p)
	if n < len(old) {
		n = len(old)
	}
	data := make([]byte, n)
	copy(data, old)
	copy(data[h.off:], p)
	verifFS[i].data = data
	h.off += len(p)
	return len(p), nil
}

func verifStubFileReadFrom(f *os.File, r io.Reader) (int64, error) {
	data, err := io.ReadAll(r)
	if err != nil {
		return 0, err
	}
	n, err := verifStubFileWrite(f, data)
	return int64(n), err
}
func verifStubFileRead(f *os.File, p []byte) (int, error) {
	h := verifHandles[f]
	if h.off >= len(h.data) {
		return 0, io.EOF
	}
	n := copy(p, h.data[h.off:])
	h.off += n
	return n, nil
}

func verifStubOpenFile(name string, flag int, perm os.FileMode) (*os.File, error) {
	i := verifFSFind(name)
	if i < 0 {
		if flag&os.O_CREATE == 0 {
			return nil, &os.PathError{Op: "open", Path: name, Err: syscall.ENOENT}
		}
		verifFS = append(verifFS, verifFile{name: name})
		i = len(verifFS) - 1
	}
	if flag&os.O_TRUNC != 0 {
		verifFS[i].data = nil
	}
	f := new(os.File)
	verifHandles[f] = &verifHandle{name: name, data: verifFS[i].data}
	return f, nil
}

func verifStubRename(oldpath, newpath string) error {
	i := verifFSFind(oldpath)
	if i < 0 {
		return &os.LinkError{Op: "rename", Old: oldpath, New: newpath, Err: syscall.ENOENT}
	}
	data := verifFS[i].data
	verifFS = append(append([]verifFile(nil), verifFS[:i]...), verifFS[i+1:]...)
	if j := verifFSFind(newpath); j >= 0 {
		verifFS[j].data = data
		return nil
	}
	verifFS = append(verifFS, verifFile{name: newpath, data: data})
	return nil
}

func verifStubRemove(name string) error {
	i := verifFSFind(name)
	if i < 0 {
		return &os.PathError{Op: "remove", Path: name, Err: syscall.ENOENT}
	}
	verifFS = append(append([]verifFile(nil), verifFS[:i]...), verifFS[i+1:]...)
	return nil
}

func verifStubReadDir(name string) ([]os.DirEntry, error) {
	var out []os.DirEntry
	for _, f := range verifFS {
		if len(f.name) > len(name)+1 && f.name[:len(name)+1] == name+"/" {
			out = append(out, verifDirEntry{f.name[len(name)+1:]})
		}
	}
	return out, nil
}

type verifDirEntry struct{ name string }

func (d verifDirEntry) Name() string               { return d.name }
func (d verifDirEntry) IsDir() bool                { return false }
func (d verifDirEntry) Type() fs.FileMode          { return 0 }
func (d verifDirEntry) Info() (fs.FileInfo, error) { return nil, nil }




func verifStubStat(name string) (os.FileInfo, error) {
	if verifFSFind(name) < 0 {
		return nil, &os.PathError{Op: "stat", Path: name, Err: syscall.ENOENT}
	}
	return nil, nil
}

func verifStubAbs(path string) (string, error) { return path, nil }

func verifStubCopy(dst io.Writer, src io.Reader) (int64, error) {
	data, err := io.ReadAll(src)
	if err != nil {
		return 0, err
	}
	if f, ok := dst.(*os.File); ok && !verifNative() {
		n, err := verifStubFileWrite(f, data) // calls made from a stub are not redirected
		return int64(n), err
	}
	n, err := dst.Write(data)
	return int64(n), err
}
