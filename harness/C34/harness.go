package PKGNAME

// C34: CORS headers are granted only by a matching rule.

import (
	"net/http"
	"net/url"
)

// verifC34RefMatch is the documented semantics: at most one '*', which stands
// for any (possibly empty) byte sequence; everything else is literal.
func verifC34RefMatch(pattern, value string) bool {
	star := -1
	for i := 0; i < len(pattern); i++ {
		if pattern[i] == '*' {
			star = i
			break
		}
	}
	if star < 0 {
		return pattern == value
	}
	pre, suf := pattern[:star], pattern[star+1:]
	// exists w: value == pre + w + suf
	for wl := 0; wl+len(pre)+len(suf) <= len(value); wl++ {
		if len(pre)+wl+len(suf) == len(value) && value[:len(pre)] == pre && value[len(pre)+wl:] == suf {
			return true
		}
	}
	return false
}

func verifC34Lower(s string) string {
	b := []byte(s)
	for i := range b {
		if b[i] >= 'A' && b[i] <= 'Z' {
			b[i] += 'a' - 'A'
		}
	}
	return string(b)
}

func verifC34Upper(s string) string {
	b := []byte(s)
	for i := range b {
		if b[i] >= 'a' && b[i] <= 'z' {
			b[i] -= 'a' - 'A'
		}
	}
	return string(b)
}

func verifC34Alpha(s string, star bool) {
	for i := 0; i < len(s); i++ {
		if star {
			verifAssume(verifInSet(s[i], "aAb.*"))
		} else {
			verifAssume(verifInSet(s[i], "aAb."))
		}
	}
}

func verifC34Stars(s string) int {
	n := 0
	for i := 0; i < len(s); i++ {
		if s[i] == '*' {
			n++
		}
	}
	return n
}

// VerifC34Wildcard: wildcardMatch agrees with the reference on every pattern
// with at most one '*' and every value, all byte values.
func VerifC34Wildcard() {
	maxLen := verifParam("len", 3)
	pattern := verifString("pattern", verifPick("plen", 0, maxLen))
	value := verifString("value", verifPick("vlen", 0, maxLen))
	verifAssume(verifC34Stars(pattern) <= 1)
	got := wildcardMatch(pattern, value)
	want := verifC34RefMatch(pattern, value)
	verifAssert(got == want, "C34: wildcardMatch disagrees with the documented single-wildcard semantics")
	if got {
		verifCover("match")
	}
}

// VerifC34Validate: patterns with more than one wildcard never survive
// NormalizeAndValidateCORSRules.
func VerifC34Validate() {
	maxLen := verifParam("len", 3)
	origin := verifString("origin", verifPick("olen", 1, maxLen))
	hdr := verifString("hdr", verifPick("hlen", 1, maxLen))
	verifC34Alpha(origin, true)
	verifC34Alpha(hdr, true)
	rules, err := NormalizeAndValidateCORSRules([]CORSRule{{AllowedOrigins: []string{origin}, AllowedMethods: []string{"get"}, AllowedHeaders: []string{hdr}}})
	if verifC34Stars(origin) > 1 || verifC34Stars(hdr) > 1 {
		verifAssert(err != nil, "C34: rule with more than one wildcard accepted")
		verifCover("rejected")
		return
	}
	verifAssert(err == nil && len(rules) == 1, "C34: valid rule rejected")
	verifAssert(rules[0].AllowedMethods[0] == "GET", "C34: method not normalised")
}

type verifC34Writer struct {
	h      http.Header
	status int
}

func (w *verifC34Writer) Header() http.Header         { return w.h }
func (w *verifC34Writer) Write(b []byte) (int, error) { return len(b), nil }
func (w *verifC34Writer) WriteHeader(s int)           { w.status = s }

type verifC34Next struct{ called int }

func (n *verifC34Next) ServeHTTP(w http.ResponseWriter, r *http.Request) { n.called++ }

// verifC34Run drives the middleware with the given (unnormalised) rules and a
// symbolic request and checks the response against the reference decision.
func verifC34Run(raw []CORSRule, maxLen int) {
	methods := [2]string{"GET", "PUT"}
	rules, err := NormalizeAndValidateCORSRules(raw)
	verifAssert(err == nil, "C34: valid rules rejected")

	origin := verifString("origin", verifPick("olen", 1, maxLen))
	verifC34Alpha(origin, false)
	preflight := verifBool("preflight")
	reqMethod := methods[verifPick("reqMethod", 0, 1)]
	reqHeader := ""
	var reqHeaders []string
	if preflight {
		switch verifPick("reqHeader", 0, 4) {
		case 1:
			reqHeader, reqHeaders = "X-Abc", []string{"X-Abc"}
		case 2:
			reqHeader, reqHeaders = "X-Other", []string{"X-Other"}
		case 3:
			reqHeader, reqHeaders = "X-Abc, X-Other", []string{"X-Abc", "X-Other"}
		case 4:
			reqHeader, reqHeaders = "x-other,X-ABD", []string{"x-other", "X-ABD"}
		}
	}
	r := &http.Request{Method: reqMethod, Header: http.Header{}, URL: &url.URL{Path: "/b/k"}}
	r.Header.Set("Origin", origin)
	if preflight {
		r.Method = "OPTIONS"
		r.Header.Set("Access-Control-Request-Method", reqMethod)
		if reqHeader != "" {
			r.Header.Set("Access-Control-Request-Headers", reqHeader)
		}
	}
	w := &verifC34Writer{h: http.Header{}}
	next := &verifC34Next{}
	MakeCORSMiddleware(rules, next).ServeHTTP(w, r)

	// reference decision
	refMatch := false
	for _, rule := range raw {
		if !verifC34RefMatch(verifC34Lower(rule.AllowedOrigins[0]), verifC34Lower(origin)) {
			continue
		}
		if verifC34Upper(rule.AllowedMethods[0]) != reqMethod {
			continue
		}
		if preflight && reqHeader != "" {
			all := true
			for _, rh := range reqHeaders {
				ok := false
				for _, ah := range rule.AllowedHeaders {
					if verifC34RefMatch(verifC34Lower(ah), verifC34Lower(rh)) {
						ok = true
					}
				}
				if !ok {
					all = false
				}
			}
			if !all {
				continue
			}
		}
		refMatch = true
	}
	acao := w.h.Get("Access-Control-Allow-Origin")
	if acao != "" {
		verifAssert(refMatch, "C34: Access-Control-Allow-Origin granted without a matching rule")
		verifAssert(acao == origin || acao == "*", "C34: Access-Control-Allow-Origin carries a foreign origin")
		verifCover("granted")
	}
	if refMatch {
		verifAssert(acao != "", "C34: matching rule did not grant Access-Control-Allow-Origin")
	}
	if preflight {
		verifAssert(next.called == 0, "C34: preflight reached the next handler")
		if !refMatch {
			verifAssert(w.status == 403, "C34: preflight without matching rule not rejected")
			verifCover("preflight-rejected")
		} else {
			verifAssert(w.status == 200, "C34: matching preflight not answered 200")
		}
	} else {
		verifAssert(next.called == 1, "C34: simple request did not reach the next handler exactly once")
	}
}

func verifC34Rule(maxLen int, method string) CORSRule {
	op := verifString("originPattern", verifPick("oplen", 1, maxLen))
	verifC34Alpha(op, true)
	verifAssume(verifC34Stars(op) <= 1)
	rule := CORSRule{AllowedOrigins: []string{op}, AllowedMethods: []string{method}}
	switch verifPick("ruleHeaders", 0, 2) {
	case 1:
		rule.AllowedHeaders = []string{"*"}
	case 2:
		rule.AllowedHeaders = []string{"x-a*"}
	}
	return rule
}

// VerifC34OneRule: one rule with symbolic origin pattern, any of two methods,
// three header policies; one symbolic request (simple or preflight).
func VerifC34OneRule() {
	maxLen := verifParam("len", 2)
	m := "GET"
	if verifBool("rulePut") {
		m = "put" // validation upper-cases it
	}
	verifC34Run([]CORSRule{verifC34Rule(maxLen, m)}, maxLen)
}

// VerifC34TwoRules: first rule GET, second rule PUT, independent symbolic
// origin patterns: a grant needs some rule that matches origin AND method.
func VerifC34TwoRules() {
	maxLen := verifParam("len", 2)
	verifC34Run([]CORSRule{verifC34Rule(maxLen, "GET"), verifC34Rule(maxLen, "PUT")}, maxLen)
}

// VerifC34NoRulesOrNoOrigin: without an Origin header the response is
// untouched; with an Origin but no rules a preflight is rejected.
func VerifC34NoRulesOrNoOrigin() {
	hasOrigin := verifBool("hasOrigin")
	preflight := verifBool("preflight")
	var rules []CORSRule
	if !hasOrigin && verifBool("withRule") {
		rules = []CORSRule{{AllowedOrigins: []string{"*"}, AllowedMethods: []string{"GET"}}}
	}
	r := &http.Request{Method: "GET", Header: http.Header{}, URL: &url.URL{Path: "/b/k"}}
	if hasOrigin {
		r.Header.Set("Origin", verifString("origin", 2))
	}
	if preflight {
		r.Method = "OPTIONS"
		r.Header.Set("Access-Control-Request-Method", "GET")
	}
	w := &verifC34Writer{h: http.Header{}}
	next := &verifC34Next{}
	MakeCORSMiddleware(rules, next).ServeHTTP(w, r)
	if !hasOrigin {
		verifAssert(next.called == 1 && len(w.h) == 0 && w.status == 0, "C34: request without Origin was altered")
		verifCover("no-origin")
		return
	}
	verifAssert(w.h.Get("Access-Control-Allow-Origin") == "", "C34: Access-Control-Allow-Origin granted without any rule")
}
