package PKGNAME

// C11 at the header layer: the user-controllable metadata a request carries in
// its headers is what parseObjectMetadataHeaders hands to the storage, and what
// setMetadataHeadersFromObject renders back from a stored object: every system
// field alone, in any combination, with and without user metadata.

import (
	"net/http"

	"github.com/jdillenkofer/pithos/internal/storage"
)

func VerifC11HeaderRoundTrip() {
	names := []string{cacheControlHeader, contentDispositionHeader, contentEncodingHeader, contentLanguageHeader, expiresHeader, websiteRedirectLocationHeader}
	in := http.Header{}
	present := make([]bool, len(names))
	any := false
	for i, n := range names {
		if verifBool("present") {
			present[i] = true
			any = true
			in.Set(n, "v"+string(rune('0'+i)))
		}
	}
	user := verifBool("user-metadata")
	if user {
		any = true
		in.Set(userMetadataHeaderPrefix+"k", "uv")
	}
	md, err := parseObjectMetadataHeaders(in)
	verifAssert(err == nil, "C11: parseObjectMetadataHeaders failed on plain headers")
	if !any {
		verifAssert(md == nil, "C11: metadata invented for a request without metadata headers")
		return
	}
	verifCover("some-metadata")
	verifAssert(md != nil, "C11: a request's metadata headers were dropped")
	got := []*string{md.CacheControl, md.ContentDisposition, md.ContentEncoding, md.ContentLanguage, md.Expires, md.WebsiteRedirectLocation}
	for i := range names {
		if present[i] {
			verifAssert(got[i] != nil && *got[i] == "v"+string(rune('0'+i)), "C11: a system metadata header was not taken over as sent")
		} else {
			verifAssert(got[i] == nil, "C11: a system metadata field was invented")
		}
	}
	if user {
		verifAssert(len(md.UserMetadata) == 1 && md.UserMetadata["k"] == "uv", "C11: user metadata not taken over as sent")
	} else {
		verifAssert(len(md.UserMetadata) == 0, "C11: user metadata invented")
	}
	// and back: what the object stores is what the response headers carry
	out := http.Header{}
	setMetadataHeadersFromObject(out, &storage.Object{Metadata: *md})
	for i, n := range names {
		if present[i] {
			verifAssert(out.Get(n) == in.Get(n), "C11: a stored system metadata field is not returned as stored")
		} else {
			verifAssert(out.Get(n) == "", "C11: a response carries a metadata header the object does not have")
		}
	}
	if user {
		verifAssert(out.Get(userMetadataHeaderPrefix+"k") == "uv", "C11: stored user metadata is not returned as stored")
	}
}
