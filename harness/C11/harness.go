package PKGNAME

// C11: content type, system and user metadata, tags and storage class follow S3
// write semantics: PutObject / CompleteMultipartUpload replace them with
// exactly what the request supplied (cleared when absent), CopyObject follows
// the metadata and tagging directives (never copying the website redirect
// location, class only from the request), AppendObject, tagging calls and
// storage-class transitions preserve everything else.

import (
	"bytes"

	"github.com/jdillenkofer/pithos/internal/storage"
)

type verifProfile struct {
	ct    *string
	meta  storage.ObjectMetadata
	tags  map[string]string
	class *string
}

const (
	pfCT = 1 << iota
	pfCacheControl
	pfDisposition
	pfEncoding
	pfLanguage
	pfExpires
	pfRedirect
	pfUserMeta // number of user metadata entries is symbolic (0..2), else 1
	pfTags     // number of tags is symbolic (0..2), else 1
	pfClass    // storage class symbolic (nil, STANDARD_IA, GLACIER), else nil
	pfAll      = pfClass<<1 - 1
)

func verifStr(s string) *string { return &s }

// verifMkProfile builds a request profile. Fields in `sym` are present or
// absent by solver choice; fields in `on` are always present; others absent.
func verifMkProfile(tag string, sym, on int) verifProfile {
	var p verifProfile
	has := func(bit int, name string) bool {
		if on&bit != 0 {
			return true
		}
		return sym&bit != 0 && verifBool(tag+"-"+name)
	}
	if has(pfCT, "ct") {
		p.ct = verifStr(tag + "/type")
	}
	if has(pfCacheControl, "cc") {
		p.meta.CacheControl = verifStr(tag + "-cache")
	}
	if has(pfDisposition, "cd") {
		p.meta.ContentDisposition = verifStr(tag + "-disp")
	}
	if has(pfEncoding, "ce") {
		p.meta.ContentEncoding = verifStr(tag + "-enc")
	}
	if has(pfLanguage, "cl") {
		p.meta.ContentLanguage = verifStr(tag + "-lang")
	}
	if has(pfExpires, "ex") {
		p.meta.Expires = verifStr(tag + "-exp")
	}
	if has(pfRedirect, "rd") {
		p.meta.WebsiteRedirectLocation = verifStr("/" + tag + "-redirect")
	}
	n := 0
	if on&pfUserMeta != 0 {
		n = 1
	} else if sym&pfUserMeta != 0 {
		n = verifPick(tag+"-um", 0, verifParam("maxcount", 2))
	}
	if n > 0 {
		p.meta.UserMetadata = map[string]string{}
		for i := 0; i < n; i++ {
			p.meta.UserMetadata[[]string{"alpha", "beta"}[i]] = tag + "-um"
		}
	}
	n = 0
	if on&pfTags != 0 {
		n = 1
	} else if sym&pfTags != 0 {
		n = verifPick(tag+"-tags", 0, verifParam("maxcount", 2))
	}
	if n > 0 {
		p.tags = map[string]string{}
		for i := 0; i < n; i++ {
			p.tags[[]string{"t1", "t2"}[i]] = tag + "-tag"
		}
	}
	if on&pfClass != 0 {
		p.class = verifStr("STANDARD_IA")
	} else if sym&pfClass != 0 {
		switch verifPick(tag+"-class", 0, 2) {
		case 1:
			p.class = verifStr("STANDARD_IA")
		case 2:
			p.class = verifStr("GLACIER")
		}
	}
	return p
}

func verifPtrEq(a, b *string) bool {
	if a == nil || b == nil {
		return a == nil && b == nil
	}
	return *a == *b
}

func verifMapEq(a, b map[string]string) bool {
	if len(a) != len(b) {
		return false
	}
	for k, v := range b {
		if w, ok := a[k]; !ok || w != v {
			return false
		}
	}
	return true
}

func verifClass(c *string) string {
	if c == nil || *c == "" {
		return "STANDARD"
	}
	return *c
}

// verifExpect reads key back (HeadObject, GetObject, GetObjectTagging) and
// compares every metadata facet with p.
func verifExpect(e *verifEnv, key storage.ObjectKey, p verifProfile) {
	head, err := e.st.HeadObject(verifCtx, e.bucket, key, nil)
	verifAssert(err == nil, "HeadObject failed")
	_, obj, err := e.read(key)
	verifAssert(err == nil, "GetObject failed")
	tags, err := e.st.GetObjectTagging(verifCtx, e.bucket, key, nil)
	verifAssert(err == nil, "GetObjectTagging failed")
	for _, o := range []*storage.Object{head, obj} {
		verifAssert(verifPtrEq(o.ContentType, p.ct), "content type differs from S3 write semantics")
		verifAssert(verifPtrEq(o.Metadata.CacheControl, p.meta.CacheControl), "Cache-Control differs")
		verifAssert(verifPtrEq(o.Metadata.ContentDisposition, p.meta.ContentDisposition), "Content-Disposition differs")
		verifAssert(verifPtrEq(o.Metadata.ContentEncoding, p.meta.ContentEncoding), "Content-Encoding differs")
		verifAssert(verifPtrEq(o.Metadata.ContentLanguage, p.meta.ContentLanguage), "Content-Language differs")
		verifAssert(verifPtrEq(o.Metadata.Expires, p.meta.Expires), "Expires differs")
		verifAssert(verifPtrEq(o.Metadata.WebsiteRedirectLocation, p.meta.WebsiteRedirectLocation), "website redirect location differs")
		verifAssert(verifMapEq(o.Metadata.UserMetadata, p.meta.UserMetadata), "user metadata differs")
		verifAssert(verifClass(o.StorageClass) == verifClass(p.class), "storage class differs")
	}
	verifAssert(verifMapEq(tags, p.tags), "tag set differs")
}

func verifPutProfile(e *verifEnv, key storage.ObjectKey, p verifProfile, body []byte) {
	meta := p.meta
	_, err := e.st.PutObject(verifCtx, e.bucket, key, p.ct, bytes.NewReader(body), nil, &storage.PutObjectOptions{Tags: p.tags, Metadata: &meta, StorageClass: p.class})
	verifAssert(err == nil, "PutObject failed")
}

func verifC11Env() *verifEnv {
	e := verifNewEnv(nil)
	verifMust(e.st.CreateBucket(verifCtx, e.bucket))
	m := &verifModel{}
	verifSetVersioning(e, m, verifParam("versioning", 0))
	return e
}

// VerifC11PutReplaces: a PutObject over an object carrying every facet
// replaces all of them with exactly the supplied ones.
func VerifC11PutReplaces() {
	e := verifC11Env()
	key := verifKeys[0]
	if verifBool("preexisting") {
		verifPutProfile(e, key, verifMkProfile("old", 0, pfAll), []byte("o"))
	}
	p := verifMkProfile("new", pfAll, 0)
	if verifBool("nil-options") {
		// no options at all: everything is cleared
		_, err := e.st.PutObject(verifCtx, e.bucket, key, p.ct, bytes.NewReader([]byte("n")), nil, nil)
		verifAssert(err == nil, "PutObject failed")
		verifExpect(e, key, verifProfile{ct: p.ct})
		return
	}
	verifPutProfile(e, key, p, []byte("n"))
	verifCover("put-replaced")
	verifExpect(e, key, p)
}

// VerifC11MultipartReplaces: the facets given at CreateMultipartUpload are
// exactly those of the completed object.
func VerifC11MultipartReplaces() {
	e := verifC11Env()
	key := verifKeys[0]
	if verifBool("preexisting") {
		verifPutProfile(e, key, verifMkProfile("old", 0, pfAll), []byte("o"))
	}
	p := verifMkProfile("new", pfAll, 0)
	meta := p.meta
	var opts *storage.CreateMultipartUploadOptions
	if !verifBool("nil-options") {
		opts = &storage.CreateMultipartUploadOptions{Tags: p.tags, Metadata: &meta, StorageClass: p.class}
	} else {
		p = verifProfile{ct: p.ct}
	}
	up, err := e.st.CreateMultipartUpload(verifCtx, e.bucket, key, p.ct, nil, opts)
	verifAssert(err == nil, "CreateMultipartUpload failed")
	_, err = e.st.UploadPart(verifCtx, e.bucket, key, up.UploadId, 1, bytes.NewReader([]byte("p")), nil)
	verifAssert(err == nil, "UploadPart failed")
	_, err = e.st.CompleteMultipartUpload(verifCtx, e.bucket, key, up.UploadId, nil, nil)
	verifAssert(err == nil, "CompleteMultipartUpload failed")
	verifCover("multipart-completed")
	verifExpect(e, key, p)
}

// VerifC11CopyDirectives: CopyObject with every combination of directives.
func VerifC11CopyDirectives() {
	e := verifC11Env()
	src, dst := verifKeys[0], verifKeys[1]
	srcSym, srcOn := pfRedirect|pfTags|pfClass, pfCT|pfUserMeta|pfCacheControl|pfExpires
	reqSym, reqOn := pfRedirect|pfClass, pfCT|pfLanguage|pfUserMeta|pfTags
	if verifParam("wide", 0) == 1 {
		srcSym, srcOn = pfCT|pfRedirect|pfUserMeta|pfTags|pfClass, pfCacheControl|pfExpires
		reqSym, reqOn = pfRedirect|pfClass|pfCT, pfLanguage|pfUserMeta|pfTags
	}
	sp := verifMkProfile("src", srcSym, srcOn)
	verifPutProfile(e, src, sp, []byte("s"))
	switch verifPick("target", 0, 2) {
	case 1:
		verifPutProfile(e, dst, verifMkProfile("old", 0, pfAll), []byte("o"))
	case 2:
		dst = src
	}
	rp := verifMkProfile("req", reqSym, reqOn)
	opts := &storage.CopyObjectOptions{ReplaceMetadata: verifBool("replace-metadata"), ReplaceTags: verifBool("replace-tags"),
		ContentType: rp.ct, Tags: rp.tags, StorageClass: rp.class}
	if !verifBool("nil-metadata") {
		meta := rp.meta
		opts.Metadata = &meta
	}
	_, err := e.st.CopyObject(verifCtx, e.bucket, src, e.bucket, dst, opts)
	verifAssert(err == nil, "CopyObject failed")

	var want verifProfile
	if opts.ReplaceMetadata {
		verifCover("copy-replace-metadata")
		want.ct = rp.ct
		if opts.Metadata != nil {
			want.meta = rp.meta
		}
	} else {
		verifCover("copy-copy-metadata")
		want.ct, want.meta = sp.ct, sp.meta
		want.meta.WebsiteRedirectLocation = nil
		if opts.Metadata != nil {
			want.meta.WebsiteRedirectLocation = rp.meta.WebsiteRedirectLocation
		}
	}
	if opts.ReplaceTags {
		want.tags = rp.tags
	} else {
		want.tags = sp.tags
	}
	want.class = rp.class
	verifExpect(e, dst, want)
	if dst != src {
		verifExpect(e, src, sp)
	}
}

// VerifC11Preserving: AppendObject, tagging calls and transitions keep the
// other facets.
func VerifC11Preserving() {
	e := verifC11Env()
	key := verifKeys[0]
	p := verifMkProfile("obj", pfCT|pfRedirect|pfCacheControl|pfUserMeta|pfTags|pfClass, pfExpires)
	verifPutProfile(e, key, p, []byte("x"))
	switch verifPick("op", 0, 3) {
	case 0:
		_, err := e.st.AppendObject(verifCtx, e.bucket, key, bytes.NewReader([]byte("y")), nil, nil)
		verifAssert(err == nil, "AppendObject failed")
		verifCover("append-preserves")
	case 1:
		target := []string{"STANDARD", "STANDARD_IA", "GLACIER"}[verifPick("target", 0, 2)]
		err := e.st.TransitionObjectStorageClass(verifCtx, e.bucket, key, target, nil)
		verifAssert(err == nil, "TransitionObjectStorageClass failed")
		p.class = &target
		verifCover("transition-preserves")
	case 2:
		nt := map[string]string{"t2": "changed", "t3": "added"}
		verifAssert(e.st.PutObjectTagging(verifCtx, e.bucket, key, nt, nil) == nil, "PutObjectTagging failed")
		p.tags = nt
	case 3:
		verifAssert(e.st.DeleteObjectTagging(verifCtx, e.bucket, key, nil) == nil, "DeleteObjectTagging failed")
		p.tags = nil
	}
	verifExpect(e, key, p)
}
