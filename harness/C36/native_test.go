package PKGNAME

import (
	"context"
	"database/sql"

	_ "github.com/mattn/go-sqlite3"
)

func init() {
	verifC36NativeNewTx = func() *sql.Tx {
		db, err := sql.Open("sqlite3", ":memory:")
		if err != nil {
			panic(err)
		}
		tx, err := db.BeginTx(context.Background(), nil)
		if err != nil {
			panic(err)
		}
		return tx
	}
	verifC36NativeTxDone = func(tx *sql.Tx) bool {
		_, err := tx.Exec("SELECT 1")
		return err == sql.ErrTxDone
	}
}
