package PKGNAME

// C36: WithTxReadClosers keeps the transaction exactly as long as needed.

import (
	"context"
	"database/sql"
	"errors"
	"io"
)

// ---- environment -----------------------------------------------------------

// Under the symbolic executor (*sql.Tx).Rollback/Commit are redirected to these
// stubs, which keep a model of the driver transaction. Natively a real SQLite
// transaction is used (see native_test.go) and observed through verifC36TxDone.
var verifC36Rollbacks int
var verifC36Done bool

func verifStubTxRollback(tx *sql.Tx) error {
	if verifC36Done {
		return sql.ErrTxDone
	}
	verifC36Done = true
	verifC36Rollbacks++
	return nil
}

func verifStubTxCommit(tx *sql.Tx) error {
	if verifC36Done {
		return sql.ErrTxDone
	}
	verifC36Done = true
	return nil
}

var verifC36NativeNewTx func() *sql.Tx
var verifC36NativeTxDone func(tx *sql.Tx) bool

func verifC36NewTx() *sql.Tx {
	if verifNative() {
		return verifC36NativeNewTx()
	}
	verifC36Rollbacks, verifC36Done = 0, false
	return new(sql.Tx)
}

func verifC36TxDone(tx *sql.Tx) bool {
	if verifNative() {
		return verifC36NativeTxDone(tx)
	}
	return verifC36Done
}

type verifC36DB struct{ tx *sql.Tx }

func (d *verifC36DB) BeginTx(ctx context.Context, opts *sql.TxOptions) (*TxController, error) {
	return NewTxController(d.tx, nil, true), nil
}
func (d *verifC36DB) PingContext(ctx context.Context) error { return nil }
func (d *verifC36DB) Close() error                          { return nil }
func (d *verifC36DB) GetDatabaseType() DatabaseType         { return DB_TYPE_SQLITE }

// verifC36Reader models a lazily reading SQL-backed part reader: it can only
// read while its transaction is alive.
type verifC36Reader struct {
	tx     *sql.Tx
	closed int
}

func (r *verifC36Reader) Read(p []byte) (int, error) {
	if verifC36TxDone(r.tx) {
		return 0, sql.ErrTxDone
	}
	return 0, nil
}

func (r *verifC36Reader) Close() error { r.closed++; return nil }

var verifC36ErrFn = errors.New("fn failed")

// VerifC36Sequence: n readers, then a symbolic sequence of Read/Close calls in
// any order, including repeated Close of the same reader.
func VerifC36Sequence() {
	maxReaders := verifParam("readers", 2)
	steps := verifParam("steps", 4)
	n := verifPick("n", 0, maxReaders)
	fnErr := verifBool("fnErr")
	tx := verifC36NewTx()
	db := &verifC36DB{tx: tx}
	inner := make([]*verifC36Reader, n)
	readers, err := WithTxReadClosers(context.Background(), db, &sql.TxOptions{ReadOnly: true}, func(ctx context.Context, t Tx) ([]io.ReadCloser, error) {
		if fnErr {
			return nil, verifC36ErrFn
		}
		rs := make([]io.ReadCloser, n)
		for i := range rs {
			inner[i] = &verifC36Reader{tx: tx}
			rs[i] = inner[i]
		}
		return rs, nil
	})
	if fnErr {
		verifAssert(err == verifC36ErrFn, "C36: fn error not returned")
		verifAssert(verifC36TxDone(tx), "C36: transaction not released after fn error")
		verifCover("fn-error")
		return
	}
	verifAssert(err == nil && len(readers) == n, "C36: readers not returned")
	if n == 0 {
		verifAssert(verifC36TxDone(tx), "C36: transaction not released although no reader was returned")
		verifCover("no-readers")
		return
	}
	verifAssert(!verifC36TxDone(tx), "C36: transaction released before any reader was closed")
	buf := make([]byte, 1)
	for s := 0; s < steps; s++ {
		i := verifPick("reader", 0, n-1)
		if verifBool("close") {
			readers[i].Close()
		} else {
			_, rerr := readers[i].Read(buf)
			if inner[i].closed == 0 {
				verifAssert(rerr == nil, "C36: a reader that was never closed failed because the transaction was released early")
				verifCover("read-live")
			}
		}
		allClosed := true
		for _, r := range inner {
			if r.closed == 0 {
				allClosed = false
			}
		}
		done := verifC36TxDone(tx)
		verifAssert(!done || allClosed, "C36: transaction released while a reader is still open")
		verifAssert(!allClosed || done, "C36: transaction still open after the last reader was closed")
		if !verifNative() {
			verifAssert(verifC36Rollbacks <= 1, "C36: transaction rolled back more than once")
		}
		if allClosed {
			verifCover("all-closed")
		}
	}
}
