package PKGNAME

// C05 kernel: SkipNBytes advances a reader by n bytes from its current
// position - also when the reader is a Seeker that is not at offset 0.

import "io"

type verifSeekReader struct {
	size, pos int64
}

func (r *verifSeekReader) Read(p []byte) (int, error) {
	if r.pos >= r.size {
		return 0, io.EOF
	}
	n := int64(len(p))
	if n > r.size-r.pos {
		n = r.size - r.pos
	}
	r.pos += n
	return int(n), nil
}

func (r *verifSeekReader) Seek(offset int64, whence int) (int64, error) {
	switch whence {
	case io.SeekStart:
		r.pos = offset
	case io.SeekCurrent:
		r.pos += offset
	case io.SeekEnd:
		r.pos = r.size + offset
	}
	return r.pos, nil
}

func VerifC05SkipN() {
	size := verifInt64("size")
	pos := verifInt64("pos")
	n := verifInt64("n")
	verifAssume(size >= 0 && size <= 1<<40 && pos >= 0 && pos <= size && n >= 0 && n <= size-pos)
	r := &verifSeekReader{size: size, pos: pos}
	skipped, err := SkipNBytes(r, n)
	verifCover("skip")
	verifAssert(err == nil && skipped == n, "SkipNBytes failed")
	verifAssert(r.pos == pos+n, "SkipNBytes did not advance the reader by n bytes from its current position")
}
