package PKGNAME

// C05, handler level: for a single satisfiable range of any form the GET handler
// answers 206 with a Content-Length equal to the number of body bytes it copies,
// which is the length of the RFC 7233 slice.

import (
	"context"
	"io"
	"net/http"
	"net/url"
	"time"

	"github.com/jdillenkofer/pithos/internal/http/server/authorization"
	"github.com/jdillenkofer/pithos/internal/storage"
	"go.opentelemetry.io/otel"
)

type verifC05Authorizer struct{}

func (verifC05Authorizer) AuthorizeRequest(ctx context.Context, request *authorization.Request) (bool, error) {
	return true, nil
}

type verifZeroReader struct{}

func (verifZeroReader) Read(p []byte) (int, error) {
	for i := range p {
		p[i] = 0
	}
	return len(p), nil
}

// the storage delivers, per range, exactly the bytes of the RFC 7233 slice
type verifC05Storage struct {
	storage.Storage
	size    int64
	lengths []int64
}

func (s *verifC05Storage) GetObject(ctx context.Context, b storage.BucketName, k storage.ObjectKey, ranges []storage.ByteRange, o *storage.GetObjectOptions) (*storage.Object, []io.ReadCloser, error) {
	var readers []io.ReadCloser
	for _, n := range s.lengths {
		readers = append(readers, io.NopCloser(io.LimitReader(verifZeroReader{}, n)))
	}
	return &storage.Object{Key: k, ETag: "e", Size: s.size, LastModified: time.Unix(1700000000, 0)}, readers, nil
}

var verifC05Written int64

type verifC05Writer struct {
	h      http.Header
	status int
}

func (w *verifC05Writer) Header() http.Header { return w.h }
func (w *verifC05Writer) WriteHeader(s int) {
	if w.status == 0 {
		w.status = s
	}
}
func (w *verifC05Writer) Write(p []byte) (int, error) {
	verifC05Written += int64(len(p))
	return len(p), nil
}

// under the executor the body copy is summarised: n bytes are written
func verifStubCopyN(dst io.Writer, src io.Reader, n int64) (int64, error) {
	verifC05Written += n
	return n, nil
}

func verifStubRemoteIP(remoteAddr string) *string {
	ip := "10.0.0.1"
	return &ip
}

func VerifC05HandlerLength() {
	form := verifPick("form", 0, 2)
	a := verifInt64("a")
	b := verifInt64("b")
	size := verifInt64("size")
	verifAssume(size > 0 && size <= 1<<32)
	verifAssume(a >= 0 && b >= 0 && a <= 1<<33 && b <= 1<<33)
	if form == 0 {
		verifAssume(a <= b)
	}
	start, end, sat := verifC05Oracle(form, a, b, size)
	verifAssume(sat) // unsatisfiable ranges are answered by the storage layer (unit 2)
	st := &verifC05Storage{size: size, lengths: []int64{end - start}}
	s := &Server{requestAuthorizer: verifC05Authorizer{}, storage: st, tracer: otel.Tracer("verif")}
	r := &http.Request{Method: "GET", Header: http.Header{}, URL: &url.URL{Path: "/bucket/key"}, Host: "s3.example", RemoteAddr: "10.0.0.1:1", Body: http.NoBody}
	r.SetPathValue("bucket", "bucket")
	r.SetPathValue("key", "key")
	r.Header.Set("Range", verifC05Header(form, a, b))
	w := &verifC05Writer{h: http.Header{}}
	verifC05Written = 0
	s.getObjectHandler(w, r)
	verifCover("handler-range")
	verifAssert(w.status == 206, "C05: a satisfiable range was not answered with 206")
	cl := w.h.Get("Content-Length")
	verifAssert(verifFmtArg(cl, 0) == end-start, "C05: Content-Length is not the length of the selected slice")
	verifAssert(verifC05Written == end-start, "C05: the handler does not copy exactly the selected slice")
}
