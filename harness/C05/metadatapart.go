package PKGNAME

// C05 harness, unit 2 (package metadatapart): createRangeReader maps a
// normalised byte range onto per-part (skip, limit) ranges that tile it exactly.

import (
	"context"
	"io"

	"github.com/jdillenkofer/pithos/internal/storage"
	"github.com/jdillenkofer/pithos/internal/storage/database"
	"github.com/jdillenkofer/pithos/internal/storage/metadatapart/metadatastore"
	"github.com/jdillenkofer/pithos/internal/storage/metadatapart/partstore"
)

type verifC05Store struct{}

func (verifC05Store) Start(ctx context.Context) error { return nil }
func (verifC05Store) Stop(ctx context.Context) error  { return nil }
func (verifC05Store) PutPart(ctx context.Context, tx database.Tx, id partstore.PartId, r io.Reader) error {
	return nil
}
func (verifC05Store) GetPart(ctx context.Context, tx database.Tx, id partstore.PartId) (io.ReadCloser, error) {
	return nil, partstore.ErrPartNotFound
}
func (verifC05Store) GetPartIds(ctx context.Context, tx database.Tx) ([]partstore.PartId, error) {
	return nil, nil
}
func (verifC05Store) DeletePart(ctx context.Context, tx database.Tx, id partstore.PartId) error {
	return nil
}

func verifC05PartId(i int) partstore.PartId {
	b := make([]byte, 16)
	b[0] = byte(i + 1)
	id, err := partstore.NewPartIdFromBytes(b)
	if err != nil {
		panic(err)
	}
	return *id
}

// VerifC05PartRanges: object of 1..3 parts with arbitrary sizes; any
// normalised range [s,e) or open-ended [s,...).
func VerifC05PartRanges() {
	maxParts := verifParam("parts", 3)
	n := verifPick("nparts", 1, maxParts)
	obj := &metadatastore.Object{}
	var size int64
	starts := make([]int64, n+1)
	for i := 0; i < n; i++ {
		sz := verifMathInt64("partSize")
		verifAssume(sz >= 0 && sz <= 1<<60)
		obj.Parts = append(obj.Parts, metadatastore.Part{Id: verifC05PartId(i), Size: sz})
		starts[i] = size
		size += sz
	}
	starts[n] = size
	obj.Size = size
	s := verifMathInt64("start")
	e := verifMathInt64("end")
	openEnded := verifBool("openEnded")
	verifAssume(s >= 0)
	br := storage.ByteRange{Start: &s}
	if verifBool("wholeObject") {
		// no Range header at all: the whole object, of any size including 0
		stores, err := partstore.NewNamedPartStores(verifC05Store{}, nil, nil)
		verifAssert(err == nil, "setup")
		mbs := &metadataPartStorage{partStores: stores}
		rc, rerr := mbs.createRangeReader(context.Background(), nil, obj, storage.ByteRange{})
		verifAssert(rerr == nil, "C05: reading a whole object without a Range header failed (416 although no range was requested)")
		if l, ok := rc.(*lazyPartSequenceReadCloser); ok {
			var total int64
			for _, pr := range l.parts {
				verifAssert(pr.limit != nil && pr.skip == 0, "C05: whole-object read skips bytes")
				total += *pr.limit
			}
			verifAssert(total == size, "C05: whole-object read does not cover the object")
		} else {
			verifAssert(size == 0, "C05: non-empty object read as empty")
		}
		verifCover("whole-object")
		return
	}
	if openEnded {
		e = size
	} else {
		verifAssume(s < e && e <= size) // what normalizeAndValidateRanges guarantees (unit 1)
		br.End = &e
	}
	stores, err := partstore.NewNamedPartStores(verifC05Store{}, nil, nil)
	verifAssert(err == nil, "setup")
	mbs := &metadataPartStorage{partStores: stores}
	rc, rerr := mbs.createRangeReader(context.Background(), nil, obj, br)
	if openEnded && s >= size {
		verifAssert(rerr == storage.ErrInvalidRange, "C05: first-byte-pos at or beyond the end not answered with ErrInvalidRange (416)")
		verifCover("open-ended-unsatisfiable")
		return
	}
	verifAssert(rerr == nil, "C05: satisfiable range rejected by createRangeReader")
	l, ok := rc.(*lazyPartSequenceReadCloser)
	verifAssert(ok, "C05: non-empty range must yield a part sequence reader")
	verifAssert(len(l.parts) >= 1, "C05: non-empty range mapped to no part")
	// the selected parts are a contiguous run of the object's parts, in order
	first := -1
	for i := 0; i < n; i++ {
		if obj.Parts[i].Id == l.parts[0].id {
			first = i
		}
	}
	verifAssert(first >= 0, "C05: unknown part selected")
	verifAssert(first+len(l.parts) <= n, "C05: more parts selected than exist")
	var total int64
	pos := s
	for k, pr := range l.parts {
		i := first + k
		verifAssert(obj.Parts[i].Id == pr.id, "C05: selected parts not contiguous/in order")
		verifAssert(pr.limit != nil, "C05: part range without limit")
		// this piece covers [pos, pos+limit) of the object and lies inside part i
		verifAssert(starts[i]+pr.skip == pos, "C05: part range does not continue where the previous one ended (gap or overlap)")
		verifAssert(pr.skip >= 0 && *pr.limit >= 0 && pr.skip+*pr.limit <= obj.Parts[i].Size, "C05: part range outside its part")
		pos += *pr.limit
		total += *pr.limit
	}
	verifAssert(pos == e, "C05: part ranges do not end at the requested end")
	verifAssert(total == e-s, "C05: sum of part limits differs from the range length (Content-Length mismatch)")
	verifCover("tiled")
}
