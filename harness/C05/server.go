package PKGNAME

// C05 harness, unit 1 (package server): Range header parsing, the storage
// layer's normalisation (linked in), and Content-Range generation.

import (
	"strconv"
	_ "unsafe"

	"github.com/jdillenkofer/pithos/internal/storage"
	_ "github.com/jdillenkofer/pithos/internal/storage/metadatapart"
)

//go:linkname verifLinkNormalize github.com/jdillenkofer/pithos/internal/storage/metadatapart.normalizeAndValidateRanges
func verifLinkNormalize(ranges []storage.ByteRange, objectSize int64) ([]storage.ByteRange, error)

var verifTokA, verifTokB int64

// verifStubParseInt replaces strconv.ParseInt under the symbolic executor: the
// placeholder tokens "A" and "B" stand for the decimal spelling of an arbitrary
// int64 (every int64 has one, and ParseInt(FormatInt(x)) == x).
func verifStubParseInt(s string, base int, bitSize int) (int64, error) {
	switch s {
	case "A":
		return verifTokA, nil
	case "B":
		return verifTokB, nil
	}
	return strconv.ParseInt(s, base, bitSize)
}

func verifC05Header(form int, a, b int64) string {
	sa, sb := "A", "B"
	if verifNative() {
		sa, sb = strconv.FormatInt(a, 10), strconv.FormatInt(b, 10)
	} else {
		verifTokA, verifTokB = a, b
	}
	switch form {
	case 0:
		return "bytes=" + sa + "-" + sb
	case 1:
		return "bytes=" + sa + "-"
	}
	return "bytes=-" + sb
}

// rfc7233 is the reference: the byte slice [start,end) selected by one
// syntactically valid range of the given form on a representation of `size`
// bytes, or unsatisfiable.
func verifC05Oracle(form int, a, b, size int64) (start, end int64, satisfiable bool) {
	switch form {
	case 0: // first-last
		if a >= size {
			return 0, 0, false
		}
		last := b
		if last > size-1 {
			last = size - 1
		}
		return a, last + 1, true
	case 1: // first-
		if a >= size {
			return 0, 0, false
		}
		return a, size, true
	}
	// suffix
	if b == 0 {
		return 0, 0, false
	}
	n := b
	if n > size {
		n = size
	}
	return size - n, size, true
}

// VerifC05SingleRange: one syntactically valid range spec of any of the three
// forms, any first/last/suffix value in int64, any object size.
func VerifC05SingleRange() {
	form := verifPick("form", 0, 2)
	a := verifInt64("a")
	b := verifInt64("b")
	size := verifInt64("size")
	verifAssume(size >= 0 && size <= 1<<62)
	verifAssume(a >= 0 && b >= 0)
	if form == 0 {
		verifAssume(a <= b) // last-byte-pos < first-byte-pos is syntactically invalid (RFC 7233 2.1)
	}
	if form == 2 {
		verifAssume(size > 0) // positive suffix of an empty representation: outside the claim
	}
	hdr := verifC05Header(form, a, b)
	ranges, err := parseRangeHeader(hdr)
	verifAssert(err == nil, "C05: syntactically valid Range header rejected by parseRangeHeader")
	verifAssert(len(ranges) == 1, "C05: one range spec must yield one range")
	wantStart, wantEnd, sat := verifC05Oracle(form, a, b, size)
	if verifKnown("C05-last-byte-pos-maxint64", form == 0 && b == 9223372036854775807) {
		return
	}
	norm, nerr := verifLinkNormalize(ranges, size)
	if form == 1 {
		// open-ended ranges are validated against the size later, in createRangeReader (unit 2)
		verifAssert(nerr == nil, "C05: open-ended range rejected by normalisation")
		verifAssert(norm[0].Start != nil && *norm[0].Start == a && norm[0].End == nil, "C05: open-ended range altered by normalisation")
		verifCover("open-ended")
		return
	}
	if !sat {
		verifAssert(nerr == storage.ErrInvalidRange, "C05: unsatisfiable range not answered with ErrInvalidRange (416)")
		verifCover("unsatisfiable")
		return
	}
	verifAssert(nerr == nil, "C05: satisfiable range answered with an error (416) instead of the clamped slice")
	verifAssert(len(norm) == 1 && norm[0].Start != nil && norm[0].End != nil, "C05: normalised range incomplete")
	verifAssert(*norm[0].Start == wantStart, "C05: normalised start differs from RFC 7233 slice")
	verifAssert(*norm[0].End == wantEnd, "C05: normalised end differs from RFC 7233 slice")
	// Content-Range as the handler renders it from the *parsed* range
	cr := generateContentRangeValue(ranges[0], size)
	verifAssert(verifFmtArg(cr, 0) == wantStart, "C05: Content-Range first-byte-pos wrong")
	verifAssert(verifFmtArg(cr, 1) == wantEnd-1, "C05: Content-Range last-byte-pos wrong")
	verifAssert(verifFmtArg(cr, 2) == size, "C05: Content-Range complete-length wrong")
	verifCover("satisfiable")
}

// VerifC05TwoRanges: a list of two range specs keeps order and each element is
// parsed as it would be alone.
func VerifC05TwoRanges() {
	a := verifInt64("a")
	b := verifInt64("b")
	verifAssume(a >= 0 && b >= a && b < 1<<62)
	sa, sb := "A", "B"
	if verifNative() {
		sa, sb = strconv.FormatInt(a, 10), strconv.FormatInt(b, 10)
	} else {
		verifTokA, verifTokB = a, b
	}
	sep := ","
	if verifBool("space") {
		sep = ", "
	}
	ranges, err := parseRangeHeader("bytes=" + sa + "-" + sb + sep + "-" + sb)
	verifAssert(err == nil, "C05: valid two-range header rejected")
	verifAssert(len(ranges) == 2, "C05: two range specs must yield two ranges")
	verifAssert(ranges[0].Start != nil && *ranges[0].Start == a && ranges[0].End != nil && *ranges[0].End == b+1, "C05: first range of list mis-parsed")
	verifAssert(ranges[1].Start == nil && ranges[1].End != nil && *ranges[1].End == b, "C05: suffix range of list mis-parsed")
}

// VerifC05ParseIntSummary validates the ParseInt summary used above on the real
// strconv.ParseInt with symbolic digit strings.
func VerifC05ParseIntSummary() {
	n := verifPick("n", 1, 3)
	s := verifString("digits", n)
	var want int64
	for i := 0; i < n; i++ {
		verifAssume(s[i] >= '0' && s[i] <= '9')
		want = want*10 + int64(s[i]-'0')
	}
	got, err := strconv.ParseInt(s, 10, 64)
	verifAssert(err == nil && got == want, "strconv.ParseInt disagrees with the decimal value of its digits")
}
