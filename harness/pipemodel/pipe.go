package PKGNAME

// io.Pipe under the sequential goroutine model: an unbounded buffer. A read on
// an empty, still open pipe first lets the queued goroutines run (the writer is
// one of them); if nothing could run the read would block for ever, which the
// model does not follow.

import "io"

type verifPipeState struct {
	buf     []byte
	wclosed bool
	werr    error
	rclosed bool
}

var verifPipeOfW = map[*io.PipeWriter]*verifPipeState{}
var verifPipeOfR = map[*io.PipeReader]*verifPipeState{}

func verifStubPipe() (*io.PipeReader, *io.PipeWriter) {
	r, w, st := new(io.PipeReader), new(io.PipeWriter), &verifPipeState{}
	verifPipeOfR[r], verifPipeOfW[w] = st, st
	return r, w
}
func verifStubPipeWrite(w *io.PipeWriter, p []byte) (int, error) {
	st := verifPipeOfW[w]
	if st.wclosed || st.rclosed {
		return 0, io.ErrClosedPipe
	}
	st.buf = append(st.buf, p...)
	return len(p), nil
}
func verifStubPipeWClose(w *io.PipeWriter) error { return verifStubPipeWCloseErr(w, nil) }
func verifStubPipeWCloseErr(w *io.PipeWriter, err error) error {
	st := verifPipeOfW[w]
	if !st.wclosed {
		st.wclosed, st.werr = true, err
	}
	return nil
}
func verifStubPipeRClose(r *io.PipeReader) error {
	verifPipeOfR[r].rclosed = true
	return nil
}
func verifStubPipeRead(r *io.PipeReader, p []byte) (int, error) {
	st := verifPipeOfR[r]
	if st.rclosed {
		return 0, io.ErrClosedPipe
	}
	for len(st.buf) == 0 && !st.wclosed {
		if !verifYield() {
			panic("verif: pipe read would block in the sequential goroutine model")
		}
	}
	if len(st.buf) > 0 {
		n := copy(p, st.buf)
		st.buf = st.buf[n:]
		return n, nil
	}
	if st.werr != nil {
		return 0, st.werr
	}
	return 0, io.EOF
}
