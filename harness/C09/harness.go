package PKGNAME

// C09: once no parts row references a part and the grace window has elapsed, a
// GC run removes it from the part store, the registry and the dedup index;
// referenced or young parts are never touched; registry counts are reconciled
// to the actual number of parts rows.
//
// The real runGCWithContext runs over the real registry / dedup repositories
// (sqlsym). The reconciliation query (GROUP BY / UNION / NOT EXISTS) and the
// dedup backfill (INSERT ... SELECT) are outside sqlsym: they are replaced by a
// reference implementation over the harness's part ids under the executor,
// while the native replay uses the real statements.

import (
	"errors"
	"bytes"
	dbsql "database/sql"
	"io"
	"time"

	"github.com/jdillenkofer/pithos/internal/storage/database"
	"github.com/jdillenkofer/pithos/internal/storage/database/repository/partdedupindex"
	"github.com/jdillenkofer/pithos/internal/storage/database/repository/partregistry"
	sqliteDedup "github.com/jdillenkofer/pithos/internal/storage/database/sqlite/repository/partdedupindex"
	sqliteRegistry "github.com/jdillenkofer/pithos/internal/storage/database/sqlite/repository/partregistry"
	"github.com/jdillenkofer/pithos/internal/storage/metadatapart/metadatastore"
	"github.com/jdillenkofer/pithos/internal/storage/metadatapart/partstore"
	"github.com/oklog/ulid/v2"
)

// the current instant: fixed under the executor (time.Now is redirected to it),
// the real clock natively
var verifNowUnix = verifNowBase()

func verifNowBase() int64 {
	if verifNative() {
		return time.Now().Unix()
	}
	return 1700000000
}

func verifStubNow() time.Time { return time.Unix(verifNowUnix, 0).UTC() }

func verifPartID(ageSeconds int64, n byte) partstore.PartId {
	var id ulid.ULID
	ms := uint64(verifNowUnix-ageSeconds) * 1000 // ULID time = creation instant
	id[0], id[1], id[2], id[3], id[4], id[5] = byte(ms>>40), byte(ms>>32), byte(ms>>24), byte(ms>>16), byte(ms>>8), byte(ms)
	id[15] = n
	p, err := partstore.NewPartIdFromBytes(id[:])
	if err != nil {
		panic(err)
	}
	return *p
}

// ---- part store double --------------------------------------------------------------

type verifStore struct {
	ids     []partstore.PartId
	deleted []partstore.PartId
}

func (s *verifStore) Start(ctx contextT) error { return nil }
func (s *verifStore) Stop(ctx contextT) error  { return nil }
func (s *verifStore) PutPart(ctx contextT, tx database.Tx, id partstore.PartId, r io.Reader) error {
	s.ids = append(s.ids, id)
	return nil
}
func (s *verifStore) GetPart(ctx contextT, tx database.Tx, id partstore.PartId) (io.ReadCloser, error) {
	return io.NopCloser(bytes.NewReader(nil)), nil
}
func (s *verifStore) GetPartIds(ctx contextT, tx database.Tx) ([]partstore.PartId, error) {
	return append([]partstore.PartId(nil), s.ids...), nil
}
// verifTxFreeStore: a store that deletes outside the transaction (as the
// filesystem and remote stores do) and whose deletion of one part keeps failing
type verifTxFreeStore struct {
	*verifStore
	failFor *partstore.PartId
}

func (s verifTxFreeStore) Capabilities() partstore.Capabilities {
	return partstore.Capabilities(partstore.CapabilityTxFreeDeletePart)
}
func (s verifTxFreeStore) DeletePart(ctx contextT, tx database.Tx, id partstore.PartId) error {
	if s.failFor != nil && s.failFor.Equal(id) {
		return errors.New("verif: the store cannot delete this part")
	}
	return s.verifStore.DeletePart(ctx, tx, id)
}

func (s *verifStore) DeletePart(ctx contextT, tx database.Tx, id partstore.PartId) error {
	for i := range s.ids {
		if s.ids[i].Equal(id) {
			s.ids = append(append([]partstore.PartId(nil), s.ids[:i]...), s.ids[i+1:]...)
			s.deleted = append(s.deleted, id)
			return nil
		}
	}
	return nil
}
func (s *verifStore) has(id partstore.PartId) bool {
	for i := range s.ids {
		if s.ids[i].Equal(id) {
			return true
		}
	}
	return false
}

// ---- reference implementations of the statements outside sqlsym ----------------------

var verifIDs []partstore.PartId

func verifCountParts(ctx contextT, tx *dbsql.Tx, id partstore.PartId) (int64, error) {
	var n int64
	err := tx.QueryRowContext(ctx, "SELECT COUNT(*) FROM parts WHERE part_id = $1", id.String()).Scan(&n)
	return n, err
}

// verifRealSQL: the reconciliation and in-use statements (LEFT JOIN / GROUP BY /
// UNION ALL / NOT EXISTS) are interpreted by sqlsym; the reference
// implementations below are kept for comparison runs only
const verifRealSQL = true

type verifRegistry struct{ partregistry.Repository }

func (r *verifRegistry) FindReconciliation(ctx contextT, tx *dbsql.Tx) ([]partregistry.Reconciliation, error) {
	if verifNative() || verifRealSQL {
		return r.Repository.FindReconciliation(ctx, tx)
	}
	var out []partregistry.Reconciliation
	for _, id := range verifIDs {
		actual, err := verifCountParts(ctx, tx, id)
		if err != nil {
			return nil, err
		}
		var ref, version int64
		err = tx.QueryRowContext(ctx, "SELECT ref_count, version FROM part_registry WHERE part_id = $1", id.String()).Scan(&ref, &version)
		item := partregistry.Reconciliation{PartId: id, ActualCount: actual}
		if err == nil {
			item.RefCount, item.Version = &ref, &version
		} else if err != dbsql.ErrNoRows {
			return nil, err
		} else if actual == 0 {
			continue // neither a parts row nor a registry row
		}
		out = append(out, item)
	}
	return out, nil
}

type verifDedup struct{ partdedupindex.Repository }

func (r *verifDedup) BackfillFromParts(ctx contextT, tx *dbsql.Tx) (int64, error) {
	if verifNative() {
		return r.Repository.BackfillFromParts(ctx, tx)
	}
	return 0, nil // the harness's parts rows carry no checksums: nothing to backfill
}

type verifMeta struct{ metadatastore.MetadataStore }

func (m *verifMeta) GetInUsePartIdCounts(ctx contextT, tx *dbsql.Tx) (map[partstore.PartId]int64, error) {
	out := map[partstore.PartId]int64{}
	for _, id := range verifIDs {
		n, err := verifCountParts(ctx, tx, id)
		if err != nil {
			return nil, err
		}
		if n > 0 {
			out[id] = n
		}
	}
	return out, nil
}

func verifMust(err error) {
	if err != nil {
		panic(err)
	}
}

func verifExec(tx database.Tx, q string, args ...any) {
	_, err := tx.SqlTx().ExecContext(verifBg, q, args...)
	verifMust(err)
}

// VerifC09Sweep: one part id in a symbolic situation, then GC runs.
func VerifC09Sweep() {
	db := verifNewDB()
	store, cold := &verifStore{}, &verifStore{}
	// the cold store deletes outside the transaction; optionally it cannot delete its first orphan
	stuck := verifPartID(7200, 4)
	var coldStore partstore.PartStore = cold
	txFree := verifBool("cold-store-deletes-tx-free")
	undeletable := false
	if txFree {
		ts := verifTxFreeStore{verifStore: cold}
		if verifBool("one-part-cannot-be-deleted") {
			undeletable = true
			ts.failFor = &stuck
			cold.ids = append(cold.ids, stuck) // listed first
		}
		coldStore = ts
	}
	stores, err := partstore.NewNamedPartStores(store, map[string]partstore.PartStore{"cold": coldStore}, map[string]string{"GLACIER": "cold"})
	verifMust(err)
	reg, err := sqliteRegistry.NewRepository()
	verifMust(err)
	dd, err := sqliteDedup.NewRepository()
	verifMust(err)
	registry, dedup := &verifRegistry{reg}, &verifDedup{dd}
	// grace window and collection interval differ: only the grace window decides what is old enough
	c, err := New(db, &verifMeta{}, stores, registry, dedup, 30*time.Minute, 24*time.Hour)
	verifMust(err)
	g := c.(*partGC)

	old := verifBool("older-than-grace-window")
	age := int64(60)
	if old {
		age = 7200
	}
	p, other := verifPartID(age, 1), verifPartID(7200, 2)
	coldOrphan := verifPartID(7200, 3)
	verifIDs = []partstore.PartId{p, other, coldOrphan, stuck}
	cold.ids = append(cold.ids, coldOrphan)
	inStore := verifBool("in-store")
	refs := verifPick("parts-rows", 0, 2)
	regRow := verifPick("registry-row", -1, 2) // -1: no row, else ref_count
	indexed := verifBool("dedup-entry")
	t0 := time.Unix(1600000000, 0).UTC()
	verifMust(database.WithTx(verifBg, db, nil, func(ctx contextT, tx database.Tx) error {
		verifExec(tx, "INSERT INTO buckets (id, name, created_at, updated_at) VALUES ($1, $2, $3, $4)", "01ARZ3NDEKTSV4RRFFQ69G5FB0", "bucket", t0, t0)
		for i := 0; i < refs; i++ {
			oid := []string{"01ARZ3NDEKTSV4RRFFQ69G5FC1", "01ARZ3NDEKTSV4RRFFQ69G5FC2"}[i]
			verifExec(tx, "INSERT INTO objects (id, bucket_name, key, etag, size, upload_status, created_at, updated_at, version_id, is_delete_marker, is_latest, optimistic_lock_version) VALUES ($1, $2, $3, $4, $5, $6, $7, $8, $9, $10, $11, $12)",
				oid, "bucket", []string{"k1", "k2"}[i], "e", int64(1), "COMPLETED", t0, t0, "null", false, true, int64(1))
			verifExec(tx, "INSERT INTO parts (id, part_id, object_id, etag, size, sequence_number, created_at, updated_at) VALUES ($1, $2, $3, $4, $5, $6, $7, $8)",
				[]string{"01ARZ3NDEKTSV4RRFFQ69G5FD1", "01ARZ3NDEKTSV4RRFFQ69G5FD2"}[i], p.String(), oid, "e", int64(1), 0, t0, t0)
		}
		if regRow >= 0 {
			verifExec(tx, "INSERT INTO part_registry (part_id, ref_count, version, created_at, updated_at) VALUES ($1, $2, 1, $3, $4)", p.String(), int64(regRow), t0, t0)
		}
		if indexed {
			verifExec(tx, "INSERT INTO part_dedup_index (part_store_name, checksum_sha256, size, etag, checksum_crc32, checksum_crc32c, checksum_crc64nvme, checksum_sha1, part_id, created_at, updated_at) VALUES ($1,$2,$3,$4,$5,$6,$7,$8,$9,$10,$11)",
				"", "sha", int64(1), "e", "a", "b", "c", "d", p.String(), t0, t0)
		}
		return nil
	}))
	if inStore {
		store.ids = append(store.ids, p)
	}
	// an unrelated old, referenced... no: unreferenced old part that is always collectable
	store.ids = append(store.ids, other)

	verifMust(g.runGCWithContext(verifBg))
	if verifBool("second-run") {
		verifMust(g.runGCWithContext(verifBg))
	}

	var regCount, regRefs, ddCount int64
	verifMust(database.WithTx(verifBg, db, &dbsql.TxOptions{ReadOnly: true}, func(ctx contextT, tx database.Tx) error {
		if err := tx.SqlTx().QueryRowContext(ctx, "SELECT COUNT(*) FROM part_registry WHERE part_id = $1", p.String()).Scan(&regCount); err != nil {
			return err
		}
		if regCount == 1 {
			if err := tx.SqlTx().QueryRowContext(ctx, "SELECT ref_count FROM part_registry WHERE part_id = $1", p.String()).Scan(&regRefs); err != nil {
				return err
			}
		}
		return tx.SqlTx().QueryRowContext(ctx, "SELECT COUNT(*) FROM part_dedup_index WHERE part_id = $1", p.String()).Scan(&ddCount)
	}))
	verifAssert(!store.has(other), "an unreferenced part older than the grace window survived a GC run")
	verifAssert(!cold.has(coldOrphan), "an unreferenced old part in a non-default store survived a GC run")
	if undeletable {
		verifCover("undeletable-part")
		verifAssert(cold.has(stuck), "harness: the undeletable part disappeared")
	}
	switch {
	case refs > 0:
		verifCover("referenced")
		verifAssert(store.has(p) == inStore, "a referenced part was deleted from its store")
		verifAssert(regCount == 1 && regRefs == int64(refs), "the registry count was not reconciled to the number of referencing parts rows")
	case !old:
		verifCover("young")
		verifAssert(store.has(p) == inStore, "a part younger than the grace window was collected")
	default:
		verifCover("reclaimed")
		verifAssert(!store.has(p), "an unreferenced part older than the grace window is still in the store")
		verifAssert(regCount == 0, "the registry row of a reclaimed part remains")
		verifAssert(ddCount == 0, "the dedup index entry of a reclaimed part remains")
	}
}
