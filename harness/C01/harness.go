package PKGNAME

// C01: acknowledged writes are read back exactly; NoSuchKey / NoSuchBucket
// exactly when the reference model says so; DeleteBucket only when empty.
//
// A reference model (bucket, two keys, one pending upload) is driven in
// lock-step with the real storage. Histories are: one of a pool of concrete
// set-up scripts (run through the real API as well) followed by `steps`
// operations chosen by the solver.

import (
	"bytes"
	"errors"
	"io"

	"github.com/jdillenkofer/pithos/internal/checksumutils"
	"github.com/jdillenkofer/pithos/internal/storage"
)

type verifKeyModel struct {
	exists  bool // a current, non-delete-marker object
	body    []byte
	ct      *string
	nonNull int  // versions and delete markers with a real version id
	hasNull bool // a "null" version or "null" delete marker exists
}

// versions: rows that keep the bucket non-empty
func (k verifKeyModel) versions() int {
	if k.hasNull {
		return k.nonNull + 1
	}
	return k.nonNull
}

type verifUploadModel struct {
	active bool
	key    int
	id     storage.UploadId
	ct     *string
	have   [2]bool
	part   [2][]byte
}

type verifModel struct {
	bucket     bool
	versioning int // 0 unversioned, 1 enabled, 2 suspended
	keys       [2]verifKeyModel
	up         verifUploadModel
}

type verifOp struct {
	rng  int // UploadPartCopy: 0 whole source, 1 last byte (bytes=-1), 2 first byte
	kind int
	key  int
	key2 int
	body []byte
	ct   int // 0 nil, 1 "text/a", 2 "text/b"
	part int // 1..2
	cls  bool // PutObject names the storage class STANDARD explicitly
}

const (
	opCreateBucket = iota
	opDeleteBucket
	opPut
	opAppend
	opCopy
	opDelete
	opMPCreate
	opMPPart
	opMPComplete
	opMPAbort
	opMPPartCopy
	opCount
)

var verifKeys = [2]storage.ObjectKey{storage.MustNewObjectKey("a"), storage.MustNewObjectKey("b")}
var verifCTa, verifCTb = "text/a", "text/b"

func verifCT(i int) *string {
	switch i {
	case 1:
		return &verifCTa
	case 2:
		return &verifCTb
	}
	return nil
}

func verifCTEq(a, b *string) bool {
	if a == nil || b == nil {
		return a == nil && b == nil
	}
	return *a == *b
}

func verifSetVersioning(e *verifEnv, m *verifModel, mode int) {
	m.versioning = mode
	if mode == 0 {
		return
	}
	status := storage.BucketVersioningStatusEnabled
	if mode == 2 {
		status = storage.BucketVersioningStatusSuspended
	}
	verifMust(e.st.PutBucketVersioningConfiguration(verifCtx, e.bucket, &storage.BucketVersioningConfiguration{Status: &status}))
}

func verifConcat(a, b []byte) []byte {
	return append(append([]byte(nil), a...), b...)
}

// wrote records an acknowledged write of (body, ct) to key k in the model.
func (m *verifModel) wrote(k int, body []byte, ct *string) {
	km := &m.keys[k]
	km.exists, km.body, km.ct = true, body, ct
	if m.versioning == 1 {
		km.nonNull++ // a new version with its own id
	} else {
		km.hasNull = true // the null version is created or replaced in place
	}
}

func (m *verifModel) empty() bool {
	return m.keys[0].versions() == 0 && m.keys[1].versions() == 0 && !m.up.active
}

func verifIsAbsent(err error, m *verifModel) bool {
	if !m.bucket {
		return err == storage.ErrNoSuchBucket
	}
	if err == storage.ErrNoSuchKey {
		return true
	}
	var dm *storage.CurrentDeleteMarkerError
	return m.versioning != 0 && errors.As(err, &dm)
}

// apply runs one operation against the real storage and the model.
func verifApply(e *verifEnv, m *verifModel, op verifOp) {
	key := verifKeys[op.key]
	switch op.kind {
	case opCreateBucket:
		err := e.st.CreateBucket(verifCtx, e.bucket)
		if m.bucket {
			verifAssert(err == storage.ErrBucketAlreadyExists, "CreateBucket on an existing bucket")
		} else {
			verifAssert(err == nil, "CreateBucket failed")
			m.bucket, m.versioning = true, 0
		}
	case opDeleteBucket:
		err := e.st.DeleteBucket(verifCtx, e.bucket)
		switch {
		case !m.bucket:
			verifAssert(err == storage.ErrNoSuchBucket, "DeleteBucket of an absent bucket")
		case !m.empty():
			verifCover("delete-nonempty-bucket")
			verifAssert(err == storage.ErrBucketNotEmpty, "DeleteBucket of a non-empty bucket did not fail with BucketNotEmpty")
		default:
			verifCover("delete-empty-bucket")
			verifAssert(err == nil, "DeleteBucket of an empty bucket failed")
			m.bucket = false
		}
	case opPut:
		ct := verifCT(op.ct)
		var popts *storage.PutObjectOptions
		if op.cls {
			std := "STANDARD"
			popts = &storage.PutObjectOptions{StorageClass: &std}
		}
		_, err := e.st.PutObject(verifCtx, e.bucket, key, ct, bytes.NewReader(op.body), nil, popts)
		if !m.bucket {
			verifAssert(err == storage.ErrNoSuchBucket, "PutObject into an absent bucket")
			return
		}
		verifAssert(err == nil, "PutObject failed")
		m.wrote(op.key, op.body, ct)
	case opAppend:
		_, err := e.st.AppendObject(verifCtx, e.bucket, key, bytes.NewReader(op.body), nil, nil)
		if !m.bucket {
			verifAssert(err == storage.ErrNoSuchBucket, "AppendObject into an absent bucket")
			return
		}
		verifAssert(err == nil, "AppendObject failed")
		km := m.keys[op.key]
		if km.exists {
			m.wrote(op.key, verifConcat(km.body, op.body), km.ct)
		} else {
			m.wrote(op.key, op.body, nil)
		}
	case opCopy:
		var copts *storage.CopyObjectOptions
		one, zero := int64(1), int64(0)
		switch op.rng {
		case 1: // the last byte
			copts = &storage.CopyObjectOptions{Range: &storage.ByteRange{End: &one}}
		case 2: // the first byte
			copts = &storage.CopyObjectOptions{Range: &storage.ByteRange{Start: &zero, End: &one}}
		}
		_, err := e.st.CopyObject(verifCtx, e.bucket, key, e.bucket, verifKeys[op.key2], copts)
		src := m.keys[op.key]
		if !m.bucket || !src.exists {
			verifAssert(err != nil && (op.rng != 0 || verifIsAbsent(err, m)), "CopyObject of an absent source")
			return
		}
		if op.rng != 0 && len(src.body) == 0 {
			// a byte range of an empty source: either outcome is followed (see opMPPartCopy)
			if err != nil {
				return
			}
			m.wrote(op.key2, nil, src.ct)
			return
		}
		verifCover("copy")
		verifAssert(err == nil, "CopyObject failed")
		body := src.body
		switch op.rng {
		case 1:
			verifCover("ranged-copy")
			body = src.body[len(src.body)-1:]
		case 2:
			body = src.body[:1]
		}
		m.wrote(op.key2, body, src.ct)
	case opDelete:
		_, err := e.st.DeleteObject(verifCtx, e.bucket, key, nil)
		if !m.bucket {
			verifAssert(err == storage.ErrNoSuchBucket, "DeleteObject in an absent bucket")
			return
		}
		verifAssert(err == nil, "DeleteObject failed")
		km := &m.keys[op.key]
		km.exists, km.body, km.ct = false, nil, nil
		switch m.versioning {
		case 0:
			km.hasNull = false
		case 1:
			km.nonNull++ // a delete marker on top
		case 2:
			km.hasNull = true // the null version (if any) is replaced by a null delete marker
		}
	case opMPCreate:
		verifAssume(!m.up.active)
		ct := verifCT(op.ct)
		res, err := e.st.CreateMultipartUpload(verifCtx, e.bucket, key, ct, nil, nil)
		if !m.bucket {
			verifAssert(err == storage.ErrNoSuchBucket, "CreateMultipartUpload in an absent bucket")
			return
		}
		verifAssert(err == nil, "CreateMultipartUpload failed")
		m.up = verifUploadModel{active: true, key: op.key, id: res.UploadId, ct: ct}
	case opMPPart:
		verifAssume(m.up.active)
		_, err := e.st.UploadPart(verifCtx, e.bucket, verifKeys[m.up.key], m.up.id, int32(op.part), bytes.NewReader(op.body), nil)
		verifAssert(err == nil, "UploadPart failed")
		m.up.have[op.part-1], m.up.part[op.part-1] = true, op.body
	case opMPComplete:
		verifAssume(m.up.active)
		_, err := e.st.CompleteMultipartUpload(verifCtx, e.bucket, verifKeys[m.up.key], m.up.id, nil, nil)
		if !m.up.have[0] && m.up.have[1] {
			verifCover("complete-with-gap")
			verifAssert(err != nil, "CompleteMultipartUpload with a missing part 1 succeeded")
			return
		}
		if !m.up.have[0] {
			// no parts at all: S3 rejects this; either outcome is accepted here
			if err != nil {
				return
			}
		}
		verifCover("complete")
		verifAssert(err == nil, "CompleteMultipartUpload failed")
		var body []byte
		if m.up.have[0] {
			body = verifConcat(body, m.up.part[0])
		}
		if m.up.have[1] {
			body = verifConcat(body, m.up.part[1])
		}
		m.wrote(m.up.key, body, m.up.ct)
		m.up = verifUploadModel{}
	case opMPPartCopy:
		verifAssume(m.up.active)
		src := m.keys[op.key]
		var opts *storage.UploadPartCopyOptions
		one, zero := int64(1), int64(0)
		switch op.rng {
		case 1:
			opts = &storage.UploadPartCopyOptions{Range: &storage.ByteRange{End: &one}}
		case 2:
			opts = &storage.UploadPartCopyOptions{Range: &storage.ByteRange{Start: &zero, End: &one}}
		}
		cres, err := e.st.UploadPartCopy(verifCtx, e.bucket, key, e.bucket, verifKeys[m.up.key], m.up.id, int32(op.part), opts)
		if !src.exists {
			verifAssert(err != nil, "UploadPartCopy of an absent source succeeded")
			return
		}
		if op.rng != 0 && len(src.body) == 0 {
			// a byte range of an empty source: S3 answers InvalidRange, pithos
			// accepts a suffix range as the empty part; C01 is about read-back,
			// so either outcome is followed
			if err != nil {
				return
			}
			m.up.have[op.part-1], m.up.part[op.part-1] = true, nil
			return
		}
		verifCover("part-copy")
		verifAssert(err == nil, "UploadPartCopy failed")
		body := src.body
		switch op.rng {
		case 1:
			body = src.body[len(src.body)-1:]
		case 2:
			body = src.body[:1]
		}
		m.up.have[op.part-1], m.up.part[op.part-1] = true, body
		if verifCheckSums {
			verifCover("part-copy-etag")
			verifAssert(verifStrEq(cres.ETag, *verifSumsOf(body).ETag), "C04: the ETag returned by UploadPartCopy is not the MD5 of the bytes copied into the part")
		}
	case opMPAbort:
		verifAssume(m.up.active)
		err := e.st.AbortMultipartUpload(verifCtx, e.bucket, verifKeys[m.up.key], m.up.id)
		verifAssert(err == nil, "AbortMultipartUpload failed")
		m.up = verifUploadModel{}
	}
}

// observe compares GetObject / HeadObject of both keys with the model.
func verifObserve01(e *verifEnv, m *verifModel) {
	for k := 0; k < 2; k++ {
		km := m.keys[k]
		got, obj, err := e.read(verifKeys[k])
		head, herr := e.st.HeadObject(verifCtx, e.bucket, verifKeys[k], nil)
		if !m.bucket || !km.exists {
			verifAssert(err != nil && verifIsAbsent(err, m), "GetObject of an absent key/bucket did not report NoSuchKey/NoSuchBucket")
			verifAssert(herr != nil && verifIsAbsent(herr, m), "HeadObject of an absent key/bucket did not report NoSuchKey/NoSuchBucket")
			continue
		}
		verifAssert(err == nil, "GetObject of a written key failed")
		verifAssert(herr == nil, "HeadObject of a written key failed")
		verifAssert(obj.Size == int64(len(km.body)) && head.Size == obj.Size, "size differs from the last acknowledged write")
		verifAssert(verifBytesEq(got, km.body), "content differs from the last acknowledged write")
		verifAssert(verifCTEq(obj.ContentType, km.ct) && verifCTEq(head.ContentType, km.ct), "content type differs from the last acknowledged write")
		if verifCheckSums {
			// C04: every checksum value HeadObject / GetObject report is the value of
			// that function over the current content (the hash stubs are injective
			// tokens of the bytes hashed)
			want := verifSumsOf(km.body)
			chk := func(p, w *string) bool { return p == nil || verifStrEq(*p, *w) }
			ok := verifAnd(chk(head.ChecksumCRC32, want.ChecksumCRC32), chk(head.ChecksumCRC32C, want.ChecksumCRC32C))
			ok = verifAnd(ok, verifAnd(chk(head.ChecksumCRC64NVME, want.ChecksumCRC64NVME), verifAnd(chk(head.ChecksumSHA1, want.ChecksumSHA1), chk(head.ChecksumSHA256, want.ChecksumSHA256))))
			ok = verifAnd(ok, verifAnd(chk(obj.ChecksumCRC32, want.ChecksumCRC32), chk(obj.ChecksumSHA256, want.ChecksumSHA256)))
			verifAssert(ok, "C04: a reported x-amz-checksum value is not the checksum of the object's current content")
			if head.ChecksumCRC32 != nil {
				verifCover("checksum-reported")
			}
		}
	}
}

func verifSymBody(tag string, n int) []byte {
	b := make([]byte, n)
	for i := range b {
		b[i] = verifByte(tag)
	}
	return b
}

// set-up scripts: concrete operation lists run through the real API
func verifSetup(e *verifEnv, m *verifModel, which int) {
	x := verifSymBody("init", 1)
	y := verifSymBody("init", 1)
	script := func(ops ...verifOp) {
		for _, op := range ops {
			verifApply(e, m, op)
		}
	}
	switch which {
	case 0: // no bucket
	case 1:
		script(verifOp{kind: opCreateBucket})
	case 2: // one object
		script(verifOp{kind: opCreateBucket}, verifOp{kind: opPut, key: 0, body: x, ct: 1})
	case 3: // two-part object (put + append)
		script(verifOp{kind: opCreateBucket}, verifOp{kind: opPut, key: 0, body: x, ct: 1}, verifOp{kind: opAppend, key: 0, body: y})
	case 4: // b is a copy of a (shared part)
		script(verifOp{kind: opCreateBucket}, verifOp{kind: opPut, key: 0, body: x, ct: 2}, verifOp{kind: opCopy, key: 0, key2: 1})
	case 5: // a exists, pending upload on b with part 1
		script(verifOp{kind: opCreateBucket}, verifOp{kind: opPut, key: 0, body: x}, verifOp{kind: opMPCreate, key: 1, ct: 1}, verifOp{kind: opMPPart, part: 1, body: y})
	case 6: // versioning enabled, a written then deleted
		script(verifOp{kind: opCreateBucket})
		verifSetVersioning(e, m, 1)
		script(verifOp{kind: opPut, key: 0, body: x, ct: 1}, verifOp{kind: opDelete, key: 0})
	case 7: // versioning suspended, a written
		script(verifOp{kind: opCreateBucket})
		verifSetVersioning(e, m, 2)
		script(verifOp{kind: opPut, key: 0, body: x, ct: 1})
	case 11: // written while versioning was enabled, then versioning suspended
		script(verifOp{kind: opCreateBucket})
		verifSetVersioning(e, m, 1)
		script(verifOp{kind: opPut, key: 0, body: x, ct: 1})
		verifSetVersioning(e, m, 2)
	case 12: // a written with the storage class named explicitly
		script(verifOp{kind: opCreateBucket}, verifOp{kind: opPut, key: 0, body: x, ct: 1, cls: true})
	case 10: // two-part object a (put + append) and a pending upload on b
		script(verifOp{kind: opCreateBucket}, verifOp{kind: opPut, key: 0, body: x, ct: 1}, verifOp{kind: opAppend, key: 0, body: y}, verifOp{kind: opMPCreate, key: 1, ct: 2})
	case 9: // pending upload on a holding only part 2 (a gap)
		script(verifOp{kind: opCreateBucket}, verifOp{kind: opMPCreate, key: 0, ct: 2}, verifOp{kind: opMPPart, part: 2, body: y})
	case 8: // a and b with independently written (possibly identical) content
		script(verifOp{kind: opCreateBucket}, verifOp{kind: opPut, key: 0, body: x}, verifOp{kind: opPut, key: 1, body: y})
	}
}

// verifSumsOf: the checksum values of data as the storage computes them for a
// plain upload: under the executor the injective tokens of the hash stub,
// natively (replay) the real MD5/CRC/SHA values.
func verifSumsOf(data []byte) *checksumutils.ChecksumValues {
	_, v, err := checksumutils.CalculateChecksumsStreaming(verifCtx, bytes.NewReader(data), func(r io.Reader) error {
		_, err := io.ReadAll(r)
		return err
	})
	if err != nil {
		panic(err)
	}
	return v
}

// verifCheckSums switches on the C04 oracles (checksum values against the
// current content); set by VerifC04StoredChecksums only.
var verifCheckSums bool

// VerifC04StoredChecksums: the C01 histories with the checksum oracles on.
func VerifC04StoredChecksums() {
	verifCheckSums = true
	VerifC01History()
}

func VerifC01History() {
	steps := verifParam("steps", 2)
	e := verifNewEnv(nil)
	m := &verifModel{}
	verifSetup(e, m, verifParam("init", 0))
	verifObserve01(e, m)
	for s := 0; s < steps; s++ {
		op := verifOp{kind: verifPick("op", 0, opCount-1)}
		switch op.kind {
		case opPut:
			op.key = verifPick("key", 0, 1)
			op.body = verifSymBody("put", verifPick("len", 0, 2))
			op.ct = verifPick("ct", 0, 1)
		case opAppend:
			op.key = verifPick("key", 0, 1)
			op.body = verifSymBody("app", 1)
		case opCopy:
			op.key = verifPick("key", 0, 1)
			op.key2 = verifPick("key2", 0, 1)
			op.rng = verifPick("range", 0, 2)
		case opDelete:
			op.key = verifPick("key", 0, 1)
		case opMPCreate:
			op.key = verifPick("key", 0, 1)
			op.ct = verifPick("ct", 0, 1)
		case opMPPart:
			op.part = verifPick("part", 1, 2)
			op.body = verifSymBody("part", 1)
		case opMPPartCopy:
			op.key = verifPick("key", 0, 1)
			op.part = verifPick("part", 1, 2)
			op.rng = verifPick("range", 0, 2)
		}
		verifApply(e, m, op)
		verifObserve01(e, m)
	}
}
