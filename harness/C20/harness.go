package PKGNAME

// C20 (sequential half): with the object-cache middleware in front of a
// storage, HeadObject and GetObject return what the inner storage would return
// at that moment, after every history of mutating calls made through the
// middleware.
//
// The inner storage is the generated double with hooks that implement a one
// object reference store (generation-stamped ETag, body, tags, class); the
// cache is an in-memory double of cache.Cache.

import (
	"errors"
	"bytes"
	"encoding/json"
	"fmt"
	"io"

	cachepkg "github.com/jdillenkofer/pithos/internal/cache"
	"github.com/jdillenkofer/pithos/internal/storage"
	"golang.org/x/sync/singleflight"
)

// ---- cache double ----------------------------------------------------------

type verifCache struct {
	keys []string
	vals [][]byte
}

func (c *verifCache) idx(key string) int {
	for i, k := range c.keys {
		if k == key {
			return i
		}
	}
	return -1
}

func (c *verifCache) Set(key string, reader io.Reader, size int64) error {
	data, err := io.ReadAll(reader)
	if err != nil {
		return err
	}
	if i := c.idx(key); i >= 0 {
		c.vals[i] = data
		return nil
	}
	c.keys, c.vals = append(c.keys, key), append(c.vals, data)
	return nil
}

func (c *verifCache) Get(key string) (io.ReadCloser, error) {
	i := c.idx(key)
	if i < 0 {
		return nil, cachepkg.ErrCacheMiss
	}
	return io.NopCloser(bytes.NewReader(c.vals[i])), nil
}

func (c *verifCache) Remove(key string) error {
	if i := c.idx(key); i >= 0 {
		c.keys = append(append([]string(nil), c.keys[:i]...), c.keys[i+1:]...)
		c.vals = append(append([][]byte(nil), c.vals[:i]...), c.vals[i+1:]...)
	}
	return nil
}

// ---- reference store behind the generated double ----------------------------

type verifRef struct {
	exists bool
	gen    int
	body   []byte
	tags   map[string]string
	class  *string
}

func (r *verifRef) object() *storage.Object {
	return &storage.Object{Key: storage.MustNewObjectKey("k"), ETag: fmt.Sprintf("etag-%d", r.gen), Size: int64(len(r.body)), Tags: r.tags, StorageClass: r.class}
}

func (r *verifRef) head() (*storage.Object, error) {
	if !r.exists {
		return nil, storage.ErrNoSuchKey
	}
	return r.object(), nil
}

func verifInner(r *verifRef) *verifDouble {
	d := &verifDouble{name: "inner"}
	d.fnHeadObject = func(ctx contextT, b storage.BucketName, k storage.ObjectKey, o *storage.HeadObjectOptions) (*storage.Object, error) {
		return r.head()
	}
	d.fnGetObject = func(ctx contextT, b storage.BucketName, k storage.ObjectKey, rg []storage.ByteRange, o *storage.GetObjectOptions) (*storage.Object, []io.ReadCloser, error) {
		obj, err := r.head()
		if err != nil {
			return nil, nil, err
		}
		return obj, []io.ReadCloser{io.NopCloser(bytes.NewReader(r.body))}, nil
	}
	write := func(body []byte) {
		r.exists, r.body, r.tags, r.class = true, body, nil, nil
		r.gen++
	}
	d.fnPutObject = func(ctx contextT, b storage.BucketName, k storage.ObjectKey, ct *string, data io.Reader, ci *storage.ChecksumInput, o *storage.PutObjectOptions) (*storage.PutObjectResult, error) {
		body, err := io.ReadAll(data)
		if err != nil {
			return nil, err
		}
		if verifRejectPut {
			// the whole body was read, then the put is refused (checksum mismatch, failed commit)
			return nil, errors.New("verif: the inner storage rejects this put")
		}
		write(body)
		return &storage.PutObjectResult{}, nil
	}
	d.fnAppendObject = func(ctx contextT, b storage.BucketName, k storage.ObjectKey, data io.Reader, ci *storage.ChecksumInput, o *storage.AppendObjectOptions) (*storage.AppendObjectResult, error) {
		body, _ := io.ReadAll(data)
		tags, class := r.tags, r.class
		write(append(append([]byte(nil), r.body...), body...))
		r.tags, r.class = tags, class
		return &storage.AppendObjectResult{}, nil
	}
	d.fnCopyObject = func(ctx contextT, sb storage.BucketName, sk storage.ObjectKey, db storage.BucketName, dk storage.ObjectKey, o *storage.CopyObjectOptions) (*storage.CopyObjectResult, error) {
		write([]byte("copied"))
		return &storage.CopyObjectResult{}, nil
	}
	d.fnCompleteMultipartUpload = func(ctx contextT, b storage.BucketName, k storage.ObjectKey, u storage.UploadId, ci *storage.ChecksumInput, o *storage.CompleteMultipartUploadOptions) (*storage.CompleteMultipartUploadResult, error) {
		write([]byte("multipart"))
		return &storage.CompleteMultipartUploadResult{}, nil
	}
	d.fnDeleteObject = func(ctx contextT, b storage.BucketName, k storage.ObjectKey, o *storage.DeleteObjectOptions) (*storage.DeleteObjectResult, error) {
		r.exists = false
		return &storage.DeleteObjectResult{}, nil
	}
	d.fnDeleteObjects = func(ctx contextT, b storage.BucketName, entries []storage.DeleteObjectsInputEntry) (*storage.DeleteObjectsResult, error) {
		r.exists = false
		return &storage.DeleteObjectsResult{Entries: []storage.DeleteObjectsEntry{{Key: storage.MustNewObjectKey("k"), Deleted: true}}}, nil
	}
	d.fnPutObjectTagging = func(ctx contextT, b storage.BucketName, k storage.ObjectKey, tags map[string]string, o *storage.ObjectTaggingOptions) error {
		if !r.exists {
			return storage.ErrNoSuchKey
		}
		r.tags = map[string]string{"changed": "1", "gen": fmt.Sprint(r.gen)}
		return nil
	}
	d.fnDeleteObjectTagging = func(ctx contextT, b storage.BucketName, k storage.ObjectKey, o *storage.ObjectTaggingOptions) error {
		if !r.exists {
			return storage.ErrNoSuchKey
		}
		r.tags = nil
		return nil
	}
	d.fnTransitionObjectStorageClass = func(ctx contextT, b storage.BucketName, k storage.ObjectKey, target string, o *storage.TransitionObjectStorageClassOptions) error {
		if !r.exists {
			return storage.ErrNoSuchKey
		}
		r.class = &target
		return nil
	}
	return d
}

// verifRejectPut: the inner storage reads the body of the next PutObject and then refuses it
var verifRejectPut bool

var verifOps = []string{"PutObjectRejected", "PutObject", "AppendObject", "CopyObject", "CompleteMultipartUpload", "DeleteObject", "DeleteObjects",
	"PutObjectTagging", "DeleteObjectTagging", "TransitionObjectStorageClass"}

func verifMethodIndex(name string) int {
	for i, n := range verifMethodNames {
		if n == name {
			return i
		}
	}
	panic("storage.Storage has no method " + name)
}

func verifClassOf(o *storage.Object) string {
	if o == nil || o.StorageClass == nil {
		return "STANDARD"
	}
	return *o.StorageClass
}

// verifTransparent compares HeadObject and GetObject through the middleware
// with the reference store.
func verifTransparent(mw storage.Storage, inner *verifDouble, r *verifRef, args verifArgs) {
	want, werr := r.head()
	before := len(inner.calls)
	got, err := mw.HeadObject(verifBg, args.bucket, args.key, nil)
	if err == nil && len(inner.calls) == before {
		verifCover("head-served-from-cache")
	}
	verifAssert((err == nil) == (werr == nil), "HeadObject through the cache disagrees with the inner storage about the key's existence")
	if werr == nil {
		verifAssert(got.ETag == want.ETag && got.Size == want.Size, "HeadObject through the cache returned a stale ETag/size")
		verifAssert(len(got.Tags) == len(want.Tags), "HeadObject through the cache returned a stale tag set")
		verifAssert(verifClassOf(got) == verifClassOf(want), "HeadObject through the cache returned a stale storage class")
	}
	before = len(inner.calls)
	gobj, readers, err := mw.GetObject(verifBg, args.bucket, args.key, nil, nil)
	if err == nil && len(inner.calls) == before {
		verifCover("body-served-from-cache")
	}
	verifAssert((err == nil) == (werr == nil), "GetObject through the cache disagrees with the inner storage about the key's existence")
	if werr == nil {
		verifAssert(len(readers) == 1, "GetObject returned no reader")
		body, rerr := io.ReadAll(readers[0])
		readers[0].Close()
		verifAssert(rerr == nil && bytes.Equal(body, r.body), "GetObject through the cache returned a stale body")
		verifAssert(gobj.ETag == want.ETag && gobj.Size == want.Size && len(gobj.Tags) == len(want.Tags) && verifClassOf(gobj) == verifClassOf(want), "GetObject through the cache returned stale metadata")
	}
}

// VerifC20Sequential: every history of `steps` calls from the mutators and
// reads, with transparency checked (which also warms the cache) after each.
func VerifC20Sequential() {
	r := &verifRef{}
	inner := verifInner(r)
	mw, err := NewStorageMiddleware(inner, &verifCache{}, Options{})
	if err != nil {
		panic(err)
	}
	args := verifArgs{bucket: storage.MustNewBucketName("bucket-1"), bucket2: storage.MustNewBucketName("bucket-1"),
		key: storage.MustNewObjectKey("k"), key2: storage.MustNewObjectKey("k"), upload: storage.MustNewUploadId("u"), body: []byte("b")}
	if verifBool("preexisting") {
		r.exists, r.gen, r.body = true, 1, []byte("old")
	}
	if verifBool("warm") {
		verifTransparent(mw, inner, r, args)
	}
	steps := verifParam("steps", 2)
	for s := 0; s < steps; s++ {
		op := verifOps[verifPick("op", 0, len(verifOps)-1)]
		if op == "PutObjectRejected" {
			verifRejectPut = true
			_, err := mw.PutObject(verifBg, args.bucket, args.key, nil, bytes.NewReader([]byte("rejected")), nil, nil)
			verifRejectPut = false
			verifAssert(err != nil, "a put the inner storage refused was reported as success")
			verifCover("rejected-put")
		} else if op == "TransitionObjectStorageClass" {
			mw.TransitionObjectStorageClass(verifBg, args.bucket, args.key, []string{"GLACIER", "STANDARD_IA"}[s%2], nil)
		} else if op == "CopyObject" {
			// the copy's destination is the observed key; the source is in the
			// same or in another bucket
			src := args.bucket
			if verifBool("cross-bucket-copy") {
				src = storage.MustNewBucketName("bucket-2")
			}
			mw.CopyObject(verifBg, src, storage.MustNewObjectKey("src"), args.bucket, args.key, nil)
		} else {
			verifInvoke(mw, verifMethodIndex(op), args)
		}
		verifCover("step")
		if verifBool("aborted-download") {
			// a client reads part of the body and goes away
			if _, readers, err := mw.GetObject(verifBg, args.bucket, args.key, nil, nil); err == nil && len(readers) == 1 {
				one := make([]byte, 1)
				readers[0].Read(one)
				readers[0].Close()
			}
		}
		verifTransparent(mw, inner, r, args)
	}
}

// ---- redirect targets ------------------------------------------------------

// encoding/json round trip of *storage.Object as identity
var verifJSONTable []storage.Object
var verifDecReader io.Reader

func verifStubMarshal(v any) ([]byte, error) {
	obj := v.(*storage.Object)
	verifJSONTable = append(verifJSONTable, *obj)
	return []byte{'J', byte(len(verifJSONTable) - 1)}, nil
}

func verifStubNewDecoder(r io.Reader) *json.Decoder {
	verifDecReader = r
	return new(json.Decoder)
}

func verifStubDecode(d *json.Decoder, v any) error {
	data, err := io.ReadAll(verifDecReader)
	if err != nil {
		return err
	}
	if len(data) != 2 || data[0] != 'J' || int(data[1]) >= len(verifJSONTable) {
		return fmt.Errorf("not a head cache entry")
	}
	*(v.(*storage.Object)) = verifJSONTable[data[1]]
	return nil
}

func verifStubDo(g *singleflight.Group, key string, fn func() (interface{}, error)) (interface{}, error, bool) {
	v, err := fn()
	return v, err, false
}

// io.Pipe as an unbounded buffer (the sequential goroutine model runs the
// writer side to completion before the reader side)
type verifPipeState struct {
	buf    []byte
	closed bool
	err    error
}

var verifPipeW = map[*io.PipeWriter]*verifPipeState{}
var verifPipeR = map[*io.PipeReader]*verifPipeState{}

func verifStubPipe() (*io.PipeReader, *io.PipeWriter) {
	r, w, st := new(io.PipeReader), new(io.PipeWriter), &verifPipeState{}
	verifPipeR[r], verifPipeW[w] = st, st
	return r, w
}

func verifStubPipeWrite(w *io.PipeWriter, p []byte) (int, error) {
	st := verifPipeW[w]
	if st.closed {
		return 0, io.ErrClosedPipe
	}
	st.buf = append(st.buf, p...)
	return len(p), nil
}

func verifStubPipeWClose(w *io.PipeWriter) error { return verifStubPipeWCloseErr(w, nil) }

func verifStubPipeWCloseErr(w *io.PipeWriter, err error) error {
	st := verifPipeW[w]
	if !st.closed {
		st.closed, st.err = true, err
	}
	return nil
}

func verifStubPipeRead(r *io.PipeReader, p []byte) (int, error) {
	st := verifPipeR[r]
	if len(st.buf) > 0 {
		n := copy(p, st.buf)
		st.buf = st.buf[n:]
		return n, nil
	}
	if !st.closed {
		panic("verif: pipe read would block in the sequential goroutine model")
	}
	if st.err != nil {
		return 0, st.err
	}
	return 0, io.EOF
}
