package PKGNAME

import (
	"context"
	dbsql "database/sql"
	"os"
	"path/filepath"

	"github.com/jdillenkofer/pithos/internal/storage/database/sqlite"
)

func init() {
	verifNativeRoot = func() string {
		dir, err := os.MkdirTemp("", "verif-fs-")
		if err != nil {
			panic(err)
		}
		return dir
	}
	verifNativeSqlTx = func() *dbsql.Tx {
		dir, err := os.MkdirTemp("", "verif-db-")
		if err != nil {
			panic(err)
		}
		db, err := sqlite.OpenDatabase(filepath.Join(dir, "p.db"))
		if err != nil {
			panic(err)
		}
		tx, err := db.BeginTx(context.Background(), nil)
		if err != nil {
			panic(err)
		}
		return tx.SqlTx()
	}
}
