package PKGNAME

// C10: if the process dies at any point of a transaction's commit sequence
// (between the part stores' pre-commit hooks, before the database commit, after
// it, before the after-commit hooks), then after a restart every part the
// visible metadata references is readable with its content.
//
// The real filesystemPartStore and the real TxController drive the commit
// sequence. The process death is a panic raised from a hook the harness
// registers at the chosen position; the database transaction is then rolled
// back (what SQLite's recovery does for an uncommitted transaction), no rollback
// hooks run, a fresh store instance is started on the same directory and the
// referenced parts are read. Under the executor the os calls go to an in-memory
// file system model; natively the real file system is used.

import (
	"bytes"
	dbsql "database/sql"
	"io"

	"github.com/jdillenkofer/pithos/internal/storage/database"
	"github.com/jdillenkofer/pithos/internal/storage/metadatapart/partstore"
	"github.com/oklog/ulid/v2"
)

var verifUlidSeq uint64

func verifStubUlidMake() ulid.ULID {
	verifUlidSeq++
	var id ulid.ULID
	id[5] = 1
	id[15] = byte(verifUlidSeq)
	return id
}

// ---- the crash ----------------------------------------------------------------------

type verifCrash struct{}

var verifNativeSqlTx func() *dbsql.Tx

func verifMust(err error) {
	if err != nil {
		panic(err)
	}
}

func verifNewStore(root string) *filesystemPartStore {
	s, err := New(root)
	verifMust(err)
	verifMust(s.Start(verifBg))
	return s.(*filesystemPartStore)
}

func verifReadPart(s *filesystemPartStore, id partstore.PartId) ([]byte, error) {
	rc, err := s.GetPart(verifBg, nil, id)
	if err != nil {
		return nil, err
	}
	defer rc.Close()
	return io.ReadAll(rc)
}

// VerifC10CrashPoints
func VerifC10CrashPoints() {
	root := "/data"
	var sqlTx *dbsql.Tx
	if verifNative() {
		root, sqlTx = verifNativeRoot(), verifNativeSqlTx()
	} else {
		sqlTx = new(dbsql.Tx)
		verifSQLBegin(sqlTx)
	}
	idOld := *partstore.MustNewPartIdFromString("01ARZ3NDEKTSV4RRFFQ69G5FA1")
	idNew := *partstore.MustNewPartIdFromString("01ARZ3NDEKTSV4RRFFQ69G5FA2")
	oldBody, newBody := []byte("old-content"), []byte("new")

	// pre-state: one committed part referenced by the metadata
	s := verifNewStore(root)
	verifMust(s.PutPart(verifBg, nil, idOld, bytes.NewReader(oldBody)))
	idOld2 := *partstore.MustNewPartIdFromString("01ARZ3NDEKTSV4RRFFQ69G5FA0")
	old2Body := []byte("second-old")
	verifMust(s.PutPart(verifBg, nil, idOld2, bytes.NewReader(old2Body)))
	deleteBoth := verifBool("delete-both-old-parts")

	// the transaction: operations in solver-chosen order with the crash hook
	// registered at a solver-chosen position among their hooks
	tx := database.NewTx(sqlTx)
	crashAt := verifPick("crash-at", 0, 4) // 0: no crash; 1..3: inside the pre-commit phase; 4: right after the database commit
	nOps := verifPick("ops", 1, 2)
	first := verifPick("first-op", 0, 1) // 0: delete the old part, 1: put a new part
	deleted, put := false, false
	if crashAt == 4 {
		tx.OnAfterCommit(func(contextT) error { panic(verifCrash{}) })
	}
	if crashAt == 1 {
		tx.OnPreCommit(func(contextT) error { panic(verifCrash{}) })
	}
	for i := 0; i < nOps; i++ {
		op := first
		if i == 1 {
			op = 1 - first
		}
		if op == 0 {
			verifMust(s.DeletePart(verifBg, tx, idOld))
			if deleteBoth {
				verifMust(s.DeletePart(verifBg, tx, idOld2))
			}
			deleted = true
		} else {
			verifMust(s.PutPart(verifBg, tx, idNew, bytes.NewReader(newBody)))
			put = true
		}
		if crashAt == 2+i {
			tx.OnPreCommit(func(contextT) error { panic(verifCrash{}) })
		}
	}
	committed := false
	crashed := false
	func() {
		defer func() {
			if r := recover(); r != nil {
				if _, ok := r.(verifCrash); !ok {
					panic(r)
				}
				crashed = true
			}
		}()
		verifMust(tx.Commit(verifBg))
		committed = true
	}()
	if crashed {
		verifCover("crashed")
		if crashAt == 4 {
			committed = true // the database commit had completed
		} else {
			sqlTx.Rollback() // recovery discards the uncommitted transaction
		}
	} else {
		verifCover("no-crash")
	}

	// restart
	s2 := verifNewStore(root)
	wantOld := !(committed && deleted)
	wantNew := committed && put
	if wantOld {
		data, err := verifReadPart(s2, idOld)
		verifAssert(err == nil, "after the crash and restart a part the metadata still references is not readable")
		verifAssert(bytes.Equal(data, oldBody), "after the crash and restart a referenced part has different content")
	}
	if !(committed && deleted && deleteBoth) {
		data, err := verifReadPart(s2, idOld2)
		verifAssert(err == nil && bytes.Equal(data, old2Body), "after the crash and restart a second part the metadata still references is not readable")
	}
	if wantNew {
		data, err := verifReadPart(s2, idNew)
		verifAssert(err == nil && bytes.Equal(data, newBody), "after the crash and restart a committed new part is not readable with its content")
	}
	if committed && deleted && !crashed {
		_, err := verifReadPart(s2, idOld)
		verifAssert(err == partstore.ErrPartNotFound, "a part deleted by a committed transaction is still there")
	}
}


