package PKGNAME

// C10: if the process dies at any point of a transaction's commit sequence
// (between the part stores' pre-commit hooks, before the database commit, after
// it, before the after-commit hooks), then after a restart every part the
// visible metadata references is readable with its content.
//
// The real filesystemPartStore and the real TxController drive the commit
// sequence. The process death is a panic raised from a hook the harness
// registers at the chosen position; the database transaction is then rolled
// back (what SQLite's recovery does for an uncommitted transaction), no rollback
// hooks run, a fresh store instance is started on the same directory and the
// referenced parts are read. Under the executor the os calls go to an in-memory
// file system model; natively the real file system is used.

import (
	"bytes"
	dbsql "database/sql"
	"io"
	"io/fs"
	"os"
	"syscall"

	"github.com/jdillenkofer/pithos/internal/storage/database"
	"github.com/jdillenkofer/pithos/internal/storage/metadatapart/partstore"
	"github.com/oklog/ulid/v2"
)

// ---- file system model (executor only) ---------------------------------------------

type verifFile struct {
	name string
	data []byte
}

var verifFS []verifFile

type verifHandle struct {
	name string
	off  int
	data []byte // snapshot for readers
}

var verifHandles = map[*os.File]*verifHandle{}
var verifTmpSeq int

func verifFSFind(name string) int {
	for i := range verifFS {
		if verifFS[i].name == name {
			return i
		}
	}
	return -1
}

func verifStubMkdirAll(path string, perm os.FileMode) error { return nil }

func verifStubCreateTemp(dir, pattern string) (*os.File, error) {
	verifTmpSeq++
	name := dir + "/" + pattern + string(rune('0'+verifTmpSeq))
	verifFS = append(verifFS, verifFile{name: name})
	f := new(os.File)
	verifHandles[f] = &verifHandle{name: name}
	return f, nil
}

func verifStubFileName(f *os.File) string { return verifHandles[f].name }
func verifStubFileClose(f *os.File) error  { return nil }
func verifStubFileWrite(f *os.File, p []byte) (int, error) {
	i := verifFSFind(verifHandles[f].name)
	verifFS[i].data = append(append([]byte(nil), verifFS[i].data...), p...)
	return len(p), nil
}
func verifStubFileRead(f *os.File, p []byte) (int, error) {
	h := verifHandles[f]
	if h.off >= len(h.data) {
		return 0, io.EOF
	}
	n := copy(p, h.data[h.off:])
	h.off += n
	return n, nil
}

func verifStubOpenFile(name string, flag int, perm os.FileMode) (*os.File, error) {
	i := verifFSFind(name)
	if i < 0 {
		if flag&os.O_CREATE == 0 {
			return nil, &os.PathError{Op: "open", Path: name, Err: syscall.ENOENT}
		}
		verifFS = append(verifFS, verifFile{name: name})
		i = len(verifFS) - 1
	}
	if flag&os.O_TRUNC != 0 {
		verifFS[i].data = nil
	}
	f := new(os.File)
	verifHandles[f] = &verifHandle{name: name, data: verifFS[i].data}
	return f, nil
}

func verifStubRename(oldpath, newpath string) error {
	i := verifFSFind(oldpath)
	if i < 0 {
		return &os.LinkError{Op: "rename", Old: oldpath, New: newpath, Err: syscall.ENOENT}
	}
	data := verifFS[i].data
	verifFS = append(append([]verifFile(nil), verifFS[:i]...), verifFS[i+1:]...)
	if j := verifFSFind(newpath); j >= 0 {
		verifFS[j].data = data
		return nil
	}
	verifFS = append(verifFS, verifFile{name: newpath, data: data})
	return nil
}

func verifStubRemove(name string) error {
	i := verifFSFind(name)
	if i < 0 {
		return &os.PathError{Op: "remove", Path: name, Err: syscall.ENOENT}
	}
	verifFS = append(append([]verifFile(nil), verifFS[:i]...), verifFS[i+1:]...)
	return nil
}

func verifStubReadDir(name string) ([]os.DirEntry, error) {
	var out []os.DirEntry
	for _, f := range verifFS {
		if len(f.name) > len(name)+1 && f.name[:len(name)+1] == name+"/" {
			out = append(out, verifDirEntry{f.name[len(name)+1:]})
		}
	}
	return out, nil
}

type verifDirEntry struct{ name string }

func (d verifDirEntry) Name() string               { return d.name }
func (d verifDirEntry) IsDir() bool                { return false }
func (d verifDirEntry) Type() fs.FileMode          { return 0 }
func (d verifDirEntry) Info() (fs.FileInfo, error) { return nil, nil }

func verifStubCopy(dst io.Writer, src io.Reader) (int64, error) {
	data, err := io.ReadAll(src)
	if err != nil {
		return 0, err
	}
	if f, ok := dst.(*os.File); ok && !verifNative() {
		n, err := verifStubFileWrite(f, data) // calls made from a stub are not redirected
		return int64(n), err
	}
	n, err := dst.Write(data)
	return int64(n), err
}

var verifUlidSeq uint64

func verifStubUlidMake() ulid.ULID {
	verifUlidSeq++
	var id ulid.ULID
	id[5] = 1
	id[15] = byte(verifUlidSeq)
	return id
}

// ---- the crash ----------------------------------------------------------------------

type verifCrash struct{}

var verifNativeRoot func() string
var verifNativeSqlTx func() *dbsql.Tx

func verifMust(err error) {
	if err != nil {
		panic(err)
	}
}

func verifNewStore(root string) *filesystemPartStore {
	s, err := New(root)
	verifMust(err)
	verifMust(s.Start(verifBg))
	return s.(*filesystemPartStore)
}

func verifReadPart(s *filesystemPartStore, id partstore.PartId) ([]byte, error) {
	rc, err := s.GetPart(verifBg, nil, id)
	if err != nil {
		return nil, err
	}
	defer rc.Close()
	return io.ReadAll(rc)
}

// VerifC10CrashPoints
func VerifC10CrashPoints() {
	root := "/data"
	var sqlTx *dbsql.Tx
	if verifNative() {
		root, sqlTx = verifNativeRoot(), verifNativeSqlTx()
	} else {
		sqlTx = new(dbsql.Tx)
		verifSQLBegin(sqlTx)
	}
	idOld := *partstore.MustNewPartIdFromString("01ARZ3NDEKTSV4RRFFQ69G5FA1")
	idNew := *partstore.MustNewPartIdFromString("01ARZ3NDEKTSV4RRFFQ69G5FA2")
	oldBody, newBody := []byte("old-content"), []byte("new")

	// pre-state: one committed part referenced by the metadata
	s := verifNewStore(root)
	verifMust(s.PutPart(verifBg, nil, idOld, bytes.NewReader(oldBody)))
	idOld2 := *partstore.MustNewPartIdFromString("01ARZ3NDEKTSV4RRFFQ69G5FA0")
	old2Body := []byte("second-old")
	verifMust(s.PutPart(verifBg, nil, idOld2, bytes.NewReader(old2Body)))
	deleteBoth := verifBool("delete-both-old-parts")

	// the transaction: operations in solver-chosen order with the crash hook
	// registered at a solver-chosen position among their hooks
	tx := database.NewTx(sqlTx)
	crashAt := verifPick("crash-at", 0, 4) // 0: no crash; 1..3: inside the pre-commit phase; 4: right after the database commit
	nOps := verifPick("ops", 1, 2)
	first := verifPick("first-op", 0, 1) // 0: delete the old part, 1: put a new part
	deleted, put := false, false
	if crashAt == 4 {
		tx.OnAfterCommit(func(contextT) error { panic(verifCrash{}) })
	}
	if crashAt == 1 {
		tx.OnPreCommit(func(contextT) error { panic(verifCrash{}) })
	}
	for i := 0; i < nOps; i++ {
		op := first
		if i == 1 {
			op = 1 - first
		}
		if op == 0 {
			verifMust(s.DeletePart(verifBg, tx, idOld))
			if deleteBoth {
				verifMust(s.DeletePart(verifBg, tx, idOld2))
			}
			deleted = true
		} else {
			verifMust(s.PutPart(verifBg, tx, idNew, bytes.NewReader(newBody)))
			put = true
		}
		if crashAt == 2+i {
			tx.OnPreCommit(func(contextT) error { panic(verifCrash{}) })
		}
	}
	committed := false
	crashed := false
	func() {
		defer func() {
			if r := recover(); r != nil {
				if _, ok := r.(verifCrash); !ok {
					panic(r)
				}
				crashed = true
			}
		}()
		verifMust(tx.Commit(verifBg))
		committed = true
	}()
	if crashed {
		verifCover("crashed")
		if crashAt == 4 {
			committed = true // the database commit had completed
		} else {
			sqlTx.Rollback() // recovery discards the uncommitted transaction
		}
	} else {
		verifCover("no-crash")
	}

	// restart
	s2 := verifNewStore(root)
	wantOld := !(committed && deleted)
	wantNew := committed && put
	if wantOld {
		data, err := verifReadPart(s2, idOld)
		verifAssert(err == nil, "after the crash and restart a part the metadata still references is not readable")
		verifAssert(bytes.Equal(data, oldBody), "after the crash and restart a referenced part has different content")
	}
	if !(committed && deleted && deleteBoth) {
		data, err := verifReadPart(s2, idOld2)
		verifAssert(err == nil && bytes.Equal(data, old2Body), "after the crash and restart a second part the metadata still references is not readable")
	}
	if wantNew {
		data, err := verifReadPart(s2, idNew)
		verifAssert(err == nil && bytes.Equal(data, newBody), "after the crash and restart a committed new part is not readable with its content")
	}
	if committed && deleted && !crashed {
		_, err := verifReadPart(s2, idOld)
		verifAssert(err == partstore.ErrPartNotFound, "a part deleted by a committed transaction is still there")
	}
}

func verifStubAbs(path string) (string, error) { return path, nil }

func verifStubStat(name string) (os.FileInfo, error) {
	if verifFSFind(name) < 0 {
		return nil, &os.PathError{Op: "stat", Path: name, Err: syscall.ENOENT}
	}
	return nil, nil
}
