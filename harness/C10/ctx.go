package PKGNAME

import "context"

type contextT = context.Context

var verifBg = context.Background()
