package PKGNAME

// C33: virtual-hosted-style and path-style requests address the same bucket/key;
// website / custom-domain hosts never reach the API handler.

import (
	"net/http"
	"net/url"
)

// verifC33Split is the reference for how the API mux patterns "/{bucket}" and
// "/{bucket}/{key...}" decompose a path: everything up to the second slash is
// the bucket, everything after it (possibly empty, slashes preserved) the key.
func verifC33Split(p string) (bucket string, key string, hasKey bool) {
	if len(p) == 0 || p[0] != '/' {
		return "", "", false
	}
	for i := 1; i < len(p); i++ {
		if p[i] == '/' {
			return p[1:i], p[i+1:], true
		}
	}
	return p[1:], "", false
}

type verifC33Rec struct {
	called int
	path   string
}

func (h *verifC33Rec) ServeHTTP(w http.ResponseWriter, r *http.Request) {
	h.called++
	h.path = r.URL.Path
}

// VerifC33VirtualHost: for every object key (arbitrary bytes, any slashes,
// including trailing ones) the rewritten request addresses the same (bucket,
// key) as the path-style request /bucket/key.
func VerifC33VirtualHost() {
	maxKey := verifParam("keylen", 3)
	base := "s3.example"
	bucket := "my.bkt"
	if verifBool("plainBucket") {
		bucket = "bkt"
	}
	host := bucket + "." + base
	if verifBool("port") {
		host += ":9000"
	}
	n := verifPick("keylen", 0, maxKey)
	key := verifString("key", n)
	next := &verifC33Rec{}
	h := MakeVirtualHostBucketAddressingMiddleware(base, next)
	r := &http.Request{Method: "PUT", Host: host, URL: &url.URL{Path: "/" + key}}
	if verifBool("rawPath") {
		// the client sent a percent-encoded spelling: URL.Path stays the decoded key
		r.URL.RawPath = "/%2F" + key + "%7E"
		r.URL.Path = "//" + key + "~"
		key = "/" + key + "~"
		n = len(key)
	}
	h.ServeHTTP(nil, r)
	verifAssert(next.called == 1, "C33: next handler not called exactly once")
	// reference: the same request sent path style
	wantBucket, wantKey, wantHasKey := verifC33Split("/" + bucket + "/" + key)
	gotBucket, gotKey, gotHasKey := verifC33Split(next.path)
	if n == 0 {
		// bucket root: virtual-hosted "/" is the bucket itself (path style "/bucket")
		verifAssert(next.path == "/"+bucket, "C33: bucket root not mapped to /bucket")
		verifCover("bucket-root")
		return
	}
	_ = wantHasKey
	verifAssert(gotBucket == wantBucket, "C33: virtual-hosted request addresses a different bucket")
	verifAssert(gotHasKey, "C33: virtual-hosted object request lost its key")
	verifAssert(gotKey == wantKey, "C33: virtual-hosted request addresses a different key than the path-style request")
	verifCover("object")
}

// VerifC33PathStyleUntouched: requests to the base endpoint itself (path style)
// and to unrelated hosts are passed through unchanged.
func VerifC33PathStyleUntouched() {
	base := "s3.example"
	host := base
	switch verifPick("host", 0, 2) {
	case 1:
		host = "other.host"
	case 2:
		host = "[::1]"
	}
	if verifBool("port") {
		host += ":9000"
	}
	n := verifPick("len", 0, verifParam("keylen", 3))
	p := "/" + verifString("p", n)
	next := &verifC33Rec{}
	MakeVirtualHostBucketAddressingMiddleware(base, next).ServeHTTP(nil, &http.Request{Host: host, URL: &url.URL{Path: p}})
	verifAssert(next.called == 1 && next.path == p, "C33: path-style request was rewritten")
}

// VerifC33HostRouting: API hosts go to the API handler with an unchanged path,
// website hosts only to the website handler (bucket prefixed), anything else to
// the fallback; exactly one handler runs.
func VerifC33HostRouting() {
	api, web := "s3.example", "web.example"
	hosts := [8]string{"s3.example", "bkt.s3.example", "bkt.web.example", "web.example", "cdn.customer.org", "cdn-s3.example", "xs3.example", "notweb.example"}
	hi := verifPick("host", 0, 7)
	host := hosts[hi]
	if verifBool("port") {
		host += ":443"
	}
	n := verifPick("len", 0, verifParam("keylen", 3))
	p := "/" + verifString("p", n)
	apiH, webH, fbH := &verifC33Rec{}, &verifC33Rec{}, &verifC33Rec{}
	MakeHostnameRoutingHandler(api, apiH, web, webH, fbH).ServeHTTP(nil, &http.Request{Method: "DELETE", Host: host, URL: &url.URL{Path: p}})
	verifAssert(apiH.called+webH.called+fbH.called == 1, "C33: request not routed to exactly one handler")
	switch hi {
	case 0, 1:
		verifAssert(apiH.called == 1 && apiH.path == p, "C33: API host not routed unchanged to the API handler")
	case 2:
		verifAssert(webH.called == 1, "C33: website host not routed to the website handler")
		b, k, hasKey := verifC33Split(webH.path)
		verifAssert(b == "bkt", "C33: website request addresses a different bucket")
		verifAssert(n == 0 || (hasKey && k == p[1:]), "C33: website request addresses a different key")
	default:
		verifAssert(fbH.called == 1 && apiH.called == 0, "C33: foreign host reached the API handler")
	}
}
