package PKGNAME

// C26: every storage call is bracketed by START/COMPLETE entries with the right
// outcome; everything the middleware writes is accepted by the Validator running
// in lock-step (hash chain, signatures, Merkle grounding after 1000 entries);
// chain state is only touched under the middleware's mutex.

import (
	"context"
	"errors"
	"hash"
	"time"

	"github.com/jdillenkofer/pithos/internal/auditlog"
	"github.com/jdillenkofer/pithos/internal/storage"
)

// ---- crypto doubles: deterministic, injective-by-assumption ----------------------

type verifC26Hash struct{ buf []byte }

func (h *verifC26Hash) Write(p []byte) (int, error) { h.buf = append(h.buf, p...); return len(p), nil }
func (h *verifC26Hash) Sum(b []byte) []byte         { return append(b, verifHashBytes("sha512", 64, h.buf)...) }
func (h *verifC26Hash) Reset()                      { h.buf = nil }
func (h *verifC26Hash) Size() int                   { return 64 }
func (h *verifC26Hash) BlockSize() int              { return 128 }

func verifStubSha512New() hash.Hash { return &verifC26Hash{} }
func verifStubSum512(data []byte) [64]byte {
	var out [64]byte
	copy(out[:], verifHashBytes("sha512", 64, data))
	return out
}

var verifC26Clock int64

func verifStubNow() time.Time                  { verifC26Clock++; return time.Unix(1700000000+verifC26Clock, 0).UTC() }
func verifStubSince(t time.Time) time.Duration { return time.Millisecond }

type verifC26Signer struct{ name string }

func (s verifC26Signer) Sign(data []byte) ([]byte, error) {
	n := 64
	if s.name == "mldsa" {
		n = 4627
	}
	return verifHashBytes("sig-"+s.name, n, data), nil
}
func (s verifC26Signer) Verify(data, sig []byte) bool {
	want, _ := s.Sign(data)
	if len(want) != len(sig) {
		return false
	}
	for i := range want {
		if want[i] != sig[i] {
			return false
		}
	}
	return true
}

// ---- sink: records what was written and feeds it to a Validator ---------------------

type verifC26Sink struct {
	entries   []*auditlog.Entry
	validator *auditlog.Validator
	failNext  bool
}

func (s *verifC26Sink) WriteEntry(e *auditlog.Entry) error {
	if s.failNext {
		s.failNext = false
		return errors.New("sink failure")
	}
	s.entries = append(s.entries, e)
	err := s.validator.ValidateEntry(e)
	verifAssert(err == nil, "C26: an entry written by the middleware is rejected by the validator")
	return nil
}
func (s *verifC26Sink) Close() error { return nil }

type verifC26Next struct {
	storage.Storage
	fail  bool
	calls int
	sink  *verifC26Sink
	seenStart bool
}

func (n *verifC26Next) CreateBucket(ctx context.Context, b storage.BucketName) error {
	n.calls++
	// the START entry must already be in the log when the call runs
	for i := len(n.sink.entries) - 1; i >= 0; i-- {
		// the most recent LOG entry (a grounding may follow it)
		if d, ok := n.sink.entries[i].Details.(*auditlog.LogDetails); ok {
			n.seenStart = d.Phase == auditlog.PhaseStart && d.Operation == auditlog.OpCreateBucket
			break
		}
	}
	if n.fail {
		return errors.New("inner failure")
	}
	return nil
}

// VerifC26Step: from a state with `prefill` log entries already in the current
// grounding block, run one audited call (inner result nondeterministic).
func VerifC26Step() {
	prefill := verifParam("prefill", 0)
	verifC26Clock = 0
	ed := verifC26Signer{"ed25519"}
	ml := verifC26Signer{"mldsa"}
	sk := &verifC26Sink{validator: auditlog.NewValidator(ed, ml)}
	next := &verifC26Next{sink: sk}
	m := NewAuditLogMiddleware(next, sk, ed, ml, make([]byte, 64), nil)
	verifAssert(len(sk.entries) == 1 && sk.entries[0].Type == auditlog.EntryTypeGenesis, "C26: no genesis entry")
	for i := 0; i < prefill; i++ {
		m.log(context.Background(), auditlog.OpHeadBucket, auditlog.PhaseStart, auditResource{bucket: "p"}, nil, 0, 0)
	}
	before := len(sk.entries)
	verifGuardedBy(&m.lastHash, &m.mu)
	verifGuardedBy(&m.hashBuffer, &m.mu)
	next.fail = verifBool("innerFails")
	err := m.CreateBucket(context.Background(), storage.MustNewBucketName("bucket"))
	verifAssert((err != nil) == next.fail, "C26: inner result not passed through")
	verifAssert(next.calls == 1 && next.seenStart, "C26: the call ran without a preceding START entry")
	var logs []*auditlog.LogDetails
	groundings := 0
	for _, e := range sk.entries[before:] {
		switch d := e.Details.(type) {
		case *auditlog.LogDetails:
			logs = append(logs, d)
		case *auditlog.GroundingDetails:
			groundings++
		}
	}
	verifAssert(len(logs) == 2, "C26: a call must produce exactly a START and a COMPLETE entry")
	verifAssert(logs[0].Phase == auditlog.PhaseStart && logs[1].Phase == auditlog.PhaseComplete, "C26: START/COMPLETE order")
	verifAssert(logs[0].Operation == auditlog.OpCreateBucket && logs[1].Operation == auditlog.OpCreateBucket && logs[1].Resource.Bucket == "bucket", "C26: wrong operation/resource recorded")
	if next.fail {
		verifAssert(logs[1].Outcome.Outcome == auditlog.OutcomeError && logs[1].Outcome.StatusCode == 500 && logs[1].Outcome.Error == "inner failure", "C26: failed call not recorded as error")
	} else {
		verifAssert(logs[1].Outcome.Outcome == auditlog.OutcomeSuccess && logs[1].Outcome.StatusCode == 200, "C26: successful call not recorded as success")
	}
	// the prefill itself closes a block with every GroundingBlockSize-th entry
	crossed := prefill%auditlog.GroundingBlockSize+2 >= auditlog.GroundingBlockSize
	verifAssert((groundings == 1) == crossed && groundings <= 1, "C26: grounding not emitted exactly when the 1000th entry of the block is written")
	if crossed {
		verifCover("grounding")
	}
	// middleware and validator agree on the chain state
	m.mu.Lock()
	verifAssert(len(m.lastHash) == 64 && string(m.lastHash) == string(sk.validator.PrevHash), "C26: middleware and validator disagree on the chain head")
	verifAssert(len(m.hashBuffer) == len(sk.validator.HashBuffer), "C26: middleware and validator disagree on the grounding block")
	m.mu.Unlock()
}

// VerifC26SinkFailure: a log write fails once; the chain written afterwards still verifies.
func VerifC26SinkFailure() {
	verifC26Clock = 0
	ed := verifC26Signer{"ed25519"}
	ml := verifC26Signer{"mldsa"}
	sk := &verifC26Sink{validator: auditlog.NewValidator(ed, ml)}
	next := &verifC26Next{sink: sk}
	m := NewAuditLogMiddleware(next, sk, ed, ml, make([]byte, 64), nil)
	m.log(context.Background(), auditlog.OpHeadBucket, auditlog.PhaseStart, auditResource{bucket: "p"}, nil, 0, 0)
	which := verifPick("failAt", 0, 1)
	if which == 0 {
		sk.failNext = true
	}
	m.log(context.Background(), auditlog.OpHeadBucket, auditlog.PhaseComplete, auditResource{bucket: "p"}, nil, 200, 1)
	if which == 1 {
		sk.failNext = true
	}
	m.log(context.Background(), auditlog.OpHeadObject, auditlog.PhaseStart, auditResource{bucket: "p", key: "k"}, nil, 0, 0)
	m.log(context.Background(), auditlog.OpHeadObject, auditlog.PhaseComplete, auditResource{bucket: "p", key: "k"}, nil, 200, 1)
	verifAssert(len(sk.entries) == 4, "C26: entries after a failed write were not written")
}
