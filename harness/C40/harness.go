package PKGNAME

// C40: a streaming GetObject body is either the complete resolved content
// followed by io.EOF, or ends with a non-EOF error. Never a short body
// reported as complete, never foreign bytes.

import (
	"context"
	"errors"
	"io"

	"github.com/jdillenkofer/pithos/internal/storage"
	"github.com/jdillenkofer/pithos/internal/storage/database"
	"github.com/jdillenkofer/pithos/internal/storage/metadatapart/metadatastore"
	"github.com/jdillenkofer/pithos/internal/storage/metadatapart/partstore"
)

var verifC40ErrIO = errors.New("injected read error")

// content of part i at offset o (what was stored when the version was resolved)
func verifC40Byte(part int, off int64) byte { return byte(16*(part+1) + int(off)) }

type verifC40Reader struct {
	part   int
	size   int64
	pos    int64
	failAt int64 // -1: never
	closed bool
}

func (r *verifC40Reader) Read(p []byte) (int, error) {
	if r.failAt >= 0 && r.pos >= r.failAt {
		return 0, verifC40ErrIO
	}
	if r.pos >= r.size {
		return 0, io.EOF
	}
	if len(p) == 0 {
		return 0, nil
	}
	// nondeterministic short read of 1..min(len(p), remaining) bytes
	max := int64(len(p))
	if r.size-r.pos < max {
		max = r.size - r.pos
	}
	n := int64(1)
	if max > 1 {
		n = int64(verifPick("readLen", 1, int(max)))
	}
	for i := int64(0); i < n; i++ {
		p[i] = verifC40Byte(r.part, r.pos+i)
	}
	r.pos += n
	return int(n), nil
}

func (r *verifC40Reader) Close() error { r.closed = true; return nil }

type verifC40Store struct {
	sizes   []int64
	getFail []int // 0 ok, 1 not found (part deleted / collected), 2 other error
	failAt  []int64
	opened  []int
}

func (s *verifC40Store) Start(ctx context.Context) error { return nil }
func (s *verifC40Store) Stop(ctx context.Context) error  { return nil }
func (s *verifC40Store) PutPart(ctx context.Context, tx database.Tx, id partstore.PartId, r io.Reader) error {
	return nil
}
func (s *verifC40Store) GetPart(ctx context.Context, tx database.Tx, id partstore.PartId) (io.ReadCloser, error) {
	i := int(id.Bytes()[0]) - 1
	s.opened[i]++
	switch s.getFail[i] {
	case 1:
		return nil, partstore.ErrPartNotFound
	case 2:
		return nil, verifC40ErrIO
	}
	return &verifC40Reader{part: i, size: s.sizes[i], failAt: s.failAt[i]}, nil
}
func (s *verifC40Store) GetPartIds(ctx context.Context, tx database.Tx) ([]partstore.PartId, error) {
	return nil, nil
}
func (s *verifC40Store) DeletePart(ctx context.Context, tx database.Tx, id partstore.PartId) error {
	return nil
}

func verifC40PartId(i int) partstore.PartId {
	b := make([]byte, 16)
	b[0] = byte(i + 1)
	id, err := partstore.NewPartIdFromBytes(b)
	if err != nil {
		panic(err)
	}
	return *id
}

// VerifC40Stream: object of 1..N parts of 0..S bytes, any byte range, any
// caller buffer size, nondeterministic short reads, GetPart failures and read
// errors at any part / offset.
func VerifC40Stream() {
	maxParts := verifParam("parts", 2)
	maxSize := verifParam("partSize", 2)
	n := verifPick("nparts", 1, maxParts)
	st := &verifC40Store{}
	obj := &metadatastore.Object{}
	var content []byte
	for i := 0; i < n; i++ {
		sz := int64(verifPick("size", 0, maxSize))
		st.sizes = append(st.sizes, sz)
		st.getFail = append(st.getFail, verifPick("getFail", 0, 2))
		fa := int64(-1)
		if verifBool("readFails") {
			fa = int64(verifPick("failAt", 0, maxSize))
		}
		st.failAt = append(st.failAt, fa)
		st.opened = append(st.opened, 0)
		obj.Parts = append(obj.Parts, metadatastore.Part{Id: verifC40PartId(i), Size: sz})
		for o := int64(0); o < sz; o++ {
			content = append(content, verifC40Byte(i, o))
		}
		obj.Size += sz
	}
	verifAssume(obj.Size > 0)
	start := int64(verifPick("start", 0, int(obj.Size)-1))
	end := int64(verifPick("end", int(start)+1, int(obj.Size)))
	want := content[start:end]

	stores, err := partstore.NewNamedPartStores(st, nil, nil)
	verifAssert(err == nil, "setup")
	mbs := &metadataPartStorage{partStores: stores}
	rc, rerr := mbs.createRangeReader(context.Background(), nil, obj, storage.ByteRange{Start: &start, End: &end})
	verifAssert(rerr == nil, "C40: valid range rejected")

	bufLen := verifPick("bufLen", 1, verifParam("bufLen", 2))
	buf := make([]byte, bufLen)
	var got []byte
	var finalErr error
	maxReads := len(want) + n + 2
	for k := 0; k < maxReads; k++ {
		m, e := rc.Read(buf)
		verifAssert(m >= 0 && m <= bufLen, "C40: Read returned an impossible count")
		got = append(got, buf[:m]...)
		// everything delivered so far is a prefix of the resolved content
		verifAssert(len(got) <= len(want), "C40: more bytes delivered than the range holds")
		for j := len(got) - m; j < len(got); j++ {
			verifAssert(got[j] == want[j], "C40: delivered byte differs from the resolved content")
		}
		if e != nil {
			finalErr = e
			break
		}
		verifAssert(m > 0, "C40: Read made no progress without reporting an error")
	}
	verifAssert(finalErr != nil, "C40: stream did not terminate within the bound")
	if finalErr == io.EOF {
		verifAssert(len(got) == len(want), "C40: short body reported as complete (io.EOF before all bytes were delivered)")
		verifCover("complete")
	} else {
		verifCover("error")
	}
	for i := 0; i < n; i++ {
		verifAssert(st.opened[i] <= 1, "C40: a part was resolved/opened more than once")
	}
	rc.Close()
}
