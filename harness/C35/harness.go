package PKGNAME

// C35 (combine half): CRC combination is exact for CRC32, CRC32C, CRC64NVME.
//
// For a reflected CRC with register R, init = xorout = all ones:
//   crc(A || B) = Z_{8|B|}(crc(A)) xor crc(B)
// where Z_1 is one zero-bit step  x -> (x >> 1) xor (x&1 ? poly : 0)  of the
// bitwise definition. The harness compares the repository's matrix-based
// combine with this bit-serial oracle for symbolic crc words.

import "encoding/binary"

const (
	verifC35Poly32  = 0xEDB88320         // IEEE, reflected
	verifC35Poly32c = 0x82F63B78         // Castagnoli, reflected
	verifC35Poly64  = 0x9a6c9329ac4bc9b5 // NVME, reflected
)

func verifC35ZeroBits(x uint64, poly uint64, nbits int) uint64 {
	for i := 0; i < nbits; i++ {
		if x&1 != 0 {
			x = (x >> 1) ^ poly
		} else {
			x = x >> 1
		}
	}
	return x
}

// one data byte through the bitwise register (reflected): used for the
// end-to-end obligation with symbolic bytes
func verifC35Byte(x uint64, b byte, poly uint64) uint64 {
	x ^= uint64(b)
	return verifC35ZeroBits(x, poly, 8)
}

func verifC35Variant(v int) (poly uint64, bits int) {
	switch v {
	case 0:
		return verifC35Poly32, 32
	case 1:
		return verifC35Poly32c, 32
	}
	return verifC35Poly64, 64
}

func verifC35Combine(v int, c1, c2 uint64, n int64) uint64 {
	var a, b []byte
	if v == 2 {
		a, b = make([]byte, 8), make([]byte, 8)
		binary.BigEndian.PutUint64(a, c1)
		binary.BigEndian.PutUint64(b, c2)
	} else {
		a, b = make([]byte, 4), make([]byte, 4)
		binary.BigEndian.PutUint32(a, uint32(c1))
		binary.BigEndian.PutUint32(b, uint32(c2))
	}
	var out []byte
	switch v {
	case 0:
		out = CombineCrc32(a, b, n)
	case 1:
		out = CombineCrc32c(a, b, n)
	default:
		out = CombineCrc64Nvme(a, b, n)
	}
	if v == 2 {
		return binary.BigEndian.Uint64(out)
	}
	return uint64(binary.BigEndian.Uint32(out))
}

func verifC35Word(name string, bits int) uint64 {
	if bits == 32 {
		return uint64(verifUint32(name))
	}
	return verifUint64(name)
}

// VerifC35Direct: Combine(c1, c2, n) == Z_{8n}(c1) xor c2 for every crc1, crc2
// and the concrete length given by the parameter "n".
func VerifC35Direct() {
	v := verifParam("variant", 0)
	n := verifParam("n", 1)
	poly, bits := verifC35Variant(v)
	c1 := verifC35Word("crc1", bits)
	c2 := verifC35Word("crc2", bits)
	got := verifC35Combine(v, c1, c2, int64(n))
	// Z_{8n} is GF(2)-linear (VerifC35StepLinear proves it for one step, hence
	// for any number of steps), so Z_{8n}(c1) is the xor of the images of the
	// unit vectors selected by the bits of c1; the images are computed by
	// running the bit-serial definition on concrete unit vectors.
	want := c2
	for j := 0; j < bits; j++ {
		col := verifC35ZeroBits(uint64(1)<<uint(j), poly, 8*n)
		if (c1>>uint(j))&1 != 0 {
			want ^= col
		}
	}
	verifAssert(got == want, "C35: combine(crc1, crc2, len2) differs from the bitwise CRC of the concatenation")
}

// VerifC35StepLinear: one zero-bit step of the bit-serial CRC definition is
// linear over GF(2) and maps 0 to 0; by induction so is any number of steps.
func VerifC35StepLinear() {
	v := verifParam("variant", 0)
	poly, bits := verifC35Variant(v)
	x := verifC35Word("x", bits)
	y := verifC35Word("y", bits)
	verifAssert(verifC35ZeroBits(x^y, poly, 1) == verifC35ZeroBits(x, poly, 1)^verifC35ZeroBits(y, poly, 1), "C35: the bit-serial CRC step is not linear")
	verifAssert(verifC35ZeroBits(0, poly, 1) == 0, "C35: the bit-serial CRC step does not fix 0")
	if bits == 32 {
		verifAssert(verifC35ZeroBits(x, poly, 1) <= 0xFFFFFFFF, "C35: 32-bit register leaves its width")
	}
}

// VerifC35Additive: appending a+b zero-extended bytes equals appending a then b
// (M_{a+b} = M_b after M_a), which transfers the direct identity along chains
// of lengths.
func VerifC35Additive() {
	v := verifParam("variant", 0)
	a := int64(verifParam("a", 1))
	b := int64(verifParam("b", 1))
	_, bits := verifC35Variant(v)
	c1 := verifC35Word("crc1", bits)
	whole := verifC35Combine(v, c1, 0, a+b)
	step := verifC35Combine(v, verifC35Combine(v, c1, 0, a), 0, b)
	verifAssert(whole == step, "C35: combine over len a+b differs from combining over a and then b")
}

// VerifC35EndToEnd: with symbolic bytes B (|B| = parameter "n"), crc(B) computed
// bit-serially from the bytes: Combine(crc(A), crc(B), |B|) == crc(A || B) where
// crc(A) is an arbitrary word.
func VerifC35EndToEnd() {
	v := verifParam("variant", 0)
	n := verifParam("n", 1)
	poly, bits := verifC35Variant(v)
	ones := ^uint64(0)
	if bits == 32 {
		ones = 0xFFFFFFFF
	}
	crcA := verifC35Word("crcA", bits)
	data := verifBytes("b", n)
	// crc(B): register starts at all ones, final xor with all ones
	reg := ones
	for _, d := range data {
		reg = verifC35Byte(reg, d, poly)
	}
	crcB := reg ^ ones
	// crc(A||B): continue from A's register (= crcA xor ones)
	reg = crcA ^ ones
	for _, d := range data {
		reg = verifC35Byte(reg, d, poly)
	}
	crcAB := reg ^ ones
	got := verifC35Combine(v, crcA, crcB, int64(n))
	verifAssert(got == crcAB, "C35: combine(crc(A), crc(B), |B|) differs from crc(A||B)")
}

// VerifC35Misc: len2 == 0 returns crc1; bitrev is an involution on w bits.
func VerifC35Misc() {
	c1 := verifUint64("crc1")
	c2 := verifUint64("crc2")
	verifAssert(verifC35Combine(2, c1, c2, 0) == c1, "C35: combine with empty second string must return crc1")
	verifAssert(verifC35Combine(0, c1&0xFFFFFFFF, c2&0xFFFFFFFF, 0) == c1&0xFFFFFFFF, "C35: combine32 with empty second string must return crc1")
	x := verifUint64("x")
	verifAssert(bitrev(bitrev(x, 64), 64) == x, "C35: bitrev is not an involution on 64 bits")
	verifAssert(bitrev(bitrev(x&0xFFFFFFFF, 32), 32) == x&0xFFFFFFFF, "C35: bitrev is not an involution on 32 bits")
}
