package PKGNAME

// C17: erasure coding tolerates parity-many shard faults and never lies.
//
// The real erasureCodingPartStore (2 data + 1 parity shard, 1024-byte stripe
// shards) over three in-memory shard stores. A part is written, then ONE shard
// store is damaged (missing / truncated at a layout position / one byte altered
// at a layout position by a symbolic non-zero difference / replaced by the same
// shard of another part) and the part is read: the read must return exactly the
// original bytes, and where the damage makes the shard missing or unusable as a
// whole (absent, shard header cut or altered) the shard must afterwards again be
// byte-identical to what PutPart wrote. With a second, different shard missing
// as well the read must fail or still return exactly the original bytes.
//
// Under the executor the Reed-Solomon coder is replaced by the 2+1 XOR code (any
// two shards determine the third - the contract the store relies on; the real
// coder's parity is a different GF(256) combination) and SHA-256 by an injective
// stub; the pipe-fed goroutines run in the sequential goroutine model. The
// native replay of every counterexample runs the real coder, SHA-256 and io.Pipe.

import (
	"bytes"
	"context"
	"errors"
	"io"

	"github.com/jdillenkofer/pithos/internal/storage/database"
	"github.com/jdillenkofer/pithos/internal/storage/metadatapart/partstore"
	"github.com/klauspost/reedsolomon"
)

type verifC17Shard struct {
	present bool
	data    []byte
}

func (s *verifC17Shard) Start(ctx context.Context) error { return nil }
func (s *verifC17Shard) Stop(ctx context.Context) error  { return nil }
func (s *verifC17Shard) PutPart(ctx context.Context, tx database.Tx, id partstore.PartId, r io.Reader) error {
	data, err := io.ReadAll(r)
	if err != nil {
		return err
	}
	s.present, s.data = true, data
	return nil
}
func (s *verifC17Shard) GetPart(ctx context.Context, tx database.Tx, id partstore.PartId) (io.ReadCloser, error) {
	if !s.present {
		return nil, partstore.ErrPartNotFound
	}
	return io.NopCloser(bytes.NewReader(s.data)), nil
}
func (s *verifC17Shard) GetPartIds(ctx context.Context, tx database.Tx) ([]partstore.PartId, error) {
	return nil, nil
}
func (s *verifC17Shard) DeletePart(ctx context.Context, tx database.Tx, id partstore.PartId) error {
	s.present, s.data = false, nil
	return nil
}

type verifC17Xor struct{ reedsolomon.Encoder }

func (verifC17Xor) Encode(shards [][]byte) error {
	for i := range shards[2] {
		shards[2][i] = shards[0][i] ^ shards[1][i]
	}
	return nil
}
func (verifC17Xor) fill(shards [][]byte, upTo int) error {
	missing := -1
	for i := 0; i < 3; i++ {
		if len(shards[i]) == 0 {
			if missing >= 0 {
				return reedsolomon.ErrTooFewShards
			}
			missing = i
		}
	}
	if missing < 0 || missing >= upTo {
		return nil
	}
	a, b := shards[(missing+1)%3], shards[(missing+2)%3]
	if len(a) != len(b) {
		return reedsolomon.ErrShardSize
	}
	out := make([]byte, len(a))
	for i := range a {
		out[i] = a[i] ^ b[i]
	}
	shards[missing] = out
	return nil
}
func (x verifC17Xor) ReconstructData(shards [][]byte) error { return x.fill(shards, 2) }
func (x verifC17Xor) Reconstruct(shards [][]byte) error     { return x.fill(shards, 3) }

func verifStubSum256(data []byte) [32]byte {
	var out [32]byte
	copy(out[:], verifHashBytes("sha256", 32, data))
	return out
}

func verifC17Store(shards []*verifC17Shard) partstore.PartStore {
	stores := []partstore.PartStore{shards[0], shards[1], shards[2]}
	if verifNative() {
		st, err := NewWithPartStores(2, 1, 1024, stores)
		if err != nil {
			panic(err)
		}
		return st
	}
	return &erasureCodingPartStore{partStores: stores, partLocker: newPartLocker(), dataShards: 2, parityShards: 1, totalShards: 3, stripeShardSz: 1024, enc: verifC17Xor{}}
}

var verifC17ID = *partstore.MustNewPartIdFromString("01ARZ3NDEKTSV4RRFFQ69G5FAV")
var verifC17Sizes = []int{1, 3, 2049, 2048, 2051, 2}

// layout positions inside a shard (15-byte shard header, then per stripe a
// 48-byte frame header and the payload): every header field, both ends of the
// first payload and, for a two-stripe part, the same in the second frame
func verifC17Positions(shardLen int, firstPayload int) []int {
	p := []int{0, 4, 6, 8, 10, 14, 15 + 7, 15 + 11, 15 + 15, 15 + 16, 15 + 47, 63, 63 + firstPayload - 1}
	second := 63 + firstPayload
	if shardLen > second {
		p = append(p, second+7, second+11, second+15, second+16, second+48, shardLen-1)
	}
	return p
}

func verifC17Body(name string, n int) []byte {
	body := make([]byte, n)
	for k, pos := range []int{0, 1, 1023, 1024, 2047, 2048, n - 2, n - 1} {
		if pos >= 0 && pos < n {
			body[pos] = verifByte(name + string(rune('0'+k)))
		}
	}
	return body
}

func verifC17Same(a, b []byte) bool {
	if len(a) != len(b) {
		return false
	}
	eq := true
	for i := range a {
		eq = verifAnd(eq, a[i] == b[i]) // one condition, no fork per byte
	}
	return eq
}

func VerifC17OneFault() {
	shards := []*verifC17Shard{{}, {}, {}}
	st := verifC17Store(shards)
	ctx := context.Background()
	n := verifC17Sizes[verifPick("size", 0, verifParam("sizes", 3)-1)]
	body := verifC17Body("b", n)
	verifAssert(st.PutPart(ctx, nil, verifC17ID, bytes.NewReader(body)) == nil, "C17: PutPart failed")
	orig := [][]byte{append([]byte(nil), shards[0].data...), append([]byte(nil), shards[1].data...), append([]byte(nil), shards[2].data...)}
	firstPayload := (min(n, 2048) + 1) / 2

	f := verifPick("faulty-shard", 0, 2)
	kind := verifPick("fault", verifParam("minkind", 0), verifParam("maxkind", 3))
	pos := verifC17Positions(len(orig[f]), firstPayload)
	// detectedAtOpen: the shard is missing or its shard header is unusable, so the
	// read is a healing read that has to rewrite it. Damage further inside is
	// detected frame by frame; the statement asks for the exact bytes then, not for
	// a repair.
	detectedAtOpen := false
	// lengthField: the altered byte is in a frame header's data-length field
	lengthField := false
	switch kind {
	case 0: // missing
		shards[f].present, shards[f].data = false, nil
		detectedAtOpen = true
	case 1: // truncated
		cut := pos[verifPick("cut-at", 0, len(pos)-1)]
		shards[f].data = append([]byte(nil), orig[f][:cut]...)
		detectedAtOpen = cut < 15
	case 2: // one byte altered
		at := pos[verifPick("alter-at", 0, len(pos)-1)]
		delta := verifByte("difference")
		verifAssume(delta != 0)
		if rel := (at - 15) % (48 + firstPayload); at >= 15 && rel >= 8 && rel < 16 {
			// the two length fields of a frame header size an allocation and a slice:
			// two representative differences instead of all 255
			verifAssume(delta == 0x01 || delta == 0x80)
			lengthField = rel < 12
		}
		shards[f].data = append([]byte(nil), orig[f]...)
		shards[f].data[at] ^= delta
		detectedAtOpen = at < 15
	case 3: // the same shard of another part of the same size
		other := []*verifC17Shard{{}, {}, {}}
		obody := make([]byte, n)
		for i := range obody {
			obody[i] = byte(i*7 + 1)
		}
		verifAssert(verifC17Store(other).PutPart(ctx, nil, verifC17ID, bytes.NewReader(obody)) == nil, "C17: PutPart failed")
		shards[f].data = other[f].data
	}
	// more faults: 0 none; 1, 2: the next / next but one shard is missing as well;
	// 3: both other shards carry the same damage at the same place (cut or altered)
	second := verifPick("second-missing", 0, verifParam("second", 3))
	if second == 1 || second == 2 {
		o := (f + second) % 3
		shards[o].present, shards[o].data = false, nil
	}
	if second == 3 {
		verifAssume(kind == 1 || kind == 2)
		verifCover("all-shards-damaged")
		for _, o := range []int{(f + 1) % 3, (f + 2) % 3} {
			if len(shards[f].data) < len(orig[f]) {
				shards[o].data = append([]byte(nil), orig[o][:min(len(shards[f].data), len(orig[o]))]...)
				continue
			}
			d := append([]byte(nil), orig[o]...)
			for i := range d {
				if i < len(orig[f]) && shards[f].data[i] != orig[f][i] { // the altered position (concrete index)
					d[i] ^= shards[f].data[i] ^ orig[f][i]
				}
			}
			shards[o].data = d
		}
	}

	rc, err := st.GetPart(ctx, nil, verifC17ID)
	var got []byte
	if err == nil {
		got, err = io.ReadAll(rc)
		rc.Close()
	}
	if verifKnown("C17-frame-data-length-not-authenticated", kind == 2 && lengthField) || verifKnown("C17-shard-not-bound-to-part", kind == 3) {
		return
	}
	if second > 0 {
		verifCover("two-faults")
		verifAssert(err != nil || verifC17Same(got, body), "C17: with more faults than parity shards the read returned different bytes instead of failing")
		return
	}
	verifCover("one-fault")
	verifAssert(err == nil, "C17: a read with one faulty shard failed")
	verifAssert(verifC17Same(got, body), "C17: a read with one faulty shard returned other bytes than were written")
	if detectedAtOpen {
		verifCover("healed")
		verifAssert(shards[f].present && verifC17Same(shards[f].data, orig[f]), "C17: the healing read did not restore the missing shard")
	}
	for i := range shards {
		if i != f {
			verifAssert(verifC17Same(shards[i].data, orig[i]), "C17: the read changed a healthy shard")
		}
	}
}

// VerifC17AbortedHeal: a consumer that opens a part with one shard missing
// and closes the stream before the decoder has delivered anything (the one
// schedule of an aborted download the sequential goroutine model follows: the
// decoding goroutine runs when Close waits for it, with the pipe already
// closed). The abandoned healing write must not publish a shard: afterwards the
// shard is either still absent or complete, never a well-formed prefix that
// later reads would trust while the redundancy is in fact gone.
func VerifC17AbortedHeal() {
	shards := []*verifC17Shard{{}, {}, {}}
	st := verifC17Store(shards)
	ctx := context.Background()
	n := verifC17Sizes[verifPick("size", 0, verifParam("sizes", 3)-1)]
	body := verifC17Body("b", n)
	verifAssert(st.PutPart(ctx, nil, verifC17ID, bytes.NewReader(body)) == nil, "C17: PutPart failed")
	orig := [][]byte{append([]byte(nil), shards[0].data...), append([]byte(nil), shards[1].data...), append([]byte(nil), shards[2].data...)}
	f := verifPick("faulty-shard", 0, 2)
	shards[f].present, shards[f].data = false, nil

	rc, err := st.GetPart(ctx, nil, verifC17ID)
	verifAssert(err == nil, "C17: opening a part with one shard missing failed")
	rc.Close()
	verifCover("aborted")
	verifAssert(!shards[f].present || verifC17Same(shards[f].data, orig[f]), "C17: an aborted healing read published an incomplete shard")
	for i := range shards {
		if i != f {
			verifAssert(verifC17Same(shards[i].data, orig[i]), "C17: the aborted read changed a healthy shard")
		}
	}
	// a complete read afterwards still returns the part (and heals)
	rc, err = st.GetPart(ctx, nil, verifC17ID)
	var got []byte
	if err == nil {
		got, err = io.ReadAll(rc)
		rc.Close()
	}
	verifAssert(err == nil && verifC17Same(got, body), "C17: the read after an aborted healing read failed or returned other bytes")
	verifAssert(shards[f].present && verifC17Same(shards[f].data, orig[f]), "C17: the complete read after an aborted one did not restore the missing shard")
}

var _ = errors.New
