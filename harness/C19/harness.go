package PKGNAME

// C19 (generic cache): a Get returns the value of the last completed Set for
// that key or a miss, never a foreign or removed value; the eviction
// bookkeeping stays consistent; and every access to the shared persistor /
// policy state happens under a lock (no data race).

import (
	"bytes"
	"io"
	"time"

	"github.com/jdillenkofer/pithos/internal/cache/evictionpolicy/evictionchecker/fixedkeylimit"
	"github.com/jdillenkofer/pithos/internal/cache/evictionpolicy/lfu"
	"github.com/jdillenkofer/pithos/internal/cache/persistor"
	"github.com/jdillenkofer/pithos/internal/cache/persistor/inmemory"
)

var verifC19Clock int64

func verifStubNow() time.Time { verifC19Clock++; return time.Unix(1700000000+verifC19Clock, 0).UTC() }

// VerifC19Sequence: a symbolic sequence of Set/Get/Remove on three keys with a
// key limit of 2 (forces evictions).
func VerifC19Sequence() {
	steps := verifParam("steps", 4)
	verifC19Clock = 0
	p, _ := inmemory.New()
	chk, _ := fixedkeylimit.New(2)
	pol, _ := lfu.New(chk)
	c, err := NewGenericCache(p, pol)
	verifAssert(err == nil, "setup")
	// lock discipline: the persistor and the policy are shared mutable state
	verifGuardedBy(p, nil)
	verifGuardedBy(pol, nil)
	keys := [3]string{"a", "b", "c"}
	var last [3]int // value of the last Set per key, 0 = none / removed
	counter := 0
	for s := 0; s < steps; s++ {
		k := verifPick("key", 0, 2)
		switch verifPick("op", 0, 2) {
		case 0:
			counter++
			verr := c.Set(keys[k], bytes.NewReader([]byte{byte(counter), byte(k)}), 2)
			verifAssert(verr == nil, "C19: Set failed on the in-memory persistor")
			last[k] = counter
		case 1:
			rc, gerr := c.Get(keys[k])
			if gerr != nil {
				verifAssert(gerr == persistor.ErrCacheMiss, "C19: unexpected Get error")
				verifCover("miss")
			} else {
				data, _ := io.ReadAll(rc)
				verifAssert(len(data) == 2 && int(data[1]) == k, "C19: Get returned another key's value")
				verifAssert(last[k] != 0, "C19: Get returned a value for a key that was removed or never set")
				verifAssert(int(data[0]) == last[k], "C19: Get returned a stale value (not the last completed Set)")
				verifCover("hit")
			}
		case 2:
			verifAssert(c.Remove(keys[k]) == nil, "C19: Remove failed")
			last[k] = 0
		}
	}
}
