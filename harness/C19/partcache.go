package PKGNAME

// C19, part-store cache: GetPart through the cache never returns bytes other
// than those the inner store holds for that part at that moment (sequential
// histories), also after oversized overwrites and aborted reads.
//
// The real cachePartStore runs over an inner part-store double and an in-memory
// cache double; its cache-fill goroutine runs in the sequential goroutine model
// (io.Pipe as an unbounded buffer).

import (
	"bytes"
	"context"
	"errors"
	"io"

	cachepkg "github.com/jdillenkofer/pithos/internal/cache"
	"github.com/jdillenkofer/pithos/internal/storage/database"
	"github.com/jdillenkofer/pithos/internal/storage/metadatapart/partstore"
)

type verifPCCache struct {
	keys []string
	vals [][]byte
}

func (c *verifPCCache) idx(key string) int {
	for i, k := range c.keys {
		if k == key {
			return i
		}
	}
	return -1
}
func (c *verifPCCache) Set(key string, reader io.Reader, size int64) error {
	data, err := io.ReadAll(reader)
	if err != nil {
		return err
	}
	if i := c.idx(key); i >= 0 {
		c.vals[i] = data
		return nil
	}
	c.keys, c.vals = append(c.keys, key), append(c.vals, data)
	return nil
}
func (c *verifPCCache) Get(key string) (io.ReadCloser, error) {
	i := c.idx(key)
	if i < 0 {
		return nil, cachepkg.ErrCacheMiss
	}
	return io.NopCloser(bytes.NewReader(c.vals[i])), nil
}
func (c *verifPCCache) Remove(key string) error {
	if i := c.idx(key); i >= 0 {
		c.keys = append(append([]string(nil), c.keys[:i]...), c.keys[i+1:]...)
		c.vals = append(append([][]byte(nil), c.vals[:i]...), c.vals[i+1:]...)
	}
	return nil
}

type verifPCInner struct {
	present bool
	data    []byte
	// the next GetPart stream breaks after failAfter bytes with failErr (-1: intact)
	failAfter int
	failErr   error
}

type verifPCBrokenReader struct {
	data []byte
	err  error
}

func (r *verifPCBrokenReader) Read(p []byte) (int, error) {
	if len(r.data) == 0 {
		return 0, r.err
	}
	n := copy(p, r.data)
	r.data = r.data[n:]
	return n, nil
}
func (r *verifPCBrokenReader) Close() error { return nil }

var verifPCErrBackend = errors.New("verif: backend stream broke")

func (s *verifPCInner) Start(ctx context.Context) error { return nil }
func (s *verifPCInner) Stop(ctx context.Context) error  { return nil }
func (s *verifPCInner) PutPart(ctx context.Context, tx database.Tx, id partstore.PartId, r io.Reader) error {
	data, err := io.ReadAll(r)
	if err != nil {
		return err
	}
	s.present, s.data = true, data
	return nil
}
func (s *verifPCInner) GetPart(ctx context.Context, tx database.Tx, id partstore.PartId) (io.ReadCloser, error) {
	if !s.present {
		return nil, partstore.ErrPartNotFound
	}
	if s.failAfter >= 0 && s.failAfter < len(s.data) {
		r := &verifPCBrokenReader{data: append([]byte(nil), s.data[:s.failAfter]...), err: s.failErr}
		s.failAfter = -1
		return r, nil
	}
	s.failAfter = -1
	return io.NopCloser(bytes.NewReader(s.data)), nil
}
func (s *verifPCInner) GetPartIds(ctx context.Context, tx database.Tx) ([]partstore.PartId, error) {
	return nil, nil
}
func (s *verifPCInner) DeletePart(ctx context.Context, tx database.Tx, id partstore.PartId) error {
	s.present, s.data = false, nil
	return nil
}

// the oversized hints live in a sync.Map; a plain map stands in for it
var verifPCHints = map[string]bool{}

func verifStubHasHint(ps *cachePartStore, k string) bool { return verifPCHints[k] }
func verifStubMarkHint(ps *cachePartStore, k string)     { verifPCHints[k] = true }
func verifStubClearHint(ps *cachePartStore, k string)    { delete(verifPCHints, k) }

func VerifC19PartCache() {
	inner := &verifPCInner{failAfter: -1}
	theCache := &verifPCCache{}
	st, err := New(theCache, inner, Options{MaxPartSizeBytes: 2})
	if err != nil {
		panic(err)
	}
	for k := range verifPCHints {
		delete(verifPCHints, k)
	}
	id := *partstore.MustNewPartIdFromString("01ARZ3NDEKTSV4RRFFQ69G5FAV")
	ctx := context.Background()
	steps := verifParam("steps", 3)
	for i := 0; i < steps; i++ {
		switch verifPick("op", 0, 3) {
		case 0: // put (3 bytes exceed the cache threshold of 2)
			body := verifBytes("body", verifPick("len", 0, 3))
			verifAssert(st.PutPart(ctx, nil, id, bytes.NewReader(body)) == nil, "PutPart failed")
		case 1:
			verifAssert(st.DeletePart(ctx, nil, id) == nil, "DeletePart failed")
		case 3: // the cache has evicted the entry (any cache may) and the store's stream breaks after 0..1 bytes (short read or backend error): the reader must see an error
			theCache.Remove(getPartCacheKey(id))
			inner.failAfter = verifPick("failAfter", 0, 1)
			inner.failErr = io.ErrUnexpectedEOF
			if verifPick("failKind", 0, 1) == 1 {
				inner.failErr = verifPCErrBackend
			}
			broke := inner.present && inner.failAfter < len(inner.data)
			if rc, err := st.GetPart(ctx, nil, id); err == nil {
				_, rerr := io.ReadAll(rc)
				rc.Close()
				if broke && inner.failAfter == -1 { // the broken stream was the one consumed (cache miss)
					verifAssert(rerr != nil, "a broken backend stream was reported to the reader as complete")
					verifCover("broken-stream")
				}
			}
			inner.failAfter = -1
		case 2: // a reader that goes away after one byte
			if rc, err := st.GetPart(ctx, nil, id); err == nil {
				one := make([]byte, 1)
				rc.Read(one)
				rc.Close()
			}
		}
		rc, err := st.GetPart(ctx, nil, id)
		if !inner.present {
			verifAssert(err == partstore.ErrPartNotFound, "a deleted part is served from the cache")
			continue
		}
		verifCover("part-read")
		verifAssert(err == nil, "GetPart through the cache failed")
		got, rerr := io.ReadAll(rc)
		rc.Close()
		verifAssert(rerr == nil && len(got) == len(inner.data), "the cache served a different number of bytes than the store holds")
		eq := true
		for k := range got {
			eq = verifAnd(eq, got[k] == inner.data[k])
		}
		verifAssert(eq, "the cache served bytes that were not stored for the part")
	}
}

// ---- io.Pipe as an unbounded buffer (sequential goroutine model) -----------------

type verifPCPipe struct {
	buf    []byte
	closed bool
	err    error
}

var verifPCPipeW = map[*io.PipeWriter]*verifPCPipe{}
var verifPCPipeR = map[*io.PipeReader]*verifPCPipe{}

func verifStubPipe() (*io.PipeReader, *io.PipeWriter) {
	r, w, st := new(io.PipeReader), new(io.PipeWriter), &verifPCPipe{}
	verifPCPipeR[r], verifPCPipeW[w] = st, st
	return r, w
}
func verifStubPipeWrite(w *io.PipeWriter, p []byte) (int, error) {
	st := verifPCPipeW[w]
	if st.closed {
		return 0, io.ErrClosedPipe
	}
	st.buf = append(st.buf, p...)
	return len(p), nil
}
func verifStubPipeWClose(w *io.PipeWriter) error { return verifStubPipeWCloseErr(w, nil) }
func verifStubPipeWCloseErr(w *io.PipeWriter, err error) error {
	st := verifPCPipeW[w]
	if !st.closed {
		st.closed, st.err = true, err
	}
	return nil
}
func verifStubPipeRead(r *io.PipeReader, p []byte) (int, error) {
	st := verifPCPipeR[r]
	if len(st.buf) > 0 {
		n := copy(p, st.buf)
		st.buf = st.buf[n:]
		return n, nil
	}
	if !st.closed {
		panic("verif: pipe read would block in the sequential goroutine model")
	}
	if st.err != nil {
		return 0, st.err
	}
	return 0, io.EOF
}
