package PKGNAME

// C19, filesystem cache persistor: what Get returns for a key is exactly the
// bytes of the last Store for that key (also when a shorter value overwrites a
// longer one), and a removed key is a miss. os calls go to the in-memory file
// system model of C10 under the executor; natively the real file system.

import (
	"bytes"
	"io"

	"github.com/jdillenkofer/pithos/internal/cache/persistor"
)

func VerifC19FSPersistor() {
	root := "/cache"
	if verifNative() {
		root = verifNativeRoot()
	}
	p, err := New(root)
	verifMust(err)
	present := false
	var body []byte
	steps := verifParam("steps", 3)
	for i := 0; i < steps; i++ {
		switch verifPick("op", 0, 1) {
		case 0:
			b := verifBytes("value", verifPick("len", 0, 3))
			n, err := p.Store("k", bytes.NewReader(b))
			verifAssert(err == nil && n == int64(len(b)), "Store failed")
			present, body = true, b
		case 1:
			verifAssert(p.Remove("k") == nil, "Remove failed")
			present = false
		}
		rc, err := p.Get("k")
		if !present {
			verifAssert(err == persistor.ErrCacheMiss, "a removed or never stored key is not a miss")
			continue
		}
		verifCover("fs-hit")
		verifAssert(err == nil, "Get of a stored key failed")
		got, rerr := io.ReadAll(rc)
		rc.Close()
		verifAssert(rerr == nil && len(got) == len(body), "Get returned a different number of bytes than the last Store wrote")
		eq := true
		for k := range got {
			eq = verifAnd(eq, got[k] == body[k])
		}
		verifAssert(eq, "Get returned bytes that the last Store did not write")
	}
}

func verifMust(err error) {
	if err != nil {
		panic(err)
	}
}
