package PKGNAME

import "os"

func init() {
	verifNativeRoot = func() string {
		dir, err := os.MkdirTemp("", "verif-cache-")
		if err != nil {
			panic(err)
		}
		return dir
	}
}
