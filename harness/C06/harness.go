package PKGNAME

// C06: listings are complete, ordered, duplicate-free and prefix-exact.

import (
	"strings"

	"github.com/jdillenkofer/pithos/internal/storage/metadatapart/metadatastore"
)

func verifC06Key(name string, n int) string {
	s := verifString(name, n)
	for i := 0; i < n; i++ {
		verifAssume(verifInSet(s[i], "aAb_%/"))
	}
	return s
}

// VerifC06ListObjects: up to N current objects with symbolic keys; one
// ListObjects page without delimiter, symbolic prefix / start-after / max-keys.
func VerifC06ListObjects() {
	nobj := verifPick("objects", 1, verifParam("objects", 2))
	maxLen := verifParam("keylen", 2)
	tx := verifTx()
	verifInsertBucket(tx, "bucket", nil)
	keys := make([]string, nobj)
	for i := 0; i < nobj; i++ {
		keys[i] = verifC06Key("key", verifPick("keylen", 1, maxLen))
		for j := 0; j < i; j++ {
			verifAssume(!verifStrEq(keys[i], keys[j]))
		}
		verifInsertObject(tx, verifObjRow{id: verifULIDString(i + 1), bucket: "bucket", key: keys[i], etag: "e", size: 1, isLatest: true, createdAt: 1600000001, updatedAt: 1600000001})
	}
	prefix := verifC06Key("prefix", verifPick("prefixlen", 0, verifParam("prefixlen", 1)))
	startAfter := verifC06Key("startAfter", verifPick("startlen", 0, 1))
	maxKeys := verifPick("maxKeys", 1, nobj)
	opts := metadatastore.ListObjectsOptions{Prefix: &prefix, StartAfter: &startAfter, MaxKeys: int32(maxKeys), SkipPartFetch: true}
	res, err := verifStore().ListObjects(verifCtx, tx, metadatastore.MustNewBucketName("bucket"), opts)
	verifAssert(err == nil, "C06: ListObjects failed")

	// reference: keys with the prefix byte-for-byte, strictly after startAfter
	want := 0
	for i := 0; i < nobj; i++ {
		if strings.HasPrefix(keys[i], prefix) && keys[i] > startAfter {
			want++
		}
	}
	if verifKnown("C06-like-prefix-not-byte-exact", true) {
		return
	}
	for i, o := range res.Objects {
		k := o.Key.String()
		verifAssert(strings.HasPrefix(k, prefix), "C06: listing returned a key that does not start byte-for-byte with the prefix")
		verifAssert(k > startAfter, "C06: listing returned a key not after the start-after marker")
		if i > 0 {
			verifAssert(res.Objects[i-1].Key.String() < k, "C06: listing not strictly ascending (order or duplicate)")
		}
	}
	verifAssert(len(res.Objects) <= maxKeys, "C06: more keys than max-keys")
	if !res.IsTruncated {
		verifAssert(len(res.Objects) == want, "C06: untruncated listing is missing (or inventing) matching keys")
	} else {
		verifAssert(len(res.Objects) == maxKeys && want > maxKeys, "C06: truncated flag without a full page or without further keys")
	}
	verifCover("listed")
}
