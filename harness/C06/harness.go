package PKGNAME

// C06: listings are complete, ordered, duplicate-free and prefix-exact.

import (
	"strings"

	"github.com/jdillenkofer/pithos/internal/storage/metadatapart/metadatastore"
	"github.com/jdillenkofer/pithos/internal/storage/metadatapart/partstore"
)

func verifC06Key(name string, n int) string {
	s := verifString(name, n)
	for i := 0; i < n; i++ {
		verifAssume(verifInSet(s[i], "aAb_%/"))
	}
	return s
}

// VerifC06ListObjects: up to N current objects with symbolic keys; one
// ListObjects page without delimiter, symbolic prefix / start-after / max-keys.
func VerifC06ListObjects() {
	nobj := verifPick("objects", 1, verifParam("objects", 2))
	maxLen := verifParam("keylen", 2)
	tx := verifTx()
	verifInsertBucket(tx, "bucket", nil)
	keys := make([]string, nobj)
	for i := 0; i < nobj; i++ {
		keys[i] = verifC06Key("key", verifPick("keylen", 1, maxLen))
		for j := 0; j < i; j++ {
			verifAssume(!verifStrEq(keys[i], keys[j]))
		}
		verifInsertObject(tx, verifObjRow{id: verifULIDString(i + 1), bucket: "bucket", key: keys[i], etag: "e", size: 1, isLatest: true, createdAt: 1600000001, updatedAt: 1600000001})
	}
	prefix := verifC06Key("prefix", verifPick("prefixlen", 0, verifParam("prefixlen", 1)))
	startAfter := verifC06Key("startAfter", verifPick("startlen", 0, 1))
	maxKeys := verifPick("maxKeys", 1, nobj)
	opts := metadatastore.ListObjectsOptions{Prefix: &prefix, StartAfter: &startAfter, MaxKeys: int32(maxKeys), SkipPartFetch: true}
	res, err := verifStore().ListObjects(verifCtx, tx, metadatastore.MustNewBucketName("bucket"), opts)
	verifAssert(err == nil, "C06: ListObjects failed")

	// reference: keys with the prefix byte-for-byte, strictly after startAfter
	want := 0
	for i := 0; i < nobj; i++ {
		if strings.HasPrefix(keys[i], prefix) && keys[i] > startAfter {
			want++
		}
	}
	if verifKnown("C06-like-prefix-not-byte-exact", true) {
		return
	}
	for i, o := range res.Objects {
		k := o.Key.String()
		verifAssert(strings.HasPrefix(k, prefix), "C06: listing returned a key that does not start byte-for-byte with the prefix")
		verifAssert(k > startAfter, "C06: listing returned a key not after the start-after marker")
		if i > 0 {
			verifAssert(res.Objects[i-1].Key.String() < k, "C06: listing not strictly ascending (order or duplicate)")
		}
	}
	verifAssert(len(res.Objects) <= maxKeys, "C06: more keys than max-keys")
	if !res.IsTruncated {
		verifAssert(len(res.Objects) == want, "C06: untruncated listing is missing (or inventing) matching keys")
	} else {
		verifAssert(len(res.Objects) == maxKeys && want > maxKeys, "C06: truncated flag without a full page or without further keys")
	}
	verifCover("listed")
}

// ---- ListObjectVersions: following the markers ----------------------------------------

var verifC06Menu = []string{"a", "a/one", "a/two", "b", "b/one", "c"}

type verifC06Row struct{ key, vid string }

// order of the listing: key ascending, then newest version first ("null" is the oldest)
func verifC06Before(x, y verifC06Row) bool {
	if x.key != y.key {
		return x.key < y.key
	}
	xv, yv := x.vid, y.vid
	if xv == "null" {
		xv = ""
	}
	if yv == "null" {
		yv = ""
	}
	return xv > yv
}

// VerifC06VersionsPaginate: rows drawn from a menu of keys (a key drawn twice has
// two versions; the first row may be the null version), every prefix/delimiter/
// max-keys combination; ListObjectVersions is followed through NextKeyMarker /
// NextVersionIdMarker until IsTruncated is false. The concatenated pages must be
// exactly the matching versions, each once, in S3 order, with every common
// prefix reported once.
func VerifC06VersionsPaginate() {
	nrows := verifParam("rows", 3)
	tx := verifTx()
	enabled := "Enabled"
	verifInsertBucket(tx, "bucket", &enabled)
	rows := make([]verifC06Row, nrows)
	for i := 0; i < nrows; i++ {
		rows[i].key = verifC06Menu[verifPick("key", 0, len(verifC06Menu)-1)]
		rows[i].vid = verifULIDString(i + 1)
		if i == 0 && verifBool("null-version") {
			rows[i].vid = "null"
		}
		vid := rows[i].vid
		verifInsertObject(tx, verifObjRow{id: verifULIDString(100 + i), bucket: "bucket", key: rows[i].key, etag: "e", size: 1, versionID: &vid, createdAt: 1600000001 + int64(i), updatedAt: 1600000001 + int64(i)})
	}
	prefix := []string{"", "a", "a/", "b"}[verifPick("prefix", 0, 3)]
	delimiter := []string{"", "/"}[verifPick("delimiter", 0, 1)]
	maxKeys := verifPick("maxKeys", 1, 2)

	// reference
	sorted := append([]verifC06Row(nil), rows...)
	for i := 1; i < len(sorted); i++ {
		for j := i; j > 0 && verifC06Before(sorted[j], sorted[j-1]); j-- {
			sorted[j], sorted[j-1] = sorted[j-1], sorted[j]
		}
	}
	var wantVersions []verifC06Row
	var wantPrefixes []string
	for _, r := range sorted {
		if !strings.HasPrefix(r.key, prefix) {
			continue
		}
		rest := r.key[len(prefix):]
		if i := strings.Index(rest, delimiter); delimiter != "" && i >= 0 {
			cp := prefix + rest[:i+len(delimiter)]
			if len(wantPrefixes) == 0 || wantPrefixes[len(wantPrefixes)-1] != cp {
				wantPrefixes = append(wantPrefixes, cp)
			}
			continue
		}
		wantVersions = append(wantVersions, r)
	}

	var gotVersions []verifC06Row
	var gotPrefixes []string
	var keyMarker, versionMarker *string
	done := false
	for page := 0; page < nrows+2 && !done; page++ {
		opts := metadatastore.ListObjectVersionsOptions{Prefix: &prefix, Delimiter: &delimiter, KeyMarker: keyMarker, VersionIDMarker: versionMarker, MaxKeys: int32(maxKeys)}
		res, err := verifStore().ListObjectVersions(verifCtx, tx, metadatastore.MustNewBucketName("bucket"), opts)
		verifAssert(err == nil, "C06: ListObjectVersions failed")
		verifAssert(len(res.Versions)+len(res.CommonPrefixes) <= maxKeys, "C06: a ListObjectVersions page holds more than max-keys entries")
		for _, v := range res.Versions {
			gotVersions = append(gotVersions, verifC06Row{v.Key.String(), v.VersionID})
		}
		gotPrefixes = append(gotPrefixes, res.CommonPrefixes...)
		if !res.IsTruncated {
			done = true
			break
		}
		verifAssert(res.NextKeyMarker != nil, "C06: truncated ListObjectVersions page without a next key marker")
		verifAssert(len(res.Versions)+len(res.CommonPrefixes) > 0, "C06: truncated ListObjectVersions page without entries")
		keyMarker, versionMarker = res.NextKeyMarker, res.NextVersionIDMarker
		if page > 0 {
			verifCover("third-page")
		}
	}
	verifAssert(done, "C06: following the ListObjectVersions markers does not terminate")
	verifAssert(len(gotVersions) == len(wantVersions), "C06: the ListObjectVersions pages miss, repeat or invent a version")
	for i := range gotVersions {
		verifAssert(gotVersions[i] == wantVersions[i], "C06: the ListObjectVersions pages are not the matching versions in S3 order")
	}
	verifAssert(len(gotPrefixes) == len(wantPrefixes), "C06: the ListObjectVersions pages miss, repeat or invent a common prefix")
	for i := range gotPrefixes {
		verifAssert(gotPrefixes[i] == wantPrefixes[i], "C06: the ListObjectVersions pages report other common prefixes than the keys have")
	}
	verifCover("versions-paginated")
}

// ---- ListMultipartUploads / ListParts: following the markers ----------------------------

type verifC06Upload struct{ key, id string }

func verifC06Part(n int) partstore.PartId {
	b := make([]byte, 16)
	b[5] = 7
	b[15] = byte(n + 1)
	id, err := partstore.NewPartIdFromBytes(b)
	verifMust(err)
	return *id
}

// VerifC06UploadsPaginate: pending uploads on keys drawn from the menu (a key
// drawn twice has two uploads), every prefix/delimiter/max-uploads combination;
// ListMultipartUploads is followed through NextKeyMarker/NextUploadIdMarker until
// IsTruncated is false. The concatenated pages must be exactly the matching
// uploads, each once, ordered by key then upload id, with every common prefix
// reported once.
func VerifC06UploadsPaginate() {
	n := verifParam("rows", 3)
	verifUlidSeq, verifClockSeq = 0, 0
	tx := verifTx()
	verifInsertBucket(tx, "bucket", nil)
	sms := verifStore()
	bucket := metadatastore.MustNewBucketName("bucket")
	ups := make([]verifC06Upload, n)
	for i := 0; i < n; i++ {
		k := verifC06Menu[verifPick("key", 0, len(verifC06Menu)-1)]
		res, err := sms.CreateMultipartUpload(verifCtx, tx, bucket, metadatastore.MustNewObjectKey(k), nil, nil, nil)
		verifAssert(err == nil, "C06: CreateMultipartUpload failed")
		ups[i] = verifC06Upload{k, res.UploadId.String()}
	}
	prefix := []string{"", "a", "a/", "b"}[verifPick("prefix", 0, 3)]
	delimiter := []string{"", "/"}[verifPick("delimiter", 0, 1)]
	maxUploads := verifPick("maxUploads", 1, 2)

	sorted := append([]verifC06Upload(nil), ups...)
	for i := 1; i < len(sorted); i++ {
		for j := i; j > 0 && (sorted[j].key < sorted[j-1].key || (sorted[j].key == sorted[j-1].key && sorted[j].id < sorted[j-1].id)); j-- {
			sorted[j], sorted[j-1] = sorted[j-1], sorted[j]
		}
	}
	var wantUploads []verifC06Upload
	var wantPrefixes []string
	for _, r := range sorted {
		if !strings.HasPrefix(r.key, prefix) {
			continue
		}
		rest := r.key[len(prefix):]
		if i := strings.Index(rest, delimiter); delimiter != "" && i >= 0 {
			cp := prefix + rest[:i+len(delimiter)]
			if len(wantPrefixes) == 0 || wantPrefixes[len(wantPrefixes)-1] != cp {
				wantPrefixes = append(wantPrefixes, cp)
			}
			continue
		}
		wantUploads = append(wantUploads, r)
	}

	var gotUploads []verifC06Upload
	var gotPrefixes []string
	keyMarker, idMarker := "", ""
	done := false
	for page := 0; page < n+2 && !done; page++ {
		opts := metadatastore.ListMultipartUploadsOptions{Prefix: &prefix, Delimiter: &delimiter, KeyMarker: &keyMarker, UploadIdMarker: &idMarker, MaxUploads: int32(maxUploads)}
		res, err := sms.ListMultipartUploads(verifCtx, tx, bucket, opts)
		verifAssert(err == nil, "C06: ListMultipartUploads failed")
		verifAssert(len(res.Uploads) <= maxUploads, "C06: a ListMultipartUploads page holds more than max-uploads uploads")
		for _, u := range res.Uploads {
			gotUploads = append(gotUploads, verifC06Upload{u.Key.String(), u.UploadId.String()})
		}
		gotPrefixes = append(gotPrefixes, res.CommonPrefixes...)
		if !res.IsTruncated {
			done = true
			break
		}
		keyMarker, idMarker = res.NextKeyMarker, res.NextUploadIdMarker
	}
	verifAssert(done, "C06: following the ListMultipartUploads markers does not terminate")
	verifAssert(len(gotUploads) == len(wantUploads), "C06: the ListMultipartUploads pages miss, repeat or invent an upload")
	for i := range gotUploads {
		verifAssert(gotUploads[i] == wantUploads[i], "C06: the ListMultipartUploads pages are not the matching uploads in key / upload-id order")
	}
	verifAssert(len(gotPrefixes) == len(wantPrefixes), "C06: the ListMultipartUploads pages miss, repeat or invent a common prefix")
	for i := range gotPrefixes {
		verifAssert(gotPrefixes[i] == wantPrefixes[i], "C06: the ListMultipartUploads pages report other common prefixes than the keys have")
	}
	verifCover("uploads-paginated")
}

// VerifC06PartsPaginate: a pending upload with parts at symbolic-chosen part
// numbers (gaps allowed); ListParts is followed through NextPartNumberMarker.
func VerifC06PartsPaginate() {
	verifUlidSeq, verifClockSeq = 0, 0
	tx := verifTx()
	verifInsertBucket(tx, "bucket", nil)
	sms := verifStore()
	bucket := metadatastore.MustNewBucketName("bucket")
	key := metadatastore.MustNewObjectKey("k")
	up, err := sms.CreateMultipartUpload(verifCtx, tx, bucket, key, nil, nil, nil)
	verifAssert(err == nil, "C06: CreateMultipartUpload failed")
	var want []int32
	for pn := int32(1); pn <= 4; pn++ {
		if !verifBool("has-part") {
			continue
		}
		_, err := sms.UploadPart(verifCtx, tx, bucket, key, up.UploadId, pn, metadatastore.Part{Id: verifC06Part(int(pn)), ETag: "aa", Size: 1})
		verifAssert(err == nil, "C06: UploadPart failed")
		want = append(want, pn)
	}
	maxParts := verifPick("maxParts", 1, 3)
	var got []int32
	var marker *string
	done := false
	for page := 0; page < 6 && !done; page++ {
		res, err := sms.ListParts(verifCtx, tx, bucket, key, up.UploadId, metadatastore.ListPartsOptions{PartNumberMarker: marker, MaxParts: int32(maxParts)})
		verifAssert(err == nil, "C06: ListParts failed")
		verifAssert(len(res.Parts) <= maxParts, "C06: a ListParts page holds more than max-parts parts")
		for _, p := range res.Parts {
			got = append(got, p.PartNumber)
		}
		if !res.IsTruncated {
			done = true
			break
		}
		verifAssert(res.NextPartNumberMarker != nil, "C06: truncated ListParts page without a next marker")
		marker = res.NextPartNumberMarker
	}
	verifAssert(done, "C06: following the ListParts markers does not terminate")
	verifAssert(len(got) == len(want), "C06: the ListParts pages miss, repeat or invent a part")
	for i := range got {
		verifAssert(got[i] == want[i], "C06: the ListParts pages are not the uploaded parts in part-number order")
	}
	verifCover("parts-paginated")
}
