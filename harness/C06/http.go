package PKGNAME

// C06 at the HTTP layer: Server.listAndFilterObjects is what both ListObjects
// (v1, marker) and ListObjectsV2 (continuation token) call and whose second
// result they hand back as NextMarker / NextContinuationToken. The real function
// runs over the real metadataPartStorage + sqlMetadataStore + SQLite repositories
// (sqlsym); the returned marker is fed back as StartAfter until IsTruncated is
// false. The concatenated pages must hold every matching key exactly once in
// ascending order and every common prefix exactly once.

import (
	"bytes"
	"encoding/xml"
	dbsql "database/sql"
	"io"
	"net/http"
	"net/url"
	"strings"
	"time"

	"github.com/jdillenkofer/pithos/internal/http/server/authorization"
	"github.com/jdillenkofer/pithos/internal/storage"
	"github.com/jdillenkofer/pithos/internal/storage/database"
	repositoryfactory "github.com/jdillenkofer/pithos/internal/storage/database/repository"
	"github.com/jdillenkofer/pithos/internal/storage/metadatapart"
	sqlstore "github.com/jdillenkofer/pithos/internal/storage/metadatapart/metadatastore/sql"
	"github.com/jdillenkofer/pithos/internal/storage/metadatapart/partstore"
	"github.com/oklog/ulid/v2"
	"go.opentelemetry.io/otel"
)

func verifMust(err error) {
	if err != nil {
		panic(err)
	}
}

var verifUlidSeq uint64
var verifClockSeq int64

func verifStubUlidMake() ulid.ULID {
	verifUlidSeq++
	var id ulid.ULID
	id[5] = 1
	id[14] = byte(verifUlidSeq >> 8)
	id[15] = byte(verifUlidSeq)
	return id
}

func verifStubNow() time.Time {
	verifClockSeq++
	return time.Unix(1700000000+verifClockSeq, 0).UTC()
}

func verifStubRemoteIP(r *http.Request) string { return "10.0.0.1" }

type verifC06Allow struct{}

func (verifC06Allow) AuthorizeRequest(ctx contextT, request *authorization.Request) (bool, error) {
	return true, nil
}

type verifC06NoParts struct{}

func (verifC06NoParts) Start(ctx contextT) error { return nil }
func (verifC06NoParts) Stop(ctx contextT) error  { return nil }
func (verifC06NoParts) PutPart(ctx contextT, tx database.Tx, id partstore.PartId, r io.Reader) error {
	return nil
}
func (verifC06NoParts) GetPart(ctx contextT, tx database.Tx, id partstore.PartId) (io.ReadCloser, error) {
	return io.NopCloser(bytes.NewReader(nil)), nil
}
func (verifC06NoParts) GetPartIds(ctx contextT, tx database.Tx) ([]partstore.PartId, error) {
	return nil, nil
}
func (verifC06NoParts) DeletePart(ctx contextT, tx database.Tx, id partstore.PartId) error { return nil }

var verifC06Keys = []string{"a", "a/a/x", "a/one", "b", "b/one", "c"} // sorted; a/a/x: a segment made of the prefix's own characters

func verifC06ULID(n int) string {
	var id ulid.ULID
	id[5] = 2
	id[15] = byte(n)
	return id.String()
}

func verifC06Stack() (*Server, database.Database) {
	verifUlidSeq, verifClockSeq = 0, 0
	db := verifNewDB()
	b, err := repositoryfactory.NewBucketRepository(db)
	verifMust(err)
	o, err := repositoryfactory.NewObjectRepository(db)
	verifMust(err)
	p, err := repositoryfactory.NewPartRepository(db)
	verifMust(err)
	t, err := repositoryfactory.NewTagRepository(db)
	verifMust(err)
	u, err := repositoryfactory.NewUserMetadataRepository(db)
	verifMust(err)
	ms, err := sqlstore.New(db, b, o, p, t, u)
	verifMust(err)
	st, err := metadatapart.NewStorageWithNamedPartStores(db, ms, verifC06NoParts{}, nil, nil)
	verifMust(err)
	return &Server{requestAuthorizer: verifC06Allow{}, storage: st, tracer: otel.Tracer("verif")}, db
}

func verifC06Insert(db database.Database, keys []string) {
	verifMust(database.WithTx(verifBg, db, nil, func(ctx contextT, tx database.Tx) error {
		_, err := tx.SqlTx().ExecContext(ctx, "INSERT INTO buckets (id, name, created_at, updated_at, versioning_status) VALUES ($1, $2, $3, $4, $5)",
			verifC06ULID(200), "bucket", time.Unix(1600000000, 0).UTC(), time.Unix(1600000000, 0).UTC(), (*string)(nil))
		verifMust(err)
		for i, k := range keys {
			null := "null"
			_, err := tx.SqlTx().ExecContext(ctx, "INSERT INTO objects (id, bucket_name, key, etag, size, upload_status, upload_id, created_at, updated_at, version_id, is_delete_marker, is_latest, optimistic_lock_version) VALUES ($1, $2, $3, $4, $5, $6, $7, $8, $9, $10, $11, $12, $13)",
				verifC06ULID(i+1), "bucket", k, "e", int64(1), "COMPLETED", (*string)(nil), time.Unix(1600000001, 0).UTC(), time.Unix(1600000001, 0).UTC(), &null, false, true, int64(1))
			verifMust(err)
		}
		return nil
	}))
}

// response capture: writeXMLResponse is redirected to this under the executor;
// natively the real XML is written and parsed back
var verifC06LastXML any

func verifStubWriteXML(w http.ResponseWriter, r *http.Request, statusCode int, response any) {
	verifC06LastXML = response
	w.WriteHeader(statusCode)
}

type verifC06Writer struct {
	h      http.Header
	status int
	body   []byte
}

func (w *verifC06Writer) Header() http.Header { return w.h }
func (w *verifC06Writer) WriteHeader(s int)   { w.status = s }
func (w *verifC06Writer) Write(p []byte) (int, error) {
	w.body = append(w.body, p...)
	return len(p), nil
}

// VerifC06HandlerParams: the two list handlers resolve their paging parameters as
// S3 does: ListObjectsV2 resumes after the continuation token when one is sent
// (start-after only seeds the first page), ListObjects resumes after the marker.
func VerifC06HandlerParams() {
	s, db := verifC06Stack()
	keys := []string{"k1", "k2", "k3", "k4", "k5"}
	verifC06Insert(db, keys)
	v2 := verifBool("v2")
	sa := verifPick("start-after", 0, 2) // 0 absent, else k<sa>
	tok := verifPick("resume-after", 0, 3)
	q := "max-keys=2"
	resume := 0
	if v2 {
		q += "&list-type=2"
	}
	if sa > 0 {
		q += "&start-after=k" + string(rune('0'+sa))
		resume = sa
	}
	if tok > 0 {
		if v2 {
			q += "&continuation-token=k" + string(rune('0'+tok))
		} else {
			q += "&marker=k" + string(rune('0'+tok))
		}
		resume = tok
	}
	r := &http.Request{Method: "GET", Header: http.Header{}, URL: &url.URL{Path: "/bucket", RawQuery: q}, Host: "s3.example", RemoteAddr: "10.0.0.1:1"}
	r.SetPathValue(bucketPath, "bucket")
	w := &verifC06Writer{h: http.Header{}}
	verifC06LastXML = nil
	if v2 {
		s.listObjectsV2Handler(w, r)
	} else {
		s.listObjectsHandler(w, r)
	}
	verifAssert(w.status == 200, "C06: a plain list request failed")
	var got []string
	truncated := false
	if verifNative() {
		var res ListBucketV2Result // both results share the element names read here
		verifMust(xml.Unmarshal(w.body, &res))
		for _, c := range res.Contents {
			got = append(got, c.Key)
		}
		truncated = res.IsTruncated
	} else if v2 {
		res := verifC06LastXML.(ListBucketV2Result)
		for _, c := range res.Contents {
			got = append(got, c.Key)
		}
		truncated = res.IsTruncated
	} else {
		res := verifC06LastXML.(ListBucketResult)
		for _, c := range res.Contents {
			got = append(got, c.Key)
		}
		truncated = res.IsTruncated
	}
	var want []string
	for i := resume; i < len(keys) && len(want) < 2; i++ {
		want = append(want, keys[i])
	}
	verifAssert(len(got) == len(want), "C06: the page does not resume after the marker / continuation token it was given")
	for i := range got {
		verifAssert(got[i] == want[i], "C06: the page does not resume after the marker / continuation token it was given")
	}
	verifAssert(truncated == (resume+2 < len(keys)), "C06: IsTruncated does not say whether keys remain")
	verifCover("handler-params")
}

func VerifC06ListObjectsPaginate() {
	s, db := verifC06Stack()
	// a set of distinct keys from the menu: key i is present or not
	var keys []string
	for _, k := range verifC06Keys {
		if verifBool("present") {
			keys = append(keys, k)
		}
	}
	verifC06Insert(db, keys)
	verifAssume(len(keys) >= 2)
	prefix := []string{"", "a", "a/", "b"}[verifPick("prefix", 0, 3)]
	delimiter := []string{"", "/"}[verifPick("delimiter", 0, 1)]
	maxKeys := verifPick("maxKeys", 1, 2)

	var wantKeys, wantPrefixes []string
	for _, k := range keys { // the menu is sorted
		if !strings.HasPrefix(k, prefix) {
			continue
		}
		rest := k[len(prefix):]
		if i := strings.Index(rest, delimiter); delimiter != "" && i >= 0 {
			cp := prefix + rest[:i+len(delimiter)]
			if len(wantPrefixes) == 0 || wantPrefixes[len(wantPrefixes)-1] != cp {
				wantPrefixes = append(wantPrefixes, cp)
			}
			continue
		}
		wantKeys = append(wantKeys, k)
	}

	r := &http.Request{Method: "GET", Header: http.Header{}, URL: &url.URL{Path: "/bucket"}, Host: "s3.example", RemoteAddr: "10.0.0.1:1"}
	bucket := storage.MustNewBucketName("bucket")
	// one page that holds everything: exactly the matching keys and common prefixes
	{
		res, _, err := s.listAndFilterObjects(verifBg, r, bucket, storage.ListObjectsOptions{Prefix: &prefix, Delimiter: &delimiter, MaxKeys: 1000})
		verifAssert(err == nil, "C06: ListObjects failed")
		verifAssert(!res.IsTruncated, "C06: a ListObjects page with room for everything is flagged truncated")
		verifAssert(len(res.Objects) == len(wantKeys), "C06: an untruncated ListObjects page misses or invents a key")
		for i := range res.Objects {
			verifAssert(res.Objects[i].Key.String() == wantKeys[i], "C06: an untruncated ListObjects page is not the matching keys in ascending order")
		}
		verifAssert(len(res.CommonPrefixes) == len(wantPrefixes), "C06: an untruncated ListObjects page misses or invents a common prefix")
		for i := range res.CommonPrefixes {
			verifAssert(res.CommonPrefixes[i] == wantPrefixes[i], "C06: an untruncated ListObjects page groups other keys than those containing the delimiter after the prefix")
		}
		verifCover("single-page")
	}
	var gotKeys, gotPrefixes []string
	var startAfter *string
	done := false
	for page := 0; page < len(verifC06Keys)+2 && !done; page++ {
		res, next, err := s.listAndFilterObjects(verifBg, r, bucket, storage.ListObjectsOptions{Prefix: &prefix, Delimiter: &delimiter, StartAfter: startAfter, MaxKeys: int32(maxKeys)})
		verifAssert(err == nil, "C06: ListObjects failed")
		verifAssert(len(res.Objects) <= maxKeys, "C06: a ListObjects page holds more than max-keys keys")
		for _, ob := range res.Objects {
			gotKeys = append(gotKeys, ob.Key.String())
		}
		gotPrefixes = append(gotPrefixes, res.CommonPrefixes...)
		if !res.IsTruncated {
			done = true
			break
		}
		verifAssert(next != nil, "C06: truncated ListObjects page without a next marker")
		startAfter = next
		if page > 0 {
			verifCover("third-page")
		}
	}
	// region of the open finding: some matching key is rolled up into a common prefix
	if verifKnown("C06-listobjects-delimiter-pagination", len(wantPrefixes) > 0) {
		return
	}
	verifAssert(done, "C06: following the ListObjects markers does not terminate")
	verifAssert(len(gotKeys) == len(wantKeys), "C06: the ListObjects pages miss, repeat or invent a key")
	for i := range gotKeys {
		verifAssert(gotKeys[i] == wantKeys[i], "C06: the ListObjects pages are not the matching keys in ascending order")
	}
	verifAssert(len(gotPrefixes) == len(wantPrefixes), "C06: the ListObjects pages miss, repeat or invent a common prefix")
	for i := range gotPrefixes {
		verifAssert(gotPrefixes[i] == wantPrefixes[i], "C06: the ListObjects pages report other common prefixes than the keys have")
	}
	verifCover("objects-paginated")
}

var _ = dbsql.ErrNoRows
