package PKGNAME

// C24: the conditional (bucket-routing) middleware touches only the storage
// configured for the bucket, ListBuckets is the duplicate-free union, and a
// cross-storage copy hands the destination the same content type, metadata,
// tags and storage class a same-storage copy produces.
//
// The three storages are recording doubles generated from the method set of
// storage.Storage, so the sweep covers every interface method of the current
// tree.

import (
	"bytes"
	"io"
	"time"

	"github.com/jdillenkofer/pithos/internal/storage"
)

var verifBucketNames = []string{"bucket-a", "bucket-b", "bucket-other"}

type verifRouting struct {
	a, b, d *verifDouble
	mw      storage.Storage
}

func verifNewRouting() *verifRouting {
	r := &verifRouting{a: &verifDouble{name: "a"}, b: &verifDouble{name: "b"}, d: &verifDouble{name: "default"}}
	mw, err := NewStorageMiddleware(map[string]storage.Storage{"bucket-a": r.a, "bucket-b": r.b}, r.d)
	if err != nil {
		panic(err)
	}
	r.mw = mw
	return r
}

func (r *verifRouting) byClass(c int) *verifDouble {
	switch c {
	case 0:
		return r.a
	case 1:
		return r.b
	}
	return r.d
}

// VerifC24Routing: every interface method with bucket arguments from any of
// the three routing classes reaches only the storage of its bucket.
func VerifC24Routing() {
	r := verifNewRouting()
	n := len(verifMethodNames)
	verifAssert(n >= 35, "storage.Storage method set unexpectedly small")
	i := verifPick("method", 0, n-1)
	name := verifMethodNames[i]
	c1, c2 := verifPick("bucket-class", 0, 2), verifPick("bucket2-class", 0, 2)
	args := verifArgs{bucket: storage.MustNewBucketName(verifBucketNames[c1]), bucket2: storage.MustNewBucketName(verifBucketNames[c2]),
		key: storage.MustNewObjectKey("k"), key2: storage.MustNewObjectKey("k2"), upload: storage.MustNewUploadId("u"), body: []byte("x")}
	switch name {
	case "Start", "Stop", "ListBuckets":
		return // no bucket argument: fan-out methods, checked separately
	}
	verifInvoke(r.mw, i, args)
	want := r.byClass(c1)
	twoBuckets := name == "CopyObject" || name == "UploadPartCopy"
	if twoBuckets && c1 != c2 {
		// cross-storage copy: reads go to the source's storage, writes to the
		// destination's, nothing reaches the third
		verifCover("cross-storage")
		src, dst := r.byClass(c1), r.byClass(c2)
		for _, c := range src.calls {
			verifAssert(c.Method == "HeadObject" || c.Method == "GetObject", "a cross-storage copy mutated the source storage")
			verifAssert(len(c.Buckets) == 1 && c.Buckets[0] == verifBucketNames[c1], "source read names a different bucket")
		}
		for _, c := range dst.calls {
			verifAssert(c.Method == "PutObject" || c.Method == "UploadPart", "a cross-storage copy called an unexpected method on the destination")
			verifAssert(len(c.Buckets) == 1 && c.Buckets[0] == verifBucketNames[c2], "destination write names a different bucket")
		}
		verifAssert(len(src.calls) >= 1 && len(dst.calls) == 1, "cross-storage copy did not read the source and write the destination once")
		third := r.byClass(3 - c1 - c2)
		verifAssert(len(third.calls) == 0, "an unrelated storage was touched")
		return
	}
	verifCover("routed")
	for _, d := range []*verifDouble{r.a, r.b, r.d} {
		if d == want {
			verifAssert(len(d.calls) == 1 && d.calls[0].Method == name, "the bucket's storage did not receive exactly the forwarded call")
			verifAssert(d.calls[0].Buckets[0] == verifBucketNames[c1], "the forwarded call names a different bucket")
			if twoBuckets {
				verifAssert(d.calls[0].Buckets[1] == verifBucketNames[c2], "the forwarded call names a different second bucket")
			}
		} else {
			verifAssert(len(d.calls) == 0, "a storage not configured for the bucket was touched")
		}
	}
}

// VerifC24ListBuckets: the listing is the sorted, duplicate-free union of the
// buckets each storage holds.
func VerifC24ListBuckets() {
	r := verifNewRouting()
	mk := func(has bool, names ...string) func(ctx contextT) ([]storage.Bucket, error) {
		return func(ctx contextT) ([]storage.Bucket, error) {
			if !has {
				return nil, nil
			}
			var out []storage.Bucket
			for _, n := range names {
				out = append(out, storage.Bucket{Name: storage.MustNewBucketName(n)})
			}
			return out, nil
		}
	}
	ha, hb, hd := verifBool("a-has"), verifBool("b-has"), verifBool("d-has")
	r.a.fnListBuckets = mk(ha, "bucket-a")
	r.b.fnListBuckets = mk(hb, "bucket-b")
	r.d.fnListBuckets = mk(hd, "bucket-other", "aaa")
	got, err := r.mw.ListBuckets(verifBg)
	verifAssert(err == nil, "ListBuckets failed")
	want := 0
	if ha {
		want++
	}
	if hb {
		want++
	}
	if hd {
		want += 2
	}
	verifAssert(len(got) == want, "ListBuckets is not the union of all storages")
	for i := 1; i < len(got); i++ {
		verifAssert(got[i-1].Name.String() < got[i].Name.String(), "ListBuckets is not sorted / has duplicates")
	}
	verifCover("listed")
}

// VerifC24CrossCopy: what the destination storage is asked to store by a
// cross-storage CopyObject equals what a same-storage copy produces (the S3
// rules of C11).
func VerifC24CrossCopy() {
	r := verifNewRouting()
	ct, cc, rd := "text/src", "max-age=9", "/src-redirect"
	srcObj := &storage.Object{Key: storage.MustNewObjectKey("k"), ETag: "etag-src", Size: 1, LastModified: time.Unix(1700000000, 0),
		Metadata: storage.ObjectMetadata{CacheControl: &cc, UserMetadata: map[string]string{"alpha": "1"}}}
	if verifBool("src-ct") {
		srcObj.ContentType = &ct
	}
	if verifBool("src-redirect") {
		srcObj.Metadata.WebsiteRedirectLocation = &rd
	}
	if verifBool("src-tags") {
		srcObj.Tags = map[string]string{"t": "src"}
	}
	if verifBool("src-class") {
		c := "GLACIER"
		srcObj.StorageClass = &c
	}
	r.a.fnHeadObject = func(ctx contextT, b storage.BucketName, k storage.ObjectKey, o *storage.HeadObjectOptions) (*storage.Object, error) {
		cp := *srcObj
		return &cp, nil
	}
	r.a.fnGetObject = func(ctx contextT, b storage.BucketName, k storage.ObjectKey, rg []storage.ByteRange, o *storage.GetObjectOptions) (*storage.Object, []io.ReadCloser, error) {
		cp := *srcObj
		return &cp, []io.ReadCloser{io.NopCloser(bytes.NewReader([]byte("x")))}, nil
	}
	var gotCT *string
	var gotOpts *storage.PutObjectOptions
	var gotBody []byte
	etag := "etag-dst"
	r.b.fnPutObject = func(ctx contextT, b storage.BucketName, k storage.ObjectKey, contentType *string, data io.Reader, ci *storage.ChecksumInput, o *storage.PutObjectOptions) (*storage.PutObjectResult, error) {
		gotCT, gotOpts = contentType, o
		gotBody, _ = io.ReadAll(data)
		return &storage.PutObjectResult{ETag: &etag}, nil
	}
	rct, rlang, rrd, rclass := "text/req", "de", "/req-redirect", "STANDARD_IA"
	var opts *storage.CopyObjectOptions
	if !verifBool("nil-opts") {
		opts = &storage.CopyObjectOptions{ReplaceMetadata: verifBool("replace-metadata"), ReplaceTags: verifBool("replace-tags"), ContentType: &rct,
			Tags: map[string]string{"t": "req", "u": "req"}}
		if verifBool("req-metadata") {
			m := storage.ObjectMetadata{ContentLanguage: &rlang}
			if verifBool("req-redirect") {
				m.WebsiteRedirectLocation = &rrd
			}
			opts.Metadata = &m
		}
		if verifBool("req-class") {
			opts.StorageClass = &rclass
		}
	}
	// copy-source preconditions: the same-storage rules (S3)
	lm := srcObj.LastModified
	wantFail := false
	if opts != nil {
		offs := []time.Duration{-time.Second, 0, time.Second}
		switch verifPick("condition", 0, 4) {
		case 1: // If-Modified-Since: fails unless modified strictly after
			t := lm.Add(offs[verifPick("ims", 0, 2)])
			opts.CopySourceConditions.IfModifiedSince = &t
			wantFail = !lm.After(t)
		case 2: // If-Unmodified-Since: fails if modified after
			t := lm.Add(offs[verifPick("ius", 0, 2)])
			opts.CopySourceConditions.IfUnmodifiedSince = &t
			wantFail = lm.After(t)
		case 3: // If-Match (a passing If-Match overrides If-Unmodified-Since)
			e := []string{"etag-src", "other", "*"}[verifPick("if-match", 0, 2)]
			opts.CopySourceConditions.IfMatch = &e
			t := lm.Add(-time.Second)
			opts.CopySourceConditions.IfUnmodifiedSince = &t
			wantFail = e == "other"
		case 4: // If-None-Match
			e := []string{"etag-src", "other", "*"}[verifPick("if-none-match", 0, 2)]
			opts.CopySourceConditions.IfNoneMatch = &e
			wantFail = e != "other"
		}
	}
	_, err := r.mw.CopyObject(verifBg, storage.MustNewBucketName("bucket-a"), storage.MustNewObjectKey("k"), storage.MustNewBucketName("bucket-b"), storage.MustNewObjectKey("k2"), opts)
	if wantFail {
		verifCover("precondition-failed")
		verifAssert(err == storage.ErrPreconditionFailed, "cross-storage copy: a failing copy-source precondition did not stop the copy")
		verifAssert(len(r.b.calls) == 0, "cross-storage copy wrote the destination although a copy-source precondition failed")
		return
	}
	verifAssert(err == nil, "cross-storage CopyObject failed")
	verifAssert(len(gotBody) == 1 && gotBody[0] == 'x', "cross-storage copy stored a different body")

	// reference: the same-storage copy rules
	var wantCT *string
	var wantMeta storage.ObjectMetadata
	var wantTags map[string]string
	var wantClass *string
	if opts != nil && opts.ReplaceMetadata {
		wantCT = opts.ContentType
		if opts.Metadata != nil {
			wantMeta = *opts.Metadata
		}
	} else {
		wantCT, wantMeta = srcObj.ContentType, srcObj.Metadata
		wantMeta.WebsiteRedirectLocation = nil
		if opts != nil && opts.Metadata != nil {
			wantMeta.WebsiteRedirectLocation = opts.Metadata.WebsiteRedirectLocation
		}
	}
	if opts != nil && opts.ReplaceTags {
		wantTags = opts.Tags
	} else {
		wantTags = srcObj.Tags
	}
	if opts != nil {
		wantClass = opts.StorageClass
	}
	verifCover("cross-copy")
	verifAssert(verifPtrEq(gotCT, wantCT), "cross-storage copy: content type differs from a same-storage copy")
	var gm storage.ObjectMetadata
	var gt map[string]string
	var gc *string
	if gotOpts != nil {
		gt, gc = gotOpts.Tags, gotOpts.StorageClass
		if gotOpts.Metadata != nil {
			gm = *gotOpts.Metadata
		}
		verifAssert(!gotOpts.IfNoneMatchStar && gotOpts.IfMatchETag == nil, "cross-storage copy added a write precondition")
	}
	verifAssert(verifPtrEq(gm.CacheControl, wantMeta.CacheControl) && verifPtrEq(gm.ContentLanguage, wantMeta.ContentLanguage), "cross-storage copy: system metadata differs from a same-storage copy")
	verifAssert(verifPtrEq(gm.WebsiteRedirectLocation, wantMeta.WebsiteRedirectLocation), "cross-storage copy: website redirect location differs from a same-storage copy")
	verifAssert(verifMapEq(gm.UserMetadata, wantMeta.UserMetadata), "cross-storage copy: user metadata differs from a same-storage copy")
	verifAssert(verifMapEq(gt, wantTags), "cross-storage copy: tags differ from a same-storage copy")
	verifAssert(verifPtrEq(gc, wantClass), "cross-storage copy: storage class differs from a same-storage copy")
}

func verifPtrEq(a, b *string) bool {
	if a == nil || b == nil {
		return a == nil && b == nil
	}
	return *a == *b
}

func verifMapEq(a, b map[string]string) bool {
	if len(a) != len(b) {
		return false
	}
	for k, v := range b {
		if w, ok := a[k]; !ok || w != v {
			return false
		}
	}
	return true
}

func verifStubNow() time.Time { return time.Unix(1700000100, 0).UTC() }
