package PKGNAME

// C16: seekable decryption of tink AES-GCM-HKDF streams: length arithmetic,
// segment selection, tiling of the ciphertext by authenticated segments and
// nonce construction. AES-GCM and HKDF themselves are assumed secure and are
// replaced by recording doubles.

import (
	"crypto/cipher"
	"errors"
	"io"
)

const (
	verifC16Hdr = 40 // 1 + 32 + 7
	verifC16Tag = 16
)

// ---- doubles -----------------------------------------------------------------

type verifC16Block struct{}

func (verifC16Block) BlockSize() int          { return 16 }
func (verifC16Block) Encrypt(dst, src []byte) {}
func (verifC16Block) Decrypt(dst, src []byte) {}

type verifC16Open struct {
	nonce  []byte
	ctLen  int
	opened int
}

// identity "AEAD": plaintext = ciphertext minus the 16-byte tag; records calls
type verifC16AEAD struct{ calls []verifC16Open }

func (a *verifC16AEAD) NonceSize() int { return 12 }
func (a *verifC16AEAD) Overhead() int  { return verifC16Tag }
func (a *verifC16AEAD) Seal(dst, nonce, plaintext, additionalData []byte) []byte {
	panic("not used")
}
func (a *verifC16AEAD) Open(dst, nonce, ciphertext, additionalData []byte) ([]byte, error) {
	a.calls = append(a.calls, verifC16Open{nonce: append([]byte(nil), nonce...), ctLen: len(ciphertext)})
	if len(ciphertext) < verifC16Tag {
		return nil, errors.New("short")
	}
	return append(dst, ciphertext[:len(ciphertext)-verifC16Tag]...), nil
}

var verifC16TheAEAD *verifC16AEAD
var verifC16NativeEncode func(p, css, base int64, aad []byte) []byte
var verifC16HKDFInfo []byte
var verifC16HKDFSalt []byte

func verifStubHKDF(hashAlg string, key []byte, salt []byte, info []byte, tagSize uint32) ([]byte, error) {
	verifC16HKDFInfo, verifC16HKDFSalt = info, salt
	return make([]byte, 32), nil
}
func verifStubNewCipher(key []byte) (cipher.Block, error) { return verifC16Block{}, nil }
func verifStubNewGCM(b cipher.Block, tagSize int) (cipher.AEAD, error) {
	if verifC16Strict {
		return &verifC16StrictAEAD{}, nil
	}
	verifC16TheAEAD = &verifC16AEAD{}
	return verifC16TheAEAD, nil
}

// reference layout of tink's writer: number of segments for P plaintext bytes
func verifC16Segments(p, css int64) int64 {
	pss := css - verifC16Tag
	first := pss - verifC16Hdr
	if p <= first {
		return 1
	}
	return 1 + (p-first+pss-1)/pss
}

// ---- A: arithmetic for all sizes (Int mode) -------------------------------------

type verifC16SymReader struct {
	base, end, pos int64
}

func (r *verifC16SymReader) Seek(off int64, whence int) (int64, error) {
	switch whence {
	case io.SeekEnd:
		r.pos = r.end + off
	case io.SeekStart:
		r.pos = off
	default:
		r.pos += off
	}
	return r.pos, nil
}

func (r *verifC16SymReader) Read(p []byte) (int, error) {
	for i := range p {
		p[i] = 0
	}
	if len(p) > 0 {
		p[0] = verifC16Hdr // header length byte
	}
	return len(p), nil
}

// VerifC16Layout: for every segment size and plaintext length, the reader
// recovers the plaintext length and segment count, every offset is mapped to
// the segment that contains it, and the ciphertext ranges of the segments tile
// [header, ciphertextLen) without gap or overlap.
func VerifC16Layout() {
	css := verifMathInt64("css")
	p := verifMathInt64("plaintextLen")
	base := verifMathInt64("base")
	verifAssume(css > verifC16Hdr+verifC16Tag && css <= 1<<20)
	verifAssume(p >= 0 && p <= 1<<40)
	verifAssume(base >= 0 && base <= 4096)
	nseg := verifC16Segments(p, css)
	ctLen := verifC16Hdr + p + verifC16Tag*nseg
	r := &verifC16SymReader{base: base, end: base + ctLen}
	aad := []byte("part-id-0123456")
	s, err := newSeekableDecryptingReader(r, base, make([]byte, 32), aad, int(css))
	verifAssert(err == nil, "C16: well-formed ciphertext rejected")
	verifAssert(s.plaintextLen == p, "C16: computed plaintext length differs from what was encrypted")
	verifAssert(s.numSegments == nseg, "C16: computed segment count differs from the writer's")
	if !verifNative() {
		verifAssert(len(verifC16HKDFInfo) == len(aad) && &verifC16HKDFInfo[0] == &aad[0], "C16: key derivation is not bound to the part id (AAD)")
	}

	// segment selection
	verifAssume(p > 0)
	off := verifMathInt64("off")
	verifAssume(off >= 0 && off < p)
	j := s.segmentForPlaintextOffset(off)
	start := s.plaintextStartOfSegment(j)
	next := s.plaintextStartOfSegment(j + 1)
	verifAssert(j >= 0 && j < nseg, "C16: offset mapped to a segment that does not exist")
	verifAssert(start <= off && off < next, "C16: offset not inside the selected segment")

	// ciphertext range of segment j as loadSegment computes it
	ctOff := j * css
	segLen := css
	if j == 0 {
		ctOff = verifC16Hdr
		segLen = css - verifC16Hdr
	}
	if ctLen-ctOff < segLen {
		segLen = ctLen - ctOff
	}
	verifAssert(segLen >= verifC16Tag, "C16: selected segment shorter than its tag")
	verifAssert(ctOff+segLen <= ctLen, "C16: segment range exceeds the ciphertext")
	verifAssert(off-start < segLen-verifC16Tag, "C16: offset beyond the decrypted segment")
	// tiling: the next segment (if any) starts exactly where this one ends, the last one ends at ctLen
	if j+1 < nseg {
		verifAssert(ctOff+segLen == (j+1)*css, "C16: gap or overlap between consecutive segments")
		verifCover("inner-segment")
	} else {
		verifAssert(ctOff+segLen == ctLen, "C16: last segment does not end at the end of the ciphertext")
		verifCover("last-segment")
	}
}

// ---- B: full Read/Seek flow on small streams -------------------------------------

type verifC16BytesReader struct {
	data []byte
	pos  int64
}

func (r *verifC16BytesReader) Seek(off int64, whence int) (int64, error) {
	switch whence {
	case io.SeekEnd:
		r.pos = int64(len(r.data)) + off
	case io.SeekStart:
		r.pos = off
	default:
		r.pos += off
	}
	return r.pos, nil
}

func (r *verifC16BytesReader) Read(p []byte) (int, error) {
	if r.pos >= int64(len(r.data)) {
		return 0, io.EOF
	}
	n := copy(p, r.data[r.pos:])
	r.pos += int64(n)
	return n, nil
}

func verifC16Plain(i int64) byte { return byte(i*7 + 3) }

// VerifC16ReadSeek: encode P bytes with the reference layout (identity cipher),
// seek to a symbolic offset and read to the end.
func VerifC16ReadSeek() {
	css := int64(verifPick("css", 57, 57+verifParam("cssRange", 2)))
	pss := css - verifC16Tag
	first := pss - verifC16Hdr
	cands := [9]int64{0, 1, first - 1, first, first + 1, first + pss - 1, first + pss, first + pss + 1, first + 2*pss}
	p := cands[verifPick("pIdx", 0, 8)]
	verifAssume(p >= 0)
	base := int64(verifPick("base", 0, 1))
	nseg := verifC16Segments(p, css)
	// reference encoder
	data := make([]byte, 0, 256)
	for i := int64(0); i < base; i++ {
		data = append(data, 0xEE)
	}
	data = append(data, verifC16Hdr)
	for i := 1; i < verifC16Hdr; i++ {
		data = append(data, byte(i))
	}
	var written int64
	for sg := int64(0); sg < nseg; sg++ {
		room := pss
		if sg == 0 {
			room = first
		}
		for k := int64(0); k < room && written < p; k++ {
			data = append(data, verifC16Plain(written))
			written++
		}
		for k := 0; k < verifC16Tag; k++ {
			data = append(data, 0xAA)
		}
	}
	verifAssert(written == p, "reference encoder")
	if verifNative() {
		// natively: tink's real writer; its output must have the reference length
		data = verifC16NativeEncode(p, css, base, []byte("id"))
		verifAssert(int64(len(data)) == base+verifC16Hdr+p+verifC16Tag*nseg, "C16: reference layout differs from tink's writer")
	}
	r := &verifC16BytesReader{data: data}
	s, err := newSeekableDecryptingReader(r, base, make([]byte, 32), []byte("id"), int(css))
	verifAssert(err == nil && s.plaintextLen == p, "C16: small stream rejected or length wrong")

	off := int64(0)
	if p > 0 {
		off = int64(verifPick("seek", 0, int(p)))
	}
	switch verifPick("whence", 0, 2) {
	case 0:
		s.Seek(off, io.SeekStart)
	case 1:
		s.Seek(3, io.SeekStart)
		s.Seek(off-3, io.SeekCurrent)
	case 2:
		s.Seek(off-p, io.SeekEnd)
	}
	buf := make([]byte, [3]int{1, 7, 64}[verifPick("buf", 0, 2)])
	got := int64(0)
	for k := 0; k < 200; k++ {
		n, e := s.Read(buf)
		for i := 0; i < n; i++ {
			verifAssert(buf[i] == verifC16Plain(off+got), "C16: byte after Seek differs from the plaintext at that offset")
			got++
		}
		if e == io.EOF {
			break
		}
		verifAssert(e == nil, "C16: read of an intact stream failed")
		verifAssert(n > 0, "C16: no progress")
	}
	verifAssert(off+got == p, "C16: Seek+Read did not deliver exactly the plaintext suffix")
	if verifNative() {
		return
	}
	// nonce binding: prefix || be32(segment) || last flag
	for _, c := range verifC16TheAEAD.calls {
		verifAssert(len(c.nonce) == 12, "C16: nonce size")
		for i := 0; i < 7; i++ {
			verifAssert(c.nonce[i] == byte(33+i), "C16: nonce prefix not taken from the stream header")
		}
		j := int64(c.nonce[7])<<24 | int64(c.nonce[8])<<16 | int64(c.nonce[9])<<8 | int64(c.nonce[10])
		verifAssert(j >= 0 && j < nseg, "C16: nonce names a segment that does not exist")
		last := c.nonce[11] == 1
		verifAssert(last == (j == nseg-1), "C16: last-segment flag wrong (truncation/extension would go unnoticed)")
	}
	if len(verifC16TheAEAD.calls) > 1 {
		verifCover("multi-segment")
	}
}

// ---- C: truncation / header tampering ---------------------------------------------

// strict AEAD model: a segment authenticates only under the nonce it was sealed
// with (the reference encoder writes segment index and last-flag into the tag)
type verifC16StrictAEAD struct{ verifC16AEAD }

func (a *verifC16StrictAEAD) Open(dst, nonce, ciphertext, additionalData []byte) ([]byte, error) {
	if len(ciphertext) < verifC16Tag {
		return nil, errors.New("short")
	}
	tag := ciphertext[len(ciphertext)-verifC16Tag:]
	if tag[0] != 0xA0|nonce[11] || tag[1] != nonce[10] {
		return nil, errors.New("cipher: message authentication failed")
	}
	for _, b := range tag[2:] {
		if b != 0xAA {
			return nil, errors.New("cipher: message authentication failed")
		}
	}
	return append(dst, ciphertext[:len(ciphertext)-verifC16Tag]...), nil
}

var verifC16Strict bool

func verifC16PlainLow(i int64) byte { return byte(i*7+3) & 0x7F }

// VerifC16Truncation: a stream cut at ANY byte position must not read as a
// complete (shorter) plaintext: reading to the end has to fail.
func VerifC16Truncation() {
	css := int64(57)
	pss := css - verifC16Tag
	first := pss - verifC16Hdr
	cands := [6]int64{0, 1, first, first + 1, first + pss, first + pss + 2}
	p := cands[verifPick("pIdx", 0, 5)]
	nseg := verifC16Segments(p, css)
	var data []byte
	if verifNative() {
		data = verifC16NativeEncode(p, css, 0, []byte("id"))
	} else {
		data = append(data, verifC16Hdr)
		for i := 1; i < verifC16Hdr; i++ {
			data = append(data, byte(i))
		}
		var written int64
		for sg := int64(0); sg < nseg; sg++ {
			room := pss
			if sg == 0 {
				room = first
			}
			for k := int64(0); k < room && written < p; k++ {
				data = append(data, verifC16PlainLow(written))
				written++
			}
			last := byte(0)
			if sg == nseg-1 {
				last = 1
			}
			data = append(data, 0xA0|last, byte(sg))
			for k := 2; k < verifC16Tag; k++ {
				data = append(data, 0xAA)
			}
		}
	}
	full := len(data)
	cut := verifPick("cut", 0, full-1)
	verifC16Strict = true
	r := &verifC16BytesReader{data: data[:cut]}
	s, err := newSeekableDecryptingReader(r, 0, make([]byte, 32), []byte("id"), int(css))
	verifC16Strict = false
	if err != nil {
		verifCover("rejected-at-open")
		return
	}
	buf := make([]byte, 64)
	var got int64
	var rerr error
	for k := 0; k < 20; k++ {
		n, e := s.Read(buf)
		got += int64(n)
		if e != nil {
			rerr = e
			break
		}
	}
	verifAssert(rerr != nil, "C16: truncated stream did not terminate")
	verifAssert(rerr != io.EOF, "C16: a truncated ciphertext was read to a clean EOF (shortened plaintext accepted)")
	verifCover("rejected-at-read")
}

// VerifC16HeaderByte: the leading header-length byte is not covered by any tag;
// any value other than the expected one must be rejected.
func VerifC16HeaderByte() {
	h := verifByte("headerByte")
	verifAssume(h != verifC16Hdr)
	data := make([]byte, verifC16Hdr+verifC16Tag)
	data[0] = h
	_, err := newSeekableDecryptingReader(&verifC16BytesReader{data: data}, 0, make([]byte, 32), []byte("id"), 4096)
	verifAssert(err != nil, "C16: modified header-length byte accepted")
}
