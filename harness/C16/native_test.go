package PKGNAME

import (
	"bytes"

	streamingaeadsubtle "github.com/google/tink/go/streamingaead/subtle"
)

func init() {
	// natively the stream is produced by tink's real writer (real AES-GCM-HKDF)
	verifC16NativeEncode = func(p, css, base int64, aad []byte) []byte {
		a, err := streamingaeadsubtle.NewAESGCMHKDF(make([]byte, 32), "SHA256", 32, int(css), 0)
		if err != nil {
			panic(err)
		}
		var buf bytes.Buffer
		for i := int64(0); i < base; i++ {
			buf.WriteByte(0xEE)
		}
		w, err := a.NewEncryptingWriter(&buf, aad)
		if err != nil {
			panic(err)
		}
		plain := make([]byte, p)
		for i := range plain {
			plain[i] = verifC16Plain(int64(i))
		}
		if _, err := w.Write(plain); err != nil {
			panic(err)
		}
		if err := w.Close(); err != nil {
			panic(err)
		}
		return buf.Bytes()
	}
}
