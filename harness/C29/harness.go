package PKGNAME

// C29: what the AWS SDK SigV4 signer signs is what pithos reconstructs. The
// canonical request pithos derives from a request as net/http delivers it is
// compared with a reference written from the SigV4 specification as the SDK
// implements it (httpbinding.EscapePath for the path, url.Values.Encode with
// "+" -> "%20" and per-key sorted values for the query, trimmed and
// space-collapsed header values), for arbitrary object keys, query parameters
// and header whitespace. HMAC/SHA-256 being injective, equal canonical
// requests are exactly "the signature verifies". Counterexamples are replayed
// against the real SDK signer and the real checkAuthentication.

import (
	"net/http"
	"net/url"
	"strings"
)

// verifNativeAccepts (native_test.go): sign with the real SDK, verify with the
// real checkAuthentication.
var verifNativeAccepts func(path, rawQuery string, hdr map[string]string) bool

const verifHex = "0123456789ABCDEF"

func verifUnreserved(c byte) bool {
	return (c >= 'A' && c <= 'Z') || (c >= 'a' && c <= 'z') || (c >= '0' && c <= '9') || c == '-' || c == '.' || c == '_' || c == '~'
}

// verifSDKEscapePath is httpbinding.EscapePath(path, false): everything but
// unreserved characters and '/' becomes %XX.
func verifSDKEscapePath(p string) string {
	out := make([]byte, 0, 3*len(p))
	for i := 0; i < len(p); i++ {
		c := p[i]
		if verifUnreserved(c) || c == '/' {
			out = append(out, c)
		} else {
			out = append(out, '%', verifHex[c>>4], verifHex[c&15])
		}
	}
	return string(out)
}

// verifSpecEncode is the SigV4 UriEncode of a query key or value.
func verifSpecEncode(s string) string {
	out := make([]byte, 0, 3*len(s))
	for i := 0; i < len(s); i++ {
		c := s[i]
		if verifUnreserved(c) {
			out = append(out, c)
		} else {
			out = append(out, '%', verifHex[c>>4], verifHex[c&15])
		}
	}
	return string(out)
}

// verifStripSpaces: trim and collapse runs of spaces (StripExcessSpaces + TrimSpace).
func verifStripSpaces(s string) string {
	out := make([]byte, 0, len(s))
	prevSpace := true // drops leading spaces
	for i := 0; i < len(s); i++ {
		c := s[i]
		if c == ' ' {
			if !prevSpace {
				out = append(out, ' ')
			}
			prevSpace = true
			continue
		}
		prevSpace = false
		out = append(out, c)
	}
	if n := len(out); n > 0 && out[n-1] == ' ' {
		out = out[:n-1]
	}
	return string(out)
}

func verifKeyBytes(name string, n int) string {
	b := make([]byte, n)
	for i := range b {
		c := verifByte(name)
		verifAssume(c != 0)
		b[i] = c
	}
	return string(b)
}

// VerifC29Path: arbitrary object keys.
func VerifC29Path() {
	key := verifKeyBytes("key", verifParam("keylen", 3))
	path := "/bucket/" + key
	wire := verifSDKEscapePath(path) // what the S3 client puts on the wire and signs
	r := &http.Request{Method: "GET", Host: "s3.example", Header: http.Header{}, URL: &url.URL{Path: path, RawPath: wire}}
	verifCover("path")
	if verifNative() {
		verifAssert(verifNativeAccepts(path, "", nil), "the canonical URI differs from the path the SDK signed")
		return
	}
	verifAssert(verifStrEq(generateCanonicalURI(r), wire), "the canonical URI differs from the path the SDK signed")
}

// VerifC29Query: arbitrary query parameters, including a repeated name.
func VerifC29Query() {
	k := verifKeyBytes("qk", 1)
	v1 := verifKeyBytes("qv", verifParam("vallen", 2))
	v2 := verifKeyBytes("qw", 1)
	vals := url.Values{}
	vals.Add(k, v1)
	two := verifBool("repeated")
	if two {
		vals.Add(k, v2)
	}
	// the SDK sends query.Encode() and signs it with "+" replaced by "%20",
	// values of one name sorted
	r := &http.Request{Method: "GET", Host: "s3.example", Header: http.Header{}, URL: &url.URL{Path: "/bucket/k", RawQuery: vals.Encode()}}
	a, b := v1, v2
	if two && b < a {
		a, b = b, a
	}
	want := verifSpecEncode(k) + "=" + verifSpecEncode(a)
	if two {
		want += "&" + verifSpecEncode(k) + "=" + verifSpecEncode(b)
	}
	verifCover("query")
	// known finding: pithos orders repeated values by their encoded form (the
	// order the SigV4 documentation prescribes), the Go SDK by their raw form
	rawOrder := v1 < v2
	encOrder := verifSpecEncode(v1) < verifSpecEncode(v2)
	if verifKnown("C29-repeated-query-values-sorted-after-encoding", two && rawOrder != encOrder && v1 != v2) {
		return
	}
	if verifNative() {
		verifAssert(verifNativeAccepts("/bucket/k", vals.Encode(), nil), "the canonical query string differs from the one the SDK signed")
		return
	}
	verifAssert(verifStrEq(generateCanonicalQueryString(r), want), "the canonical query string differs from the one the SDK signed")
}

// VerifC29Headers: signed header values with leading, trailing and inner
// whitespace. net/http strips leading and trailing whitespace of a field value
// when it reads the request; inner whitespace arrives unchanged.
func VerifC29Headers() {
	n := verifParam("hdrlen", 4)
	raw := make([]byte, n)
	for i := range raw {
		raw[i] = 'a'
		if verifBool("space") {
			raw[i] = ' '
		}
	}
	sent := string(raw)
	r := &http.Request{Method: "PUT", Host: "s3.example", Header: http.Header{}, URL: &url.URL{Path: "/bucket/k"}}
	r.Header["X-Amz-Meta-A"] = []string{strings.Trim(sent, " \t")}
	r.Header["X-Amz-Content-Sha256"] = []string{"UNSIGNED-PAYLOAD"}
	r.Header["X-Amz-Date"] = []string{"20260101T000000Z"}
	signed := []string{"host", "x-amz-content-sha256", "x-amz-date", "x-amz-meta-a"}
	want := "host:s3.example\nx-amz-content-sha256:UNSIGNED-PAYLOAD\nx-amz-date:20260101T000000Z\nx-amz-meta-a:" + verifStripSpaces(sent) + "\n"
	verifCover("headers")
	if verifNative() {
		verifAssert(verifNativeAccepts("/bucket/k", "", map[string]string{"X-Amz-Meta-A": sent}), "the canonical headers differ from the ones the SDK signed (whitespace)")
		return
	}
	verifAssert(verifStrEq(generateCanonicalHeaders(r, signed), want), "the canonical headers differ from the ones the SDK signed (whitespace)")
	verifAssert(generateSignedHeaders(r, signed) == "host;x-amz-content-sha256;x-amz-date;x-amz-meta-a", "signed header list differs")
}

// VerifC29TwoNames: two parameter names, one a prefix of the other (the order
// of such names is the same raw and encoded, so the known ordering finding does
// not apply).
func VerifC29TwoNames() {
	k1 := "a"
	k2 := "a" + verifKeyBytes("suffix", 1)
	vals := url.Values{}
	vals.Add(k2, "2")
	vals.Add(k1, "1")
	r := &http.Request{Method: "GET", Host: "s3.example", Header: http.Header{}, URL: &url.URL{Path: "/bucket/k", RawQuery: vals.Encode()}}
	want := verifSpecEncode(k1) + "=1&" + verifSpecEncode(k2) + "=2"
	verifCover("two-names")
	if verifNative() {
		verifAssert(verifNativeAccepts("/bucket/k", vals.Encode(), nil), "the canonical query string differs from the one the SDK signed (two names)")
		return
	}
	verifAssert(verifStrEq(generateCanonicalQueryString(r), want), "the canonical query string differs from the one the SDK signed (two names)")
}
