package PKGNAME

// Native side of C29: the request the model describes is signed by the real
// aws-sdk-go-v2 signer and checked by the real checkAuthentication.

import (
	"context"
	"net/http"
	"net/url"
	"strings"
	"time"

	"github.com/aws/aws-sdk-go-v2/aws"
	v4 "github.com/aws/aws-sdk-go-v2/aws/signer/v4"
)

func init() {
	verifNativeAccepts = func(path, rawQuery string, hdr map[string]string) bool {
		now := time.Now().UTC()
		u := &url.URL{Scheme: "http", Host: "s3.example", Path: path, RawPath: verifSDKEscapePath(path), RawQuery: rawQuery}
		req := &http.Request{Method: "PUT", URL: u, Host: "s3.example", Header: http.Header{}}
		for k, v := range hdr {
			req.Header.Set(k, v)
		}
		req.Header.Set("X-Amz-Content-Sha256", "UNSIGNED-PAYLOAD")
		signer := v4.NewSigner(func(o *v4.SignerOptions) { o.DisableURIPathEscaping = true })
		if err := signer.SignHTTP(context.Background(), aws.Credentials{AccessKeyID: "AK", SecretAccessKey: "SK"}, req, "UNSIGNED-PAYLOAD", "s3", "eu-central-1", now); err != nil {
			panic(err)
		}
		// the server side: header values lose leading/trailing whitespace in transit
		srv := &http.Request{Method: req.Method, Host: req.Host, Header: http.Header{}, URL: &url.URL{Path: path, RawPath: u.EscapedPath(), RawQuery: rawQuery}}
		if srv.URL.RawPath == (&url.URL{Path: path}).EscapedPath() {
			srv.URL.RawPath = ""
		}
		for k, vs := range req.Header {
			for _, v := range vs {
				srv.Header.Add(k, strings.Trim(v, " \t"))
			}
		}
		_, ok := checkAuthentication([]Credentials{{AccessKeyId: "AK", SecretAccessKey: "SK"}}, "eu-central-1", srv)
		return ok
	}
}
