package PKGNAME

// C31: no request reads object data or changes state before an authorization
// whose operation covers that effect allowed it; a denial stops the request;
// operations the Lua authorizer classifies as read-only never reach a mutator;
// per-item delete hooks skip exactly the denied items.
//
// Every API handler is invoked directly on a Server whose storage is the
// recording double generated from storage.Storage and whose authorizer is a
// recording double. Storage calls and authorization calls go to one log.

import (
	"bytes"
	"io"
	"net/http"
	"net/url"
	_ "unsafe"

	"github.com/jdillenkofer/pithos/internal/http/server/authorization"
	_ "github.com/jdillenkofer/pithos/internal/http/server/authorization/lua"
	"github.com/jdillenkofer/pithos/internal/storage"
	"github.com/oklog/ulid/v2"
	"go.opentelemetry.io/otel"
)

//go:linkname verifIsReadOnly github.com/jdillenkofer/pithos/internal/http/server/authorization/lua.isReadOnly
func verifIsReadOnly(operation string) bool

type verifEvent struct {
	authz     bool
	name      string // operation or storage method
	bucket    string
	key       string
	srcBucket string
	srcKey    string
	allowed   bool
}

var verifLog []verifEvent

// ---- authorizer double -------------------------------------------------------

type verifAuthorizer struct {
	denyAt   int // index of the authorization call that is denied (-1: allow all, -2: deny all)
	calls    int
	denyItem string // per-item hooks deny this key
}

func verifDeref(p *string) string {
	if p == nil {
		return ""
	}
	return *p
}

func (a *verifAuthorizer) AuthorizeRequest(ctx contextT, request *authorization.Request) (bool, error) {
	verifSync()
	allowed := a.denyAt == -1 || (a.denyAt >= 0 && a.calls != a.denyAt)
	a.calls++
	verifLog = append(verifLog, verifEvent{authz: true, name: request.Operation, bucket: verifDeref(request.Bucket), key: verifDeref(request.Key),
		srcBucket: verifDeref(request.SourceBucket), srcKey: verifDeref(request.SourceKey), allowed: allowed})
	return allowed, nil
}
func (a *verifAuthorizer) AuthorizeListBucket(ctx contextT, request *authorization.Request, bucketName string) (bool, error) {
	return true, nil
}
func (a *verifAuthorizer) AuthorizeListObject(ctx contextT, request *authorization.Request, key string) (bool, error) {
	return key != a.denyItem, nil
}
func (a *verifAuthorizer) AuthorizeDeleteObjectEntry(ctx contextT, request *authorization.Request, key string) (bool, error) {
	return key != a.denyItem, nil
}
func (a *verifAuthorizer) AuthorizeListMultipartUpload(ctx contextT, request *authorization.Request, key string, uploadID string) (bool, error) {
	return key != a.denyItem, nil
}
func (a *verifAuthorizer) AuthorizeListPart(ctx contextT, request *authorization.Request, partNumber int32) (bool, error) {
	return true, nil
}

// ---- response writer double ----------------------------------------------------

type verifWriter struct {
	h      http.Header
	status int
	body   []byte
}

func (w *verifWriter) Header() http.Header { return w.h }
func (w *verifWriter) WriteHeader(s int) {
	if w.status == 0 {
		w.status = s
	}
}
func (w *verifWriter) Write(b []byte) (int, error) {
	if w.status == 0 {
		w.status = 200
	}
	w.body = append(w.body, b...)
	return len(b), nil
}

// ---- effect classification -------------------------------------------------------

// storage methods that change state, with the operations that may precede them
var verifMutators = map[string][]string{
	"CreateBucket":                       {authorization.OperationCreateBucket},
	"DeleteBucket":                       {authorization.OperationDeleteBucket},
	"PutBucketVersioningConfiguration":   {authorization.OperationPutBucketVersioning},
	"PutBucketCORSConfiguration":         {authorization.OperationPutBucketCORS},
	"DeleteBucketCORSConfiguration":      {authorization.OperationDeleteBucketCORS},
	"PutBucketWebsiteConfiguration":      {authorization.OperationPutBucketWebsite},
	"DeleteBucketWebsiteConfiguration":   {authorization.OperationDeleteBucketWebsite},
	"PutBucketLifecycleConfiguration":    {authorization.OperationPutBucketLifecycle},
	"DeleteBucketLifecycleConfiguration": {authorization.OperationDeleteBucketLifecycle},
	"PutBucketNotificationConfiguration": {authorization.OperationPutBucketNotification},
	"PutObject":                          {authorization.OperationPutObject},
	"AppendObject":                       {authorization.OperationAppendObject},
	"CopyObject":                         {authorization.OperationCopyObject},
	"DeleteObject":                       {authorization.OperationDeleteObject, authorization.OperationDeleteObjectVersion},
	"DeleteObjects":                      {authorization.OperationDeleteObjects},
	"CreateMultipartUpload":              {authorization.OperationCreateMultipartUpload},
	"UploadPart":                         {authorization.OperationUploadPart},
	"UploadPartCopy":                     {authorization.OperationUploadPartCopy},
	"CompleteMultipartUpload":            {authorization.OperationCompleteMultipartUpload},
	"AbortMultipartUpload":               {authorization.OperationAbortMultipartUpload},
	"PutObjectTagging":                   {authorization.OperationPutObjectTagging, authorization.OperationPutObjectVersionTagging},
	"DeleteObjectTagging":                {authorization.OperationDeleteObjectTagging, authorization.OperationDeleteObjectVersionTagging},
	"TransitionObjectStorageClass":       {},
}

// storage methods that return object data
var verifDataReaders = map[string][]string{
	"GetObject": {authorization.OperationGetObject, authorization.OperationGetObjectVersion},
}

func verifAdmissible(method string) ([]string, bool) {
	if ops, ok := verifMutators[method]; ok {
		return ops, true
	}
	ops, ok := verifDataReaders[method]
	return ops, ok
}

// ---- request shapes ------------------------------------------------------------

type verifShape struct {
	method  string
	key     bool
	query   string
	copySrc bool
	tagging bool // x-amz-tagging header
	body    string
}

const verifDeleteXML = "<Delete><Object><Key>k1</Key></Object><Object><Key>k2</Key></Object></Delete>"
const verifTaggingXML = "<Tagging><TagSet><Tag><Key>a</Key><Value>1</Value></Tag></TagSet></Tagging>"

var verifShapes = []verifShape{
	{method: "GET"}, // ListBuckets is at "/", handled separately
	{method: "HEAD"},
	{method: "GET", query: "versioning"}, {method: "GET", query: "versions"}, {method: "GET", query: "cors"}, {method: "GET", query: "lifecycle"},
	{method: "GET", query: "notification"}, {method: "GET", query: "website"}, {method: "GET", query: "uploads"}, {method: "GET", query: "list-type=2"},
	{method: "PUT"}, {method: "PUT", query: "versioning", body: "<VersioningConfiguration><Status>Enabled</Status></VersioningConfiguration>"}, {method: "PUT", query: "cors", body: "<CORSConfiguration></CORSConfiguration>"}, {method: "PUT", query: "lifecycle", body: "<LifecycleConfiguration><Rule><Status>Enabled</Status><Filter><Prefix></Prefix></Filter><Expiration><Days>1</Days></Expiration></Rule></LifecycleConfiguration>"},
	{method: "PUT", query: "notification", body: "<NotificationConfiguration></NotificationConfiguration>"}, {method: "PUT", query: "website", body: "<WebsiteConfiguration><IndexDocument><Suffix>index.html</Suffix></IndexDocument></WebsiteConfiguration>"},
	{method: "DELETE"}, {method: "DELETE", query: "cors"}, {method: "DELETE", query: "lifecycle"}, {method: "DELETE", query: "website"},
	{method: "POST", query: "delete", body: verifDeleteXML},
	{method: "HEAD", key: true}, {method: "HEAD", key: true, query: "versionId=v1"},
	{method: "GET", key: true}, {method: "GET", key: true, query: "versionId=v1"}, {method: "GET", key: true, query: "uploadId=u1"},
	{method: "GET", key: true, query: "tagging"}, {method: "GET", key: true, query: "tagging&versionId=v1"},
	{method: "PUT", key: true, body: "x"}, {method: "PUT", key: true, body: "x", tagging: true}, {method: "PUT", key: true, query: "append", body: "x"},
	{method: "PUT", key: true, copySrc: true}, {method: "PUT", key: true, copySrc: true, tagging: true},
	{method: "PUT", key: true, query: "uploadId=u1&partNumber=1", body: "x"}, {method: "PUT", key: true, query: "uploadId=u1&partNumber=1", copySrc: true},
	{method: "PUT", key: true, query: "tagging", body: verifTaggingXML}, {method: "PUT", key: true, query: "tagging&versionId=v1", body: verifTaggingXML},
	{method: "POST", key: true, query: "uploads"}, {method: "POST", key: true, query: "uploadId=u1", body: "<CompleteMultipartUpload><Part><PartNumber>1</PartNumber><ETag>e</ETag></Part></CompleteMultipartUpload>"},
	{method: "DELETE", key: true}, {method: "DELETE", key: true, query: "versionId=v1"}, {method: "DELETE", key: true, query: "uploadId=u1"},
	{method: "DELETE", key: true, query: "tagging"}, {method: "DELETE", key: true, query: "tagging&versionId=v1"},
}

func verifServe(s *Server, sh verifShape, w http.ResponseWriter, r *http.Request) {
	switch {
	case !sh.key && sh.method == "HEAD":
		s.headBucketHandler(w, r)
	case !sh.key && sh.method == "GET":
		s.routeBucketGetHandler(w, r)
	case !sh.key && sh.method == "PUT":
		s.routeBucketPutHandler(w, r)
	case !sh.key && sh.method == "DELETE":
		s.routeBucketDeleteHandler(w, r)
	case !sh.key && sh.method == "POST":
		s.postBucketHandler(w, r)
	case sh.method == "HEAD":
		s.headObjectHandler(w, r)
	case sh.method == "GET":
		s.getObjectOrListPartsHandler(w, r)
	case sh.method == "POST":
		s.createMultipartUploadOrCompleteMultipartUploadHandler(w, r)
	case sh.method == "PUT":
		s.uploadPartOrPutObjectHandler(w, r)
	case sh.method == "DELETE":
		s.abortMultipartUploadOrDeleteObjectHandler(w, r)
	}
}

func verifNewRequest(sh verifShape) *http.Request {
	path := "/bucket"
	if sh.key {
		path += "/key"
	}
	r := &http.Request{Method: sh.method, Header: http.Header{}, URL: &url.URL{Path: path, RawQuery: sh.query}, Host: "s3.example", RemoteAddr: "10.0.0.1:1",
		Body: io.NopCloser(bytes.NewReader([]byte(sh.body))), ContentLength: int64(len(sh.body))}
	r.SetPathValue("bucket", "bucket")
	if sh.key {
		r.SetPathValue("key", "key")
	}
	if sh.copySrc {
		r.Header.Set("x-amz-copy-source", "/srcbucket/srckey")
	}
	if sh.tagging {
		r.Header.Set("x-amz-tagging", "a=1")
	}
	return r
}

func verifNewServer(a *verifAuthorizer) (*Server, *verifDouble) {
	d := &verifDouble{name: "storage"}
	// data for the handlers that list or read
	d.fnGetObject = func(ctx contextT, b storage.BucketName, k storage.ObjectKey, rg []storage.ByteRange, o *storage.GetObjectOptions) (*storage.Object, []io.ReadCloser, error) {
		return &storage.Object{Key: k, ETag: "e", Size: 1}, []io.ReadCloser{io.NopCloser(bytes.NewReader([]byte("d")))}, nil
	}
	d.fnHeadObject = func(ctx contextT, b storage.BucketName, k storage.ObjectKey, o *storage.HeadObjectOptions) (*storage.Object, error) {
		return &storage.Object{Key: k, ETag: "e", Size: 1}, nil
	}
	return &Server{requestAuthorizer: a, storage: d, tracer: otel.Tracer("verif")}, d
}

// verifCheckLog asserts the ordering rule over the merged log.
func verifCheckLog(d *verifDouble, logStart int) {
	verifSync()
	// merge: storage calls are appended to verifLog by the double's hook below
	denied := false
	for i := logStart; i < len(verifLog); i++ {
		e := verifLog[i]
		if e.authz {
			if !e.allowed {
				denied = true
			}
			continue
		}
		ops, effectful := verifAdmissible(e.name)
		if !effectful {
			continue
		}
		verifCover("effect")
		verifCover("effect-" + e.name)
		verifAssert(!denied, "a request changed state or returned object data after the authorizer denied it")
		covered := false
		for j := logStart; j < i; j++ {
			a := verifLog[j]
			if !a.authz || !a.allowed {
				continue
			}
			for _, op := range ops {
				if a.name == op && a.bucket == e.bucket && (e.key == "" || a.key == e.key) {
					// a copy must be authorized with the source it actually reads
					if e.srcBucket == "" || (a.srcBucket == e.srcBucket && a.srcKey == e.srcKey) {
						covered = true
					}
				}
			}
		}
		verifAssert(covered, "a storage effect ("+e.name+") was not preceded by an allowed authorization whose operation, bucket and key cover it")
		if _, mut := verifMutators[e.name]; mut {
			for j := logStart; j < i; j++ {
				a := verifLog[j]
				if a.authz && a.allowed && a.bucket == e.bucket {
					verifAssert(!verifIsReadOnly(a.name) || len(ops) == 0 || a.name != opsFirst(ops, a.name), "an operation the authorizer classifies as read-only reached a mutator")
				}
			}
		}
	}
}

func opsFirst(ops []string, name string) string {
	for _, o := range ops {
		if o == name {
			return o
		}
	}
	return ""
}

// VerifC31Sweep: every request shape under allow-all, deny-all and
// deny-the-n-th-authorization.
func VerifC31Sweep() {
	sh := verifShapes[verifPick("shape", 0, len(verifShapes)-1)]
	a := &verifAuthorizer{denyAt: verifPick("deny-at", -2, 1)}
	s, d := verifNewServer(a)
	start := len(verifLog)
	verifHookStorage(d)
	w := &verifWriter{h: http.Header{}}
	verifServe(s, sh, w, verifNewRequest(sh))
	verifCheckLog(d, start)
	if a.denyAt == -2 {
		verifCover("deny-all")
		verifAssert(w.status == 401 || w.status == 403 || w.status >= 400, "a denied request did not produce an error status")
	}
}

// VerifC31DeleteItems: the per-item delete hook skips exactly the denied key.
func VerifC31DeleteItems() {
	a := &verifAuthorizer{denyAt: -1, denyItem: []string{"", "k1", "k2"}[verifPick("deny-item", 0, 2)]}
	s, d := verifNewServer(a)
	var got []string
	d.fnDeleteObjects = func(ctx contextT, b storage.BucketName, entries []storage.DeleteObjectsInputEntry) (*storage.DeleteObjectsResult, error) {
		for _, e := range entries {
			got = append(got, e.Key.String())
		}
		return &storage.DeleteObjectsResult{}, nil
	}
	sh := verifShape{method: "POST", query: "delete", body: verifDeleteXML}
	w := &verifWriter{h: http.Header{}}
	verifServe(s, sh, w, verifNewRequest(sh))
	want := 0
	for _, k := range []string{"k1", "k2"} {
		if k != a.denyItem {
			want++
		}
	}
	verifCover("delete-items")
	verifAssert(len(got) == want, "DeleteObjects did not receive exactly the authorized entries")
	for _, k := range got {
		verifAssert(k != a.denyItem, "a denied entry was deleted")
	}
}

// the double appends its calls to the shared log
func verifHookStorage(d *verifDouble) {
	verifStorageLogged = d
	verifStorageSeen = 0
}

var verifStorageLogged *verifDouble
var verifStorageSeen int

// verifSync copies new storage calls into the shared log; the authorizer and
// the XML stubs call it so the relative order is preserved.
func verifSync() {
	d := verifStorageLogged
	if d == nil {
		return
	}
	for ; verifStorageSeen < len(d.calls); verifStorageSeen++ {
		c := d.calls[verifStorageSeen]
		e := verifEvent{name: c.Method}
		if len(c.Buckets) > 0 {
			e.bucket = c.Buckets[len(c.Buckets)-1] // destination bucket for copies
		}
		if len(c.Keys) > 0 {
			e.key = c.Keys[len(c.Keys)-1]
		}
		if len(c.Buckets) == 2 && len(c.Keys) == 2 {
			e.srcBucket, e.srcKey = c.Buckets[0], c.Keys[0] // the copy source the storage reads
		}
		verifLog = append(verifLog, e)
	}
}

// ---- redirect targets ----------------------------------------------------------

// xml.Unmarshal of request bodies: a fixed decoded value per request type
func verifStubXMLUnmarshal(data []byte, v any) error {
	switch t := v.(type) {
	case *DeleteObjectsRequest:
		t.Objects = []*DeleteObjectEntry{{Key: "k1"}, {Key: "k2"}}
	case *CompleteMultipartUploadRequest:
		t.Parts = []*Part{{PartNumber: 1, ETag: "e"}}
	case *Tagging:
		t.TagSet = []Tag{{Key: "a", Value: "1"}}
	case *BucketVersioningConfiguration:
		st := "Enabled"
		t.Status = &st
	case *WebsiteConfigurationRequest:
		t.IndexDocument = &WebsiteConfigurationIndexDocument{Suffix: "index.html"}
	case *LifecycleConfiguration:
		days := int32(1)
		empty := ""
		t.Rules = []LifecycleConfigurationRule{{Status: "Enabled", Filter: &LifecycleConfigurationFilter{Prefix: &empty}, Expiration: &LifecycleConfigurationExpiration{Days: &days}}}
	}
	return nil
}

func verifStubXMLMarshalIndent(v any, prefix, indent string) ([]byte, error) {
	return []byte("<xml/>"), nil
}

func verifStubRemoteIP(remoteAddr string) *string {
	ip := "10.0.0.1"
	return &ip
}

func verifStubUlidMake() ulid.ULID { return ulid.ULID{1} }
