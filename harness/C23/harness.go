package PKGNAME

// C23 (forwarding conformance): after a successful call through the
// replication storage every secondary received the same mutation - same
// method, bucket(s), key(s), body, content type, metadata, tags - with write
// preconditions stripped and multipart upload ids mapped to the ids that
// secondary itself returned. Reads never reach a secondary. Primary and
// secondaries are recording doubles generated from the current method set.

import (
	"bytes"
	"io"

	"github.com/jdillenkofer/pithos/internal/storage"
)

// mutators whose effect is visible as buckets, keys, contents, content types,
// metadata or tags (the facets C23 names)
var verifMutators = map[string]bool{
	"CreateBucket": true, "DeleteBucket": true, "PutBucketVersioningConfiguration": true,
	"PutObject": true, "AppendObject": true, "CopyObject": true, "DeleteObject": true, "DeleteObjects": true,
	"PutObjectTagging": true, "DeleteObjectTagging": true, "TransitionObjectStorageClass": true,
	"CreateMultipartUpload": true, "UploadPart": true, "UploadPartCopy": true, "CompleteMultipartUpload": true, "AbortMultipartUpload": true,
}

type verifRepl struct {
	p, s1, s2 *verifDouble
	rs        storage.Storage
	bodies    map[string][]byte // double name + method -> body it read
}

func verifNewRepl() *verifRepl {
	r := &verifRepl{p: &verifDouble{name: "p"}, s1: &verifDouble{name: "s1"}, s2: &verifDouble{name: "s2"}, bodies: map[string][]byte{}}
	for _, d := range []*verifDouble{r.p, r.s1, r.s2} {
		d := d
		d.fnPutObject = func(ctx contextT, b storage.BucketName, k storage.ObjectKey, ct *string, data io.Reader, ci *storage.ChecksumInput, o *storage.PutObjectOptions) (*storage.PutObjectResult, error) {
			r.bodies[d.name+"PutObject"], _ = io.ReadAll(data)
			return &storage.PutObjectResult{}, nil
		}
		d.fnAppendObject = func(ctx contextT, b storage.BucketName, k storage.ObjectKey, data io.Reader, ci *storage.ChecksumInput, o *storage.AppendObjectOptions) (*storage.AppendObjectResult, error) {
			r.bodies[d.name+"AppendObject"], _ = io.ReadAll(data)
			return &storage.AppendObjectResult{}, nil
		}
		d.fnUploadPart = func(ctx contextT, b storage.BucketName, k storage.ObjectKey, u storage.UploadId, n int32, data io.Reader, ci *storage.ChecksumInput) (*storage.UploadPartResult, error) {
			r.bodies[d.name+"UploadPart"], _ = io.ReadAll(data)
			return &storage.UploadPartResult{}, nil
		}
		d.fnCreateMultipartUpload = func(ctx contextT, b storage.BucketName, k storage.ObjectKey, ct *string, cs *string, o *storage.CreateMultipartUploadOptions) (*storage.InitiateMultipartUploadResult, error) {
			return &storage.InitiateMultipartUploadResult{UploadId: storage.MustNewUploadId("upload-" + d.name)}, nil
		}
	}
	rs, err := NewStorage(r.p, r.s1, r.s2)
	if err != nil {
		panic(err)
	}
	r.rs = rs
	return r
}

func verifLast(d *verifDouble) verifCall { return d.calls[len(d.calls)-1] }

// VerifC23Forwarding sweeps every interface method.
func VerifC23Forwarding() {
	r := verifNewRepl()
	n := len(verifMethodNames)
	i := verifPick("method", 0, n-1)
	name := verifMethodNames[i]
	if name == "Start" || name == "Stop" {
		return
	}
	args := verifArgs{bucket: storage.MustNewBucketName("bucket-1"), bucket2: storage.MustNewBucketName("bucket-2"),
		key: storage.MustNewObjectKey("k"), key2: storage.MustNewObjectKey("k2"), upload: storage.MustNewUploadId("upload-p"), body: []byte("body")}
	needsUpload := name == "UploadPart" || name == "UploadPartCopy" || name == "CompleteMultipartUpload" || name == "AbortMultipartUpload"
	if needsUpload {
		_, err := r.rs.CreateMultipartUpload(verifBg, args.bucket, args.key, nil, nil, nil)
		verifAssert(err == nil, "CreateMultipartUpload failed")
		r.p.calls, r.s1.calls, r.s2.calls = nil, nil, nil
	}
	err := verifInvoke(r.rs, i, args)
	verifAssert(err == nil, "call through the replication storage failed")
	verifAssert(len(r.p.calls) >= 1 && r.p.calls[0].Method == name, "the primary did not receive the call")
	pc := r.p.calls[0]
	for _, s := range []*verifDouble{r.s1, r.s2} {
		if !verifMutators[name] {
			if name[:3] == "Get" || name[:4] == "Head" || name[:4] == "List" {
				verifCover("read-not-forwarded")
				verifAssert(len(s.calls) == 0, "a read reached a secondary storage")
			}
			continue
		}
		verifCover("mutation-forwarded")
		verifAssert(len(s.calls) == 1, "a secondary did not receive exactly one call for a mutation")
		sc := s.calls[0]
		verifAssert(sc.Method == name, "a secondary received a different method")
		verifAssert(len(sc.Buckets) == len(pc.Buckets) && len(sc.Keys) == len(pc.Keys), "bucket/key arguments lost")
		for j := range pc.Buckets {
			verifAssert(sc.Buckets[j] == pc.Buckets[j], "a secondary received a different bucket")
		}
		for j := range pc.Keys {
			verifAssert(sc.Keys[j] == pc.Keys[j], "a secondary received a different key")
		}
		if needsUpload {
			verifCover("upload-id-mapped")
			verifAssert(pc.Upload == "upload-p" && sc.Upload == "upload-"+s.name, "multipart upload id not mapped to the secondary's own id")
		}
		if b, ok := r.bodies["p"+name]; ok {
			verifAssert(bytes.Equal(b, []byte("body")) && bytes.Equal(r.bodies[s.name+name], b), "a secondary received a different body")
		}
	}
}

// VerifC23PutObjectFacets: content type, metadata, tags and class reach every
// secondary; write preconditions do not.
func VerifC23PutObjectFacets() {
	r := verifNewRepl()
	ct, cc, class, etag := "text/x", "no-cache", "STANDARD_IA", "e"
	var opts *storage.PutObjectOptions
	if !verifBool("nil-opts") {
		opts = &storage.PutObjectOptions{IfNoneMatchStar: verifBool("if-none-match")}
		if verifBool("if-match") {
			opts.IfMatchETag = &etag
		}
		if verifBool("tags") {
			opts.Tags = map[string]string{"t": "1"}
		}
		if verifBool("metadata") {
			opts.Metadata = &storage.ObjectMetadata{CacheControl: &cc, UserMetadata: map[string]string{"alpha": "1"}}
		}
		if verifBool("class") {
			opts.StorageClass = &class
		}
	}
	var ctp *string
	if verifBool("ct") {
		ctp = &ct
	}
	_, err := r.rs.PutObject(verifBg, storage.MustNewBucketName("bucket-1"), storage.MustNewObjectKey("k"), ctp, bytes.NewReader([]byte("body")), nil, opts)
	verifAssert(err == nil, "PutObject failed")
	for _, s := range []*verifDouble{r.s1, r.s2} {
		verifAssert(len(s.calls) == 1 && s.calls[0].Method == "PutObject", "secondary PutObject missing")
		a := s.calls[0].Args
		gct, _ := a[2].(*string)
		verifAssert(gct == ctp, "content type not forwarded")
		gopts, _ := a[5].(*storage.PutObjectOptions)
		var wt map[string]string
		var wm *storage.ObjectMetadata
		var wc *string
		if opts != nil {
			wt, wm, wc = opts.Tags, opts.Metadata, opts.StorageClass
		}
		var gt map[string]string
		var gm *storage.ObjectMetadata
		var gc *string
		if gopts != nil {
			gt, gm, gc = gopts.Tags, gopts.Metadata, gopts.StorageClass
			verifAssert(!gopts.IfNoneMatchStar && gopts.IfMatchETag == nil, "a write precondition was re-evaluated on a secondary")
		}
		verifCover("facets")
		verifAssert(len(gt) == len(wt) && gm == wm && gc == wc, "tags, metadata or storage class not forwarded to a secondary")
	}
}

// VerifC23CompleteOptions: the declared part manifest is forwarded, the
// conditional headers are not.
func VerifC23CompleteOptions() {
	r := verifNewRepl()
	b, k := storage.MustNewBucketName("bucket-1"), storage.MustNewObjectKey("k")
	up, err := r.rs.CreateMultipartUpload(verifBg, b, k, nil, nil, nil)
	verifAssert(err == nil, "CreateMultipartUpload failed")
	etag := "e"
	var opts *storage.CompleteMultipartUploadOptions
	if !verifBool("nil-opts") {
		opts = &storage.CompleteMultipartUploadOptions{IfNoneMatchStar: verifBool("if-none-match")}
		if verifBool("if-match") {
			opts.IfMatchETag = &etag
		}
		if verifBool("parts") {
			opts.Parts = []storage.CompleteMultipartUploadPart{{PartNumber: 1, ETag: "p1"}, {PartNumber: 2, ETag: "p2"}}
		}
	}
	_, err = r.rs.CompleteMultipartUpload(verifBg, b, k, up.UploadId, nil, opts)
	verifAssert(err == nil, "CompleteMultipartUpload failed")
	for _, s := range []*verifDouble{r.s1, r.s2} {
		c := verifLast(s)
		verifAssert(c.Method == "CompleteMultipartUpload" && c.Upload == "upload-"+s.name, "completion not forwarded with the secondary's upload id")
		gopts, _ := c.Args[4].(*storage.CompleteMultipartUploadOptions)
		want := 0
		if opts != nil {
			want = len(opts.Parts)
		}
		got := 0
		if gopts != nil {
			got = len(gopts.Parts)
			verifAssert(!gopts.IfNoneMatchStar && gopts.IfMatchETag == nil, "a completion precondition was re-evaluated on a secondary")
		}
		verifCover("complete")
		verifAssert(got == want, "the declared part manifest was not forwarded")
	}
	// the mapping is dropped after completion; a second upload gets a fresh mapping
	_, err = r.rs.CreateMultipartUpload(verifBg, b, k, nil, nil, nil)
	verifAssert(err == nil, "second CreateMultipartUpload failed")
}
