package PKGNAME

// C30: aws-chunked uploads decode to exactly the payload; truncated or altered
// streams fail instead of ending cleanly; the decoder is installed whenever the
// request declares aws-chunked.

import (
	"bytes"
	"context"
	"io"
	"net/http"
	"net/url"
)

func verifC30Hex(n int) string {
	const digits = "0123456789abcdef"
	if n < 16 {
		return string(digits[n])
	}
	return string(digits[n/16]) + string(digits[n%16])
}

// reference encoder (unsigned chunks, no trailer)
func verifC30Encode(payload []byte, sizes []int) []byte {
	var w []byte
	off := 0
	for _, sz := range sizes {
		w = append(w, verifC30Hex(sz)...)
		w = append(w, '\r', '\n')
		w = append(w, payload[off:off+sz]...)
		w = append(w, '\r', '\n')
		off += sz
	}
	w = append(w, '0', '\r', '\n', '\r', '\n')
	return w
}

func verifC30Payload() ([]byte, []int) {
	maxLen := verifParam("payload", 4)
	n := verifPick("len", 0, maxLen)
	payload := verifBytes("payload", n)
	var sizes []int
	if n > 0 {
		first := verifPick("firstChunk", 1, n)
		sizes = append(sizes, first)
		if first < n {
			sizes = append(sizes, n-first)
		}
	}
	return payload, sizes
}

func verifC30Reader(wire []byte) *awsChunkReadCloser {
	return newAwsChunkReadCloser(context.Background(), io.NopCloser(bytes.NewReader(wire)), "20240101T000000Z", "scope", "prev", signatureVerifier{}, false, false, true, "")
}

func verifC30ReadAll(r io.Reader, bufLen int, maxReads int) ([]byte, error) {
	buf := make([]byte, bufLen)
	var got []byte
	for k := 0; k < maxReads; k++ {
		n, err := r.Read(buf)
		got = append(got, buf[:n]...)
		if err != nil {
			return got, err
		}
	}
	return got, nil
}

// VerifC30Decode: every payload of up to N symbolic bytes in one or two chunks
// of any sizes decodes to exactly the payload followed by io.EOF, for any
// caller buffer size.
func VerifC30Decode() {
	payload, sizes := verifC30Payload()
	wire := verifC30Encode(payload, sizes)
	bufLen := verifPick("bufLen", 1, 3)
	got, err := verifC30ReadAll(verifC30Reader(wire), bufLen, len(payload)+4)
	verifAssert(err == io.EOF, "C30: well-formed aws-chunked stream did not end with io.EOF")
	verifAssert(bytes.Equal(got, payload), "C30: decoded bytes differ from the payload")
}

// VerifC30Truncated: a stream cut at any byte position must not read as a
// complete (shorter) upload.
func VerifC30Truncated() {
	payload, sizes := verifC30Payload()
	wire := verifC30Encode(payload, sizes)
	cut := verifPick("cut", 0, len(wire)-1)
	got, err := verifC30ReadAll(verifC30Reader(wire[:cut]), 2, len(payload)+4)
	verifAssert(err != nil, "C30: truncated stream did not terminate")
	if cut >= len(wire)-2 {
		// only the CRLF after the terminating zero-length chunk is missing: the upload is complete
		verifAssert(err != io.EOF || bytes.Equal(got, payload), "C30: complete upload decoded wrongly")
		return
	}
	verifAssert(err != io.EOF, "C30: a truncated aws-chunked stream ended with a clean io.EOF (short payload accepted as complete)")
}

type verifC30Next struct {
	called  int
	decoded bool
}

func (n *verifC30Next) ServeHTTP(w http.ResponseWriter, r *http.Request) {
	n.called++
	_, n.decoded = r.Body.(*awsChunkReadCloser)
}

// VerifC30AnonymousChunked: a request that declares aws-chunked but carries no
// credentials still has to reach the handler with a decoding body.
func VerifC30AnonymousChunked() {
	next := &verifC30Next{}
	h := MakeSignatureMiddleware([]Credentials{{AccessKeyId: "AK", SecretAccessKey: "SK"}}, "us-east-1", next)
	r := &http.Request{Method: "PUT", Header: http.Header{}, URL: &url.URL{Path: "/b/k"}, Body: io.NopCloser(bytes.NewReader([]byte("0\r\n\r\n")))}
	r = r.WithContext(context.Background())
	r.Header.Set("Content-Encoding", "aws-chunked")
	r.Header.Set("X-Amz-Content-Sha256", "STREAMING-UNSIGNED-PAYLOAD-TRAILER")
	h.ServeHTTP(nil, r)
	verifAssert(next.called == 1, "C30: anonymous request not passed on")
	if verifKnown("C30-anonymous-chunked-not-decoded", true) {
		return
	}
	verifAssert(next.decoded, "C30: aws-chunked body of an unauthenticated request reaches the handler undecoded (chunk framing would be stored)")
}
