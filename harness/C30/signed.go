package PKGNAME

// C30, signed chunks and checksum trailers: a stream whose chunk signatures and
// trailer checksum are those of its payload decodes to the payload; any
// alteration of a chunk signature (including the terminating zero-length
// chunk's) or of the trailer checksum value is refused instead of ending with a
// clean EOF. HMAC / SHA-256 / the trailer hash are injective stubs under the
// executor; the harness signs with the same functions, so natively the real
// ones run.

import (
	"bytes"
	"context"
	"encoding/base64"
	"hash"
	"io"

	"github.com/jdillenkofer/pithos/internal/checksumutils"
)

type verifC30Hash struct {
	name string
	data []byte
}

func (h *verifC30Hash) Write(p []byte) (int, error) { h.data = append(h.data, p...); return len(p), nil }
func (h *verifC30Hash) Sum(b []byte) []byte          { return append(b, verifHashBytes(h.name, 4, h.data)...) }
func (h *verifC30Hash) Reset()                       { h.data = nil }
func (h *verifC30Hash) Size() int                    { return 4 }
func (h *verifC30Hash) BlockSize() int               { return 64 }

func verifStubSha256New() hash.Hash { return &verifC30Hash{name: "sha256"} }

func verifStubTrailerHash(name string) (hash.Hash, bool) {
	if name == "x-amz-checksum-crc32" {
		return &verifC30Hash{name: "crc32"}, true
	}
	return nil, false
}

func verifStubHmac(secret []byte, data []byte) []byte {
	in := make([]byte, 0, len(secret)+len(data)+2)
	in = append(in, byte(len(secret)), byte(len(secret)>>8))
	in = append(in, secret...)
	in = append(in, data...)
	return verifHashBytes("hmac", 4, in)
}

const verifC30TS, verifC30Scope, verifC30Seed = "20240101T000000Z", "20240101/us-east-1/s3/aws4_request", "seedsignature"

func verifC30Key() []byte { return createSigningKey("SK", "20240101", "us-east-1", "s3", "aws4_request") }

// verifC30SignedWire encodes payload as signed chunks (sizes) + the signed
// terminating chunk and returns the wire bytes and the offsets of every
// signature on the wire.
func verifC30SignedWire(payload []byte, sizes []int) ([]byte, [][2]int) {
	key := verifC30Key()
	prev := verifC30Seed
	var w []byte
	var sigs [][2]int
	off := 0
	chunk := func(data []byte) {
		h := newAwsChunkReadCloser(context.Background(), nil, "", "", "", signatureVerifier{}, false, false, false, "").chunkHasher
		h.Write(data)
		sts := generateStringToSignForChunk(signatureAlgorithmV4, verifC30TS, verifC30Scope, prev, h)
		sig := createSignature(key, sts)
		w = append(w, verifC30Hex(len(data))...)
		w = append(w, ";chunk-signature="...)
		sigs = append(sigs, [2]int{len(w), len(w) + len(sig)})
		w = append(w, sig...)
		w = append(w, '\r', '\n')
		w = append(w, data...)
		w = append(w, '\r', '\n')
		prev = sig
	}
	for _, sz := range sizes {
		chunk(payload[off : off+sz])
		off += sz
	}
	chunk(nil)
	return w, sigs
}

// VerifC30SignedChunks
func VerifC30SignedChunks() {
	payload, sizes := verifC30Payload()
	wire, sigs := verifC30SignedWire(payload, sizes)
	mutate := verifBool("alter-a-signature")
	identity := true
	if mutate {
		which := verifPick("which-signature", 0, len(sigs)-1)
		pos := verifPick("position", sigs[which][0], sigs[which][1]-1)
		c := verifByte("byte")
		identity = wire[pos] == c
		wire = append([]byte(nil), wire...)
		wire[pos] = c
	}
	r := newAwsChunkReadCloser(context.Background(), io.NopCloser(bytes.NewReader(wire)), verifC30TS, verifC30Scope, verifC30Seed, newSigV4Verifier(verifC30Key()), false, false, false, "")
	got, err := verifC30ReadAll(r, 2, len(payload)+4)
	if identity {
		verifCover("signed-accepted")
		verifAssert(err == io.EOF && bytes.Equal(got, payload), "C30: a correctly signed chunk stream did not decode to its payload")
		return
	}
	verifCover("signature-altered")
	verifAssert(err != nil && err != io.EOF, "C30: a stream with an altered chunk signature ended with a clean EOF")
}

// VerifC30TrailerChecksum: unsigned chunks with an x-amz-checksum-crc32 trailer.
func VerifC30TrailerChecksum() {
	payload, sizes := verifC30Payload()
	var w []byte
	off := 0
	for _, sz := range sizes {
		w = append(w, verifC30Hex(sz)...)
		w = append(w, '\r', '\n')
		w = append(w, payload[off:off+sz]...)
		w = append(w, '\r', '\n')
		off += sz
	}
	w = append(w, '0', '\r', '\n')
	th, _ := checksumutils.NewChecksumTrailerHash("x-amz-checksum-crc32")
	th.Write(payload)
	value := base64.StdEncoding.EncodeToString(th.Sum(nil))
	w = append(w, "x-amz-checksum-crc32:"...)
	start := len(w)
	w = append(w, value...)
	w = append(w, '\r', '\n', '\r', '\n')
	identity := true
	switch verifPick("alter-the-checksum", 0, 2) {
	case 1: // the same value in the other letter case (relative to the value, so it replays with the real CRC)
		for pos := start; pos < start+len(value); pos++ {
			c := w[pos]
			lower, upper := verifAnd(c >= 'a', c <= 'z'), verifAnd(c >= 'A', c <= 'Z')
			if lower || upper {
				w[pos] = c ^ 0x20
				identity = false
			}
		}
	case 2:
		pos := verifPick("position", start, start+len(value)-1)
		c := verifByte("byte")
		verifAssume(c != '\r' && c != '\n' && c != ' ' && c != '\t')
		// letter-case changes are case 1's (relative to the real value); a byte that
		// differs from the original in bit 5 only is left out here so that every
		// counterexample of this case is independent of the hash stub's values
		verifAssume(c^w[pos] != 0x20)
		identity = w[pos] == c
		w[pos] = c
	}
	r := newAwsChunkReadCloser(context.Background(), io.NopCloser(bytes.NewReader(w)), verifC30TS, verifC30Scope, verifC30Seed, signatureVerifier{}, true, false, true, "x-amz-checksum-crc32")
	got, err := verifC30ReadAll(r, 2, len(payload)+4)
	if identity {
		verifCover("trailer-accepted")
		verifAssert(err == io.EOF && bytes.Equal(got, payload), "C30: a stream with the correct checksum trailer did not decode to its payload")
		return
	}
	verifCover("trailer-altered")
	verifAssert(err != nil && err != io.EOF, "C30: a stream whose checksum trailer does not match the payload ended with a clean EOF")
}
