package PKGNAME

// C25: the lifecycle reconciler never acts early or on the wrong data.

import (
	"context"
	"time"

	"github.com/jdillenkofer/pithos/internal/storage"
	"github.com/jdillenkofer/pithos/internal/storage/middlewares/delegator"
)

// ---- calendar summary -----------------------------------------------------------
// Instants are UTC seconds. Under the symbolic executor the two calendar
// operations the day arithmetic relies on are summarised by their documented
// UTC contract:  t.AddDate(0,0,d) = t + 86400*d  and
// time.Date(Y(t),M(t),D(t),0,0,0,0,UTC) = floor(t/86400)*86400.
// (Year carries the day number, Month/Day are 1; only lifecycleNextMidnightUTC
// decomposes and recomposes a date.) Natively the real time package runs.

func verifStubAddDate(t time.Time, years, months, days int) time.Time {
	verifAssume(years == 0 && months == 0)
	return time.Unix(t.Unix()+int64(days)*86400, 0).In(t.Location())
}
func verifStubYear(t time.Time) int {
	_, off := t.Zone() // the calendar day is the day in the timestamp's own Location
	return int((t.Unix() + int64(off)) / 86400)
}
func verifStubMonth(t time.Time) time.Month { return 1 }
func verifStubDay(t time.Time) int          { return 1 }
func verifStubDate(year int, month time.Month, day, hour, min, sec, nsec int, loc *time.Location) time.Time {
	return time.Unix(int64(year)*86400, 0).UTC()
}

func verifC25At(sec int64) time.Time { return time.Unix(sec, 0).UTC() }

// reference: first midnight UTC strictly after (created + days)
func verifC25Due(created int64, days int32) int64 {
	t := created + int64(days)*86400
	return (t/86400 + 1) * 86400
}

// ---- storage double -----------------------------------------------------------------

type verifC25Call struct {
	kind      string // delete | transition | abort
	key       string
	versionID *string
	ifMatch   *string
	target    string
}

type verifC25Store struct {
	storage.Storage // nil: any method not overridden below must not be reached
	objects         []storage.Object
	versions        []storage.ObjectVersion
	tags            map[string]string
	calls           []verifC25Call
}

func (s *verifC25Store) ListObjects(ctx context.Context, b storage.BucketName, opts storage.ListObjectsOptions) (*storage.ListBucketResult, error) {
	return &storage.ListBucketResult{Objects: append([]storage.Object(nil), s.objects...)}, nil
}
func (s *verifC25Store) ListObjectVersions(ctx context.Context, b storage.BucketName, opts storage.ListObjectVersionsOptions) (*storage.ListObjectVersionsResult, error) {
	return &storage.ListObjectVersionsResult{Versions: append([]storage.ObjectVersion(nil), s.versions...)}, nil
}
func (s *verifC25Store) GetObjectTagging(ctx context.Context, b storage.BucketName, k storage.ObjectKey, opts *storage.ObjectTaggingOptions) (map[string]string, error) {
	return s.tags, nil
}
func (s *verifC25Store) DeleteObject(ctx context.Context, b storage.BucketName, k storage.ObjectKey, opts *storage.DeleteObjectOptions) (*storage.DeleteObjectResult, error) {
	c := verifC25Call{kind: "delete", key: k.String()}
	if opts != nil {
		c.versionID, c.ifMatch = opts.VersionID, opts.IfMatchETag
	}
	s.calls = append(s.calls, c)
	if opts == nil || opts.VersionID == nil {
		// the current object is gone for later listings
		var rest []storage.Object
		for _, o := range s.objects {
			if o.Key.String() != k.String() {
				rest = append(rest, o)
			}
		}
		s.objects = rest
	}
	return &storage.DeleteObjectResult{}, nil
}
func (s *verifC25Store) TransitionObjectStorageClass(ctx context.Context, b storage.BucketName, k storage.ObjectKey, target string, opts *storage.TransitionObjectStorageClassOptions) error {
	c := verifC25Call{kind: "transition", key: k.String(), target: target}
	if opts != nil {
		c.versionID, c.ifMatch = opts.VersionID, opts.IfMatchETag
	}
	s.calls = append(s.calls, c)
	return nil
}

func verifC25Key(name string, n int) string {
	s := verifString(name, n)
	for i := 0; i < n; i++ {
		verifAssume(verifInSet(s[i], "abA/"))
	}
	return s
}

func verifC25Middleware(st *verifC25Store, now int64) *lifecycleReconcilerStorageMiddleware {
	return &lifecycleReconcilerStorageMiddleware{
		DelegatingStorage: delegator.DelegatingStorage{Next: st},
		now:               func() time.Time { return verifC25At(now) },
	}
}

// symbolic filter of a rule; returns the reference verdict for (key,size,tags)
func verifC25Filter(rule *storage.LifecycleRule, key string, size int64, objTagVal *string) bool {
	matches := true
	plen := verifPick("prefixLen", 0, verifParam("prefixLen", 2))
	prefix := verifC25Key("prefix", plen)
	// byte-for-byte prefix
	pm := len(key) >= plen
	if pm {
		pm = verifStrEq(key[:plen], prefix)
	}
	matches = matches && pm
	form := verifParam("filterForm", 1)
	gt := verifMathInt64("sizeGreaterThan")
	lt := verifMathInt64("sizeLessThan")
	verifAssume(gt >= 0 && gt <= 1<<50 && lt >= 0 && lt <= 1<<50)
	hasGt, hasLt, hasTag := verifBool("hasGt"), verifBool("hasLt"), verifBool("hasTag")
	tagVal := verifString("ruleTagValue", 1)
	switch form {
	case 0: // legacy top-level prefix, no filter
		rule.Prefix = &prefix
		hasGt, hasLt, hasTag = false, false, false
	case 1: // Filter with single predicates
		rule.Filter = &storage.LifecycleFilter{Prefix: &prefix}
		if hasGt {
			rule.Filter.ObjectSizeGreaterThan = &gt
		}
		if hasLt {
			rule.Filter.ObjectSizeLessThan = &lt
		}
		if hasTag {
			rule.Filter.Tag = &storage.LifecycleTag{Key: "k", Value: tagVal}
		}
	default: // Filter.And
		and := &storage.LifecycleFilterAnd{Prefix: &prefix}
		if hasGt {
			and.ObjectSizeGreaterThan = &gt
		}
		if hasLt {
			and.ObjectSizeLessThan = &lt
		}
		if hasTag {
			and.Tags = []storage.LifecycleTag{{Key: "k", Value: tagVal}}
		}
		rule.Filter = &storage.LifecycleFilter{And: and}
	}
	if hasGt {
		matches = matches && size > gt
	}
	if hasLt {
		matches = matches && size < lt
	}
	if hasTag {
		matches = matches && objTagVal != nil && verifStrEq(*objTagVal, tagVal)
	}
	return matches
}

// VerifC25CurrentObject: one current object, one rule carrying an Expiration
// and/or one Transition, symbolic clock.
func VerifC25CurrentObject() {
	keyLen := 2
	key := verifC25Key("key", keyLen)
	size := verifMathInt64("size")
	created := verifMathInt64("created")
	now := verifMathInt64("now")
	verifAssume(size >= 0 && size <= 1<<50)
	verifAssume(created >= 0 && created <= 1<<33 && now >= 0 && now <= 1<<34)
	var objTag *string
	tags := map[string]string{}
	if verifBool("objHasTag") {
		v := verifString("objTagValue", 1)
		objTag = &v
		tags["k"] = v
	}
	etag := "etag-listed"
	obj := storage.Object{Key: storage.MustNewObjectKey(key), Size: size, LastModified: verifC25At(created), ETag: etag}
	if objTag != nil && verifBool("tagsInListing") {
		obj.Tags = tags
	}
	st := &verifC25Store{objects: []storage.Object{obj}, tags: tags}

	rule := storage.LifecycleRule{Status: storage.LifecycleRuleStatusEnabled}
	enabled := verifBool("enabled")
	if !enabled {
		rule.Status = "Disabled"
	}
	refMatch := verifC25Filter(&rule, key, size, objTag)
	expDays := verifInt32("expDays")
	trDays := verifInt32("trDays")
	verifAssume(expDays >= 0 && expDays <= 36500 && trDays >= 0 && trDays <= 36500)
	hasExp, hasTr := verifBool("hasExpiration"), verifBool("hasTransition")
	if hasExp {
		rule.Expiration = &storage.LifecycleExpiration{Days: &expDays}
	}
	if hasTr {
		rule.Transitions = []storage.LifecycleTransition{{Days: &trDays, StorageClass: "GLACIER"}}
	}
	m := verifC25Middleware(st, now)
	cfg := &storage.BucketLifecycleConfiguration{Rules: []storage.LifecycleRule{rule}}
	m.reconcileBucket(context.Background(), storage.MustNewBucketName("bucket"), cfg, nil)

	expDue := hasExp && now >= verifC25Due(created, expDays)
	trDue := hasTr && now >= verifC25Due(created, trDays)
	deleted, transitioned := false, false
	for _, c := range st.calls {
		verifAssert(c.key == key, "C25: action on a different key than the one evaluated")
		verifAssert(c.ifMatch != nil && *c.ifMatch == etag, "C25: action on a current object without the ETag guard of the listed object")
		verifAssert(c.versionID == nil, "C25: current-object action addressed a version")
		if c.kind == "delete" {
			deleted = true
		} else {
			transitioned = true
			verifAssert(c.target == "GLACIER", "C25: transition to a class no rule names")
		}
	}
	if deleted || transitioned {
		verifAssert(enabled, "C25: a disabled rule acted")
		verifAssert(refMatch, "C25: action on an object the rule's filter (prefix/size/tags) does not select")
	}
	if deleted {
		verifAssert(expDue, "C25: object expired before its due time (next midnight UTC after created+days)")
		verifCover("expired")
	}
	if transitioned {
		verifAssert(trDue, "C25: object transitioned before its due time")
		verifAssert(!deleted, "C25: object both expired and transitioned")
		verifCover("transitioned")
	}
	if enabled && refMatch && expDue && trDue {
		verifAssert(deleted && !transitioned, "C25: expiration must win over a due transition")
	}
	if enabled && refMatch && expDue {
		verifAssert(deleted, "C25: due expiration not carried out")
	}
}

// VerifC25Noncurrent: up to three versions of one key (the newest is current),
// one NoncurrentVersionExpiration rule with NoncurrentDays and optional
// NewerNoncurrentVersions.
func VerifC25Noncurrent() {
	n := verifPick("versions", 2, verifParam("versions", 3))
	now := verifMathInt64("now")
	verifAssume(now >= 0 && now <= 1<<34)
	key := "k"
	times := make([]int64, n)
	st := &verifC25Store{tags: map[string]string{}}
	vids := [3]string{"v0", "v1", "v2"}
	for i := 0; i < n; i++ {
		times[i] = verifMathInt64("lastModified")
		verifAssume(times[i] >= 0 && times[i] <= 1<<33)
		if i > 0 {
			verifAssume(times[i] < times[i-1]) // listed newest first; distinct instants
		}
		st.versions = append(st.versions, storage.ObjectVersion{Key: storage.MustNewObjectKey(key), VersionID: vids[i], IsLatest: i == 0, LastModified: verifC25At(times[i]), Size: 1})
	}
	if n == 3 && verifBool("middleIsMarker") {
		st.versions[1].IsDeleteMarker = true
	}
	days := verifInt32("noncurrentDays")
	verifAssume(days >= 0 && days <= 36500)
	keep := verifInt32("newerNoncurrentVersions")
	verifAssume(keep >= 0 && keep <= 3)
	rule := storage.LifecycleRule{Status: storage.LifecycleRuleStatusEnabled, NoncurrentVersionExpiration: &storage.LifecycleNoncurrentVersionExpiration{NoncurrentDays: &days}}
	hasKeep := verifBool("hasNewerNoncurrentVersions")
	if hasKeep {
		rule.NoncurrentVersionExpiration.NewerNoncurrentVersions = &keep
	}
	m := verifC25Middleware(st, now)
	cfg := &storage.BucketLifecycleConfiguration{Rules: []storage.LifecycleRule{rule}}
	m.reconcileBucket(context.Background(), storage.MustNewBucketName("bucket"), cfg, nil)

	for _, c := range st.calls {
		verifAssert(c.kind == "delete" && c.versionID != nil, "C25: noncurrent expiration must delete by version id")
		idx := -1
		for i := 0; i < n; i++ {
			if vids[i] == *c.versionID {
				idx = i
			}
		}
		verifAssert(idx > 0, "C25: the current version (or an unknown one) was expired as noncurrent")
		verifAssert(!st.versions[idx].IsDeleteMarker, "C25: a delete marker was expired as a noncurrent version")
		// it became noncurrent when its successor was written
		verifAssert(now >= verifC25Due(times[idx-1], days), "C25: noncurrent version expired before NoncurrentDays elapsed since it became noncurrent")
		if hasKeep {
			newer := 0
			for j := 1; j < idx; j++ {
				if !st.versions[j].IsDeleteMarker {
					newer++
				}
			}
			verifAssert(int32(newer) >= keep, "C25: one of the NewerNoncurrentVersions most recent noncurrent versions was expired")
		}
		verifCover("noncurrent-expired")
	}
}

// VerifC25TwoTransitionRules: two enabled rules with their own prefix filters
// and transitions to different classes; a transition to a class may only
// happen under the rule that names it, when that rule selects the object and
// its transition is due.
func VerifC25TwoTransitionRules() {
	key := verifC25Key("key", 2)
	created := verifMathInt64("created")
	now := verifMathInt64("now")
	verifAssume(created >= 0 && created <= 1<<33 && now >= 0 && now <= 1<<34)
	etag := "etag-listed"
	obj := storage.Object{Key: storage.MustNewObjectKey(key), Size: 5, LastModified: verifC25At(created), ETag: etag}
	st := &verifC25Store{objects: []storage.Object{obj}, tags: map[string]string{}}
	targets := []string{"STANDARD_IA", "GLACIER"}
	var rules []storage.LifecycleRule
	var match, due [2]bool
	for i := 0; i < 2; i++ {
		tag := []string{"r1", "r2"}[i]
		prefix := verifC25Key(tag+"-prefix", 1)
		days := verifInt32(tag + "-days")
		verifAssume(days >= 0 && days <= 36500)
		rule := storage.LifecycleRule{Status: storage.LifecycleRuleStatusEnabled, Filter: &storage.LifecycleFilter{Prefix: &prefix},
			Transitions: []storage.LifecycleTransition{{Days: &days, StorageClass: targets[i]}}}
		rules = append(rules, rule)
		match[i] = key[0] == prefix[0]
		due[i] = now >= verifC25Due(created, days)
	}
	m := verifC25Middleware(st, now)
	m.reconcileBucket(context.Background(), storage.MustNewBucketName("bucket"), &storage.BucketLifecycleConfiguration{Rules: rules}, nil)
	for _, c := range st.calls {
		verifAssert(c.kind == "transition" && c.key == key, "C25: unexpected action")
		verifCover("two-rules-transition")
		ok := false
		for i := 0; i < 2; i++ {
			if c.target == targets[i] {
				ok = verifAnd(match[i], due[i])
			}
		}
		verifAssert(ok, "C25: transition to a class whose rule does not select the object or is not due")
	}
}

// VerifC25DueInstantIgnoresLocation: the five day-based due times are a function
// of the instant alone: a timestamp carried in any fixed-offset Location (as a
// database driver may return it) gets the due time of the same instant in UTC,
// i.e. the first midnight UTC after created + days, never an earlier one.
func VerifC25DueInstantIgnoresLocation() {
	sec := verifInt64("created")
	verifAssume(sec >= 0 && sec <= 1<<33)
	days := int32(verifPick("days", 1, 3))
	offH := verifPick("zone-offset-hours", -12, 14)
	local := time.Unix(sec, 0).In(time.FixedZone("z", offH*3600))
	want := verifC25Due(sec, days)
	rule := &storage.LifecycleRule{Status: storage.LifecycleRuleStatusEnabled,
		Expiration:                     &storage.LifecycleExpiration{Days: &days},
		AbortIncompleteMultipartUpload: &storage.LifecycleAbortIncompleteMultipartUpload{DaysAfterInitiation: &days},
		NoncurrentVersionExpiration:    &storage.LifecycleNoncurrentVersionExpiration{NoncurrentDays: &days}}
	check := func(due *time.Time) {
		verifAssert(due != nil && due.Unix() == want, "C25: a day-based due time depends on the timestamp's Location (it can fall before created + days)")
	}
	check(storage.LifecycleExpirationDueTime(rule, local))
	check(storage.LifecycleTransitionDueTime(&storage.LifecycleTransition{Days: &days, StorageClass: "GLACIER"}, local))
	check(storage.LifecycleAbortDueTime(rule, local))
	check(storage.LifecycleNoncurrentExpirationDueTime(rule, local))
	check(storage.LifecycleNoncurrentTransitionDueTime(&storage.LifecycleNoncurrentVersionTransition{NoncurrentDays: &days, StorageClass: "GLACIER"}, local))
	verifCover("zoned")
}

// VerifC25DeleteMarkers: an expired-object-delete-marker rule removes a current
// delete marker only when the rule is enabled, says so (ExpiredObjectDeleteMarker
// = true, not false and not absent) and the key has no object version left.
func VerifC25DeleteMarkers() {
	now := verifMathInt64("now")
	verifAssume(now >= 0 && now <= 1<<34)
	st := &verifC25Store{tags: map[string]string{}}
	n := verifPick("versions", 1, 2)
	currentIsMarker := verifBool("current-is-marker")
	olderIsMarker := verifBool("older-is-marker")
	st.versions = append(st.versions, storage.ObjectVersion{Key: storage.MustNewObjectKey("k"), VersionID: "v0", IsLatest: true, IsDeleteMarker: currentIsMarker, LastModified: verifC25At(1000), Size: 1})
	if n == 2 {
		st.versions = append(st.versions, storage.ObjectVersion{Key: storage.MustNewObjectKey("k"), VersionID: "v1", IsDeleteMarker: olderIsMarker, LastModified: verifC25At(500), Size: 1})
	}
	rule := storage.LifecycleRule{Status: storage.LifecycleRuleStatusEnabled, Expiration: &storage.LifecycleExpiration{}}
	if verifBool("rule-disabled") {
		rule.Status = storage.LifecycleRuleStatusDisabled
	}
	flag := verifPick("expired-object-delete-marker", 0, 2) // 0 absent, 1 false, 2 true
	t, f := true, false
	switch flag {
	case 1:
		rule.Expiration.ExpiredObjectDeleteMarker = &f
	case 2:
		rule.Expiration.ExpiredObjectDeleteMarker = &t
	}
	m := verifC25Middleware(st, now)
	m.reconcileBucket(context.Background(), storage.MustNewBucketName("bucket"), &storage.BucketLifecycleConfiguration{Rules: []storage.LifecycleRule{rule}}, nil)
	onlyMarkers := currentIsMarker && (n == 1 || olderIsMarker)
	due := rule.Status == storage.LifecycleRuleStatusEnabled && flag == 2 && onlyMarkers
	if !due {
		verifAssert(len(st.calls) == 0, "C25: a version was deleted although no rule makes it due (delete-marker expiration)")
		return
	}
	verifCover("marker-expired")
	verifAssert(len(st.calls) == 1 && st.calls[0].kind == "delete" && st.calls[0].versionID != nil && *st.calls[0].versionID == "v0", "C25: the expired delete marker was not removed by its version id")
}
