package PKGNAME

import (
	"context"
	"io"
)

type contextT = context.Context

var verifBg = context.Background()

type ioReader = io.Reader
