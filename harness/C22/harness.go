package PKGNAME

// C22: a notification outbox entry exists for a matching rule if and only if
// the mutation that produced it committed; every entry is delivered at least
// once or dead-lettered after the configured number of failed attempts.
//
// The real StorageMiddleware and SQLRepository run over sqlsym; the inner
// storage is the generated double, the publisher a scripted double.

import (
	"bytes"
	"errors"
	"time"

	"github.com/jdillenkofer/pithos/internal/lifecycle"
	"github.com/jdillenkofer/pithos/internal/storage"
	"github.com/jdillenkofer/pithos/internal/storage/database"
	"github.com/jdillenkofer/pithos/internal/storage/middlewares/delegator"
	"github.com/oklog/ulid/v2"
	"go.opentelemetry.io/otel"
	dbsql "database/sql"
)

var verifErrInjected = errors.New("verif: injected failure")

type verifPublisher struct {
	outcomes    []bool // true = success, consumed in order; then success
	published   []string
	maxAttempts int
	ids         []string // entries seen
	failures    []int    // failed attempts per entry
	mustBeDead  []bool   // a publish failed when the attempt count had reached MaxAttempts
}

func (p *verifPublisher) slot(id string) int {
	for i, x := range p.ids {
		if x == id {
			return i
		}
	}
	p.ids, p.failures, p.mustBeDead = append(p.ids, id), append(p.failures, 0), append(p.mustBeDead, false)
	return len(p.ids) - 1
}

func (p *verifPublisher) exhausted() int {
	n := 0
	for i, f := range p.failures {
		if (p.maxAttempts > 0 && f >= p.maxAttempts) || p.mustBeDead[i] {
			n++
		}
	}
	return n
}

func (p *verifPublisher) Publish(ctx contextT, entry *OutboxEntry) error {
	i := p.slot(entry.ID.String())
	verifAssert(p.maxAttempts == 0 || p.failures[i] < p.maxAttempts, "an entry was retried after exhausting the configured number of attempts")
	verifAssert(!p.mustBeDead[i], "an entry that had exhausted its attempts (counting claims of dispatchers that died) was delivered again instead of being dead-lettered")
	ok := true
	if len(p.outcomes) > 0 {
		ok, p.outcomes = p.outcomes[0], p.outcomes[1:]
	}
	if !ok {
		p.failures[i]++
		if p.maxAttempts > 0 && entry.Attempts >= p.maxAttempts {
			p.mustBeDead[i] = true
		}
		return verifErrInjected
	}
	p.published = append(p.published, entry.ID.String())
	return nil
}
func (p *verifPublisher) Validate(ctx contextT, arn string, destination Destination) error { return nil }

// failing repository wrapper
type verifRepo struct {
	Repository
	failSaveAt int
	saves      int
	savedTx    []*dbsql.Tx
}

func (r *verifRepo) Save(ctx contextT, tx *dbsql.Tx, outboxID string, entry *OutboxEntry) error {
	r.savedTx = append(r.savedTx, tx)
	if r.saves == r.failSaveAt {
		r.saves++
		return verifErrInjected
	}
	r.saves++
	return r.Repository.Save(ctx, tx, outboxID, entry)
}

func verifNewMiddleware(inner storage.Storage, repo Repository, pub Publisher, maxAttempts int) *StorageMiddleware {
	lc, err := lifecycle.NewValidatedLifecycle("NotificationStorageMiddleware")
	if err != nil {
		panic(err)
	}
	return &StorageMiddleware{
		DelegatingStorage:  delegator.Wrap(inner),
		ValidatedLifecycle: lc,
		db:                 verifNewDB(),
		repository:         repo,
		publisher:          pub,
		outboxID:           "ob",
		claimOwner:         "ob:notification:w",
		claimLeaseDuration: 30 * time.Second,
		dispatcher:         DispatcherConfig{MaxAttempts: maxAttempts}.withDefaults(),
		metrics:            &notificationMetrics{},
		trigger:            make(chan struct{}, 16),
		tracer:             otel.Tracer("verif"),
	}
}

func (m *StorageMiddleware) verifCount() (total, pending, dead int) {
	err := database.WithTx(verifBg, m.db, &dbsql.TxOptions{ReadOnly: true}, func(ctx contextT, tx database.Tx) error {
		var err error
		if total, err = m.repository.Count(ctx, tx.SqlTx(), m.outboxID); err != nil {
			return err
		}
		if pending, err = m.repository.CountPending(ctx, tx.SqlTx(), m.outboxID); err != nil {
			return err
		}
		dead, err = m.repository.CountDeadLettered(ctx, tx.SqlTx(), m.outboxID)
		return err
	})
	if err != nil {
		panic(err)
	}
	return
}

var verifEventPatterns = []string{"s3:ObjectCreated:*", "s3:ObjectCreated:Put", "s3:ObjectRemoved:*", "s3:ObjectTagging:Put", "s3:ObjectCreated:Copy"}

// reference matcher (written independently of RuleMatches)
func verifRefMatches(pattern string, prefix, suffix *string, event, key string) bool {
	evOK := pattern == event
	if n := len(pattern); n >= 2 && pattern[n-2:] == ":*" {
		stem := pattern[:n-1]
		evOK = evOK || (len(event) >= len(stem) && event[:len(stem)] == stem)
	}
	if !evOK {
		return false
	}
	if prefix != nil && !(len(key) >= len(*prefix) && key[:len(*prefix)] == *prefix) {
		return false
	}
	if suffix != nil && !(len(key) >= len(*suffix) && key[len(key)-len(*suffix):] == *suffix) {
		return false
	}
	return true
}

type verifRule struct {
	pattern        string
	prefix, suffix *string
}

func verifMkRule(tag string) (verifRule, storage.NotificationConfigurationRule) {
	r := verifRule{pattern: verifEventPatterns[verifPick(tag+"-event", 0, len(verifEventPatterns)-1)]}
	rule := storage.NotificationConfigurationRule{DestinationARN: "arn:aws:sns:eu-central-1:1:" + tag, Events: []string{r.pattern}}
	filters := []string{"a", "b", "ab"}
	if tag == "r2" {
		// the second rule varies in its event pattern and prefix only
		if verifBool(tag + "-has-prefix") {
			v := filters[0]
			r.prefix = &v
			rule.FilterRules = append(rule.FilterRules, storage.NotificationFilterRule{Name: "prefix", Value: v})
		}
		return r, rule
	}
	if verifBool(tag + "-has-prefix") {
		v := filters[verifPick(tag+"-prefix", 0, 2)]
		r.prefix = &v
		rule.FilterRules = append(rule.FilterRules, storage.NotificationFilterRule{Name: "prefix", Value: v})
	}
	if verifBool(tag + "-has-suffix") {
		v := filters[verifPick(tag+"-suffix", 0, 2)]
		r.suffix = &v
		rule.FilterRules = append(rule.FilterRules, storage.NotificationFilterRule{Name: "suffix", Value: v})
	}
	return r, rule
}

// VerifC22Enqueue: entries exist exactly for matching rules of committed
// mutations; mutation and inserts share one transaction.
func VerifC22Enqueue() {
	inner := &verifDouble{name: "inner"}
	repo := &verifRepo{Repository: NewSQLRepository(), failSaveAt: verifPick("fail-save-at", -1, 1)}
	m := verifNewMiddleware(inner, repo, &verifPublisher{}, 0)
	bucket := storage.MustNewBucketName("bucket")
	keyStr := []string{"a", "b", "ab", "ba"}[verifPick("key", 0, 3)]
	key := storage.MustNewObjectKey(keyStr)

	nRules := verifPick("rules", 0, verifParam("max-rules", 1))
	config := &storage.BucketNotificationConfiguration{EventBridgeEnabled: verifBool("eventbridge")}
	var rules []verifRule
	for i := 0; i < nRules; i++ {
		r, rule := verifMkRule([]string{"r1", "r2"}[i])
		rules = append(rules, r)
		if i == 0 {
			config.TopicConfigurations = append(config.TopicConfigurations, rule)
		} else {
			config.QueueConfigurations = append(config.QueueConfigurations, rule)
		}
	}
	// another bucket, whose rules match everything, to tell apart events
	// attributed to the wrong bucket
	otherConfig := &storage.BucketNotificationConfiguration{TopicConfigurations: []storage.NotificationConfigurationRule{
		{DestinationARN: "arn:aws:sns:eu-central-1:1:other1", Events: []string{"s3:ObjectCreated:*"}},
		{DestinationARN: "arn:aws:sns:eu-central-1:1:other2", Events: []string{"s3:ObjectCreated:*"}},
		{DestinationARN: "arn:aws:sns:eu-central-1:1:other3", Events: []string{"s3:ObjectCreated:*"}}}}
	inner.fnGetBucketNotificationConfiguration = func(ctx contextT, b storage.BucketName) (*storage.BucketNotificationConfiguration, error) {
		if b.String() != "bucket" {
			return otherConfig, nil
		}
		return config, nil
	}
	mutationFails := verifBool("mutation-fails")
	if mutationFails {
		inner.err = verifErrInjected
	}
	// the transaction the inner mutation runs under
	var innerTx *dbsql.Tx
	seeTx := func(ctx contextT) {
		if tc, ok := database.TxControllerFromContext(ctx); ok {
			innerTx = tc.SqlTx()
		}
	}
	inner.fnPutObjectTagging = func(ctx contextT, b storage.BucketName, k storage.ObjectKey, tags map[string]string, o *storage.ObjectTaggingOptions) error {
		seeTx(ctx)
		return inner.err
	}
	inner.fnDeleteObject = func(ctx contextT, b storage.BucketName, k storage.ObjectKey, o *storage.DeleteObjectOptions) (*storage.DeleteObjectResult, error) {
		seeTx(ctx)
		if inner.err != nil {
			return nil, inner.err
		}
		return &storage.DeleteObjectResult{}, nil
	}
	inner.fnCopyObject = func(ctx contextT, sb storage.BucketName, sk storage.ObjectKey, db storage.BucketName, dk storage.ObjectKey, o *storage.CopyObjectOptions) (*storage.CopyObjectResult, error) {
		seeTx(ctx)
		if inner.err != nil {
			return nil, inner.err
		}
		return &storage.CopyObjectResult{}, nil
	}
	inner.fnPutObject = func(ctx contextT, b storage.BucketName, k storage.ObjectKey, ct *string, data ioReader, ci *storage.ChecksumInput, o *storage.PutObjectOptions) (*storage.PutObjectResult, error) {
		seeTx(ctx)
		if inner.err != nil {
			return nil, inner.err
		}
		return &storage.PutObjectResult{}, nil
	}

	// bulk delete: which of the two entries the inner storage really deleted
	bulkDeleted := [2]bool{}
	bulkKeys := [2]string{keyStr, "zz"}
	inner.fnDeleteObjects = func(ctx contextT, b storage.BucketName, entries []storage.DeleteObjectsInputEntry) (*storage.DeleteObjectsResult, error) {
		seeTx(ctx)
		if inner.err != nil {
			return nil, inner.err
		}
		res := &storage.DeleteObjectsResult{}
		for i, e := range entries {
			res.Entries = append(res.Entries, storage.DeleteObjectsEntry{Key: e.Key, Deleted: bulkDeleted[i]})
		}
		return res, nil
	}

	var err error
	event := ""
	bulk := false
	switch verifPick("op", 0, 4) {
	case 4:
		bulk = true
		event = EventObjectRemovedDelete
		bulkDeleted = [2]bool{verifBool("first-deleted"), verifBool("second-deleted")}
		_, err = m.DeleteObjects(verifBg, bucket, []storage.DeleteObjectsInputEntry{{Key: key}, {Key: storage.MustNewObjectKey("zz")}})
		verifCover("bulk-delete")
	case 0:
		event = EventObjectCreatedPut
		_, err = m.PutObject(verifBg, bucket, key, nil, bytes.NewReader([]byte("x")), nil, nil)
	case 1:
		event = EventObjectRemovedDelete
		_, err = m.DeleteObject(verifBg, bucket, key, nil)
	case 2:
		event = EventObjectCreatedCopy
		srcBucket := bucket
		if verifBool("cross-bucket-copy") {
			srcBucket = storage.MustNewBucketName("otherbucket")
		}
		_, err = m.CopyObject(verifBg, srcBucket, storage.MustNewObjectKey("src"), bucket, key, nil)
	case 3:
		event = EventObjectTaggingPut
		err = m.PutObjectTagging(verifBg, bucket, key, map[string]string{"t": "1"}, nil)
	}
	want := 0
	if bulk {
		// one event per entry that was really deleted
		for i, k := range bulkKeys {
			if !bulkDeleted[i] {
				continue
			}
			for _, r := range rules {
				if verifRefMatches(r.pattern, r.prefix, r.suffix, event, k) {
					want++
				}
			}
			if config.EventBridgeEnabled {
				want++
			}
		}
	} else {
		for _, r := range rules {
			if verifRefMatches(r.pattern, r.prefix, r.suffix, event, keyStr) {
				want++
			}
		}
		if config.EventBridgeEnabled {
			want++
		}
	}
	total, _, _ := m.verifCount()
	saveFails := repo.failSaveAt >= 0 && repo.failSaveAt < want
	if mutationFails || saveFails {
		verifCover("rolled-back")
		verifAssert(err != nil, "a failed mutation or outbox insert was reported as success")
		verifAssert(total == 0, "a notification entry exists although the mutation did not commit")
		return
	}
	verifCover("committed")
	verifAssert(err == nil, "the mutation failed")
	verifAssert(total == want, "the number of notification entries differs from the number of matching rules")
	verifAssert(innerTx != nil, "the mutation ran outside the notification transaction")
	for _, tx := range repo.savedTx {
		verifAssert(tx == innerTx, "the outbox insert used a different transaction than the mutation")
	}
}

// VerifC22Dispatch: delivery, retry and dead-lettering.
func VerifC22Dispatch() {
	maxAttempts := verifPick("max-attempts", 0, 2)
	n := verifPick("entries", 1, 2)
	rounds := verifParam("rounds", 3)
	pub := &verifPublisher{maxAttempts: maxAttempts}
	fails := 0
	for i := 0; i < rounds*n; i++ {
		ok := !verifBool("publish-fails")
		if !ok {
			fails++
		}
		pub.outcomes = append(pub.outcomes, ok)
	}
	m := verifNewMiddleware(&verifDouble{name: "inner"}, NewSQLRepository(), pub, maxAttempts)
	for i := 0; i < n; i++ {
		verifMust(database.WithTx(verifBg, m.db, nil, func(ctx contextT, tx database.Tx) error {
			return m.repository.Save(ctx, tx.SqlTx(), m.outboxID, &OutboxEntry{DestinationARN: "arn:aws:sns:eu-central-1:1:t", EventName: EventObjectCreatedPut, Payload: []byte("p")})
		}))
	}
	for r := 0; r < rounds; r++ {
		if verifBool("dispatcher-dies-after-claim") {
			// another dispatcher claims an entry (the attempt is counted) and
			// dies; its lease expires
			verifCover("crashed-claim")
			_, _, err := m.claim(verifBg)
			verifMust(err)
			verifClockSeq += 100
		}
		m.dispatchAvailable(verifBg)
		verifClockSeq += 10 // let back-off periods pass
		total, pending, dead := m.verifCount()
		verifAssert(total == pending+dead, "entry counts are inconsistent")
		// at-least-once: an entry leaves the table only by a successful publish
		verifAssert(n-total == len(pub.published), "an entry disappeared without having been published (or was published twice)")
		if maxAttempts == 0 {
			verifAssert(dead == 0, "an entry was dead-lettered although retries are unlimited")
		}
		verifAssert(dead == pub.exhausted(), "dead-lettered entries are not exactly those that exhausted the configured attempts")
	}
	total, pending, dead := m.verifCount()
	if fails == 0 {
		verifCover("all-delivered")
		verifAssert(total == 0 && len(pub.published) == n, "entries were not delivered although the publisher always succeeded")
	}
	if dead > 0 {
		verifCover("dead-lettered")
		verifAssert(maxAttempts > 0 && fails >= 1, "an entry was dead-lettered without a failed delivery")
	}
	_ = pending
	// a dead-lettered entry is never published afterwards
	before := len(pub.published)
	pub.outcomes = nil
	m.dispatchAvailable(verifBg)
	_, pending2, dead2 := m.verifCount()
	verifAssert(dead2 == dead, "a dead-lettered entry was retried")
	verifAssert(len(pub.published)-before == pending-pending2, "publish count and pending count disagree")
}

func verifMust(err error) {
	if err != nil {
		panic(err)
	}
}

// ---- redirect targets -------------------------------------------------------

var verifUlidSeq uint64
var verifClockSeq int64

func verifStubUlidMake() ulid.ULID {
	verifUlidSeq++
	var id ulid.ULID
	id[5] = 1
	id[14] = byte(verifUlidSeq >> 8)
	id[15] = byte(verifUlidSeq)
	return id
}

func verifStubNow() time.Time {
	if verifClockFrozen {
		return time.Unix(1700000000, 0).UTC()
	}
	verifClockSeq++
	return time.Unix(1700000000+verifClockSeq, 0).UTC()
}

func verifStubSince(t time.Time) time.Duration { return time.Millisecond }

func verifStubBuildPayload(payloadFormat PayloadFormat, event ObjectEvent) ([]byte, error) {
	return []byte(event.EventName), nil
}

// the back-off value (float64 math.Pow) is outside the encoder: one MinBackoff
func verifStubNextAttemptAt(m *StorageMiddleware, entry *OutboxEntry) time.Time {
	return verifStubNow().Add(m.dispatcher.MinBackoff)
}

func verifStubRecord1(m *notificationMetrics, outboxID string, entry *OutboxEntry)                       {}
func verifStubRecord2(m *notificationMetrics, outboxID string, entry *OutboxEntry, latency time.Duration) {}
func verifStubSetPending(m *notificationMetrics, outboxID string, pending int, deadLettered int)        {}

// ---- back-off unit ------------------------------------------------------------

var verifClockFrozen bool
var verifC22LastDelay time.Duration
var verifC22Adds int

// Time.Add divides by 1e9, which no available solver decides for a symbolic
// 64-bit duration (see the guidance notes): in the back-off unit the executor
// records the duration handed to Time.Add instead; everywhere else (and in
// every native replay) the real Add runs.
func verifStubTimeAdd(t time.Time, d time.Duration) time.Time {
	if verifClockFrozen {
		verifC22LastDelay = d
		verifC22Adds++
		return t
	}
	return t.Add(d)
}

// calls made from a verifStub* function are not redirected: this reaches the
// real nextAttemptAt (whose own time.Now call is still the stubbed clock)
func verifStubRealNextAttemptAt(m *StorageMiddleware, e *OutboxEntry) time.Time {
	return m.nextAttemptAt(e)
}

// VerifC22Backoff: the real nextAttemptAt (float64 arithmetic, math.Pow) for
// every attempt count and every configured pair of limits: the retry delay is
// min(MinBackoff * 2^(attempts-1), MaxBackoff), hence never below MinBackoff
// and never above MaxBackoff.
func VerifC22Backoff() {
	attempts := verifInt("attempts")
	// limits of at least 1 ms (the native replay measures against the real
	// clock, so a delay that collapses to zero must be off by more than the few
	// microseconds a call takes) and at most 2^53 ns (104 days), below which
	// float64 holds every nanosecond count exactly
	minB := verifInt64("minBackoff")
	maxB := verifInt64("maxBackoff")
	verifAssume(attempts >= -(1<<31) && attempts <= 1<<31)
	verifAssume(minB >= 1000000 && minB <= maxB && maxB <= 1<<53)
	m := &StorageMiddleware{dispatcher: DispatcherConfig{MinBackoff: time.Duration(minB), MaxBackoff: time.Duration(maxB)}}
	e := &OutboxEntry{Attempts: attempts}
	var lo, hi int64
	if !verifNative() {
		verifClockFrozen = true
		verifC22Adds = 0
		verifStubRealNextAttemptAt(m, e)
		verifClockFrozen = false
		verifAssert(verifC22Adds == 1, "C22 harness: nextAttemptAt is expected to add exactly one duration to the clock")
		lo, hi = int64(verifC22LastDelay), int64(verifC22LastDelay)
	} else {
		// real clock: the delay lies in [at-after, at-before]
		before := time.Now().UTC()
		at := verifStubRealNextAttemptAt(m, e)
		after := time.Now().UTC()
		lo, hi = int64(at.Sub(after)), int64(at.Sub(before))
	}

	exp := attempts - 1
	if exp < 0 {
		exp = 0
	}
	want := maxB
	if exp < 53 && minB <= maxB>>uint(exp) {
		want = minB << uint(exp)
		verifCover("exponential")
	} else {
		verifCover("clamped")
	}
	verifAssert(hi >= minB, "C22: retry back-off below the configured minimum")
	verifAssert(lo <= maxB, "C22: retry back-off above the configured maximum")
	verifAssert(lo <= want && want <= hi, "C22: retry back-off is not min(MinBackoff*2^(attempts-1), MaxBackoff)")
}
