package PKGNAME

// C21: through the outbox storage a read reflects every write accepted before
// it, and once the outbox is drained the inner storage is in the state obtained
// by applying the accepted writes in acceptance order.
//
// The real outboxStorage runs over the real SQLite storage-outbox repository
// (database/sql interpreted by sqlsym). The inner storage is a reference store
// behind the generated double. The worker has no goroutine here: it runs when
// the solver schedules a flush step, and whenever a waiting reader sleeps
// (time.Sleep is redirected to one worker run).

import (
	"bytes"
	"io"
	"sync"
	"time"

	"github.com/jdillenkofer/pithos/internal/checksumutils"
	"github.com/jdillenkofer/pithos/internal/lifecycle"
	"github.com/jdillenkofer/pithos/internal/storage"
	sqliteOutboxRepo "github.com/jdillenkofer/pithos/internal/storage/database/sqlite/repository/storageoutboxentry"
	storageOutboxEntry "github.com/jdillenkofer/pithos/internal/storage/database/repository/storageoutboxentry"
	"github.com/oklog/ulid/v2"
	"github.com/prometheus/client_golang/prometheus"
	"go.opentelemetry.io/otel"
)

// ---- metric doubles ---------------------------------------------------------

type verifCounter struct{ prometheus.Counter }

func (verifCounter) Inc()        {}
func (verifCounter) Add(float64) {}

type verifGauge struct{ prometheus.Gauge }

func (verifGauge) Set(float64) {}

type verifHistogram struct{ prometheus.Histogram }

func (verifHistogram) Observe(float64) {}

// ---- reference store --------------------------------------------------------

type verifObj struct {
	exists bool
	body   []byte
	nTags  int
	nMeta  int  // user metadata entries
	cc     bool // Cache-Control present
	ver    bool // written while the bucket's versioning was enabled
}

type verifStore struct {
	bucket  bool
	keys    [2]verifObj
	applied int  // mutations applied
	failAt  int  // the failAt-th mutation fails once (-1: never)
	failed  bool // the injected failure has happened
	ver     bool // bucket versioning enabled
}

var verifKeyNames = [2]string{"a", "b"}

func verifKeyIdx(k storage.ObjectKey) int {
	if k.String() == "b" {
		return 1
	}
	return 0
}

func (s *verifStore) fault() bool {
	if !s.failed && s.failAt == s.applied {
		s.failed = true
		return true
	}
	return false
}

func verifInnerStore(s *verifStore) *verifDouble {
	d := &verifDouble{name: "inner"}
	d.fnGetBucketVersioningConfiguration = func(ctx contextT, b storage.BucketName) (*storage.BucketVersioningConfiguration, error) {
		if !s.bucket {
			return nil, storage.ErrNoSuchBucket
		}
		if s.ver {
			st := storage.BucketVersioningStatusEnabled
			return &storage.BucketVersioningConfiguration{Status: &st}, nil
		}
		return &storage.BucketVersioningConfiguration{}, nil
	}
	d.fnPutBucketVersioningConfiguration = func(ctx contextT, b storage.BucketName, c *storage.BucketVersioningConfiguration) error {
		if !s.bucket {
			return storage.ErrNoSuchBucket
		}
		s.ver = c != nil && c.Status != nil && *c.Status == storage.BucketVersioningStatusEnabled
		return nil
	}
	d.fnCreateBucket = func(ctx contextT, b storage.BucketName) error {
		if s.fault() {
			return verifErrInjected
		}
		if s.bucket {
			return storage.ErrBucketAlreadyExists
		}
		s.bucket = true
		s.applied++
		return nil
	}
	d.fnDeleteBucket = func(ctx contextT, b storage.BucketName) error {
		if s.fault() {
			return verifErrInjected
		}
		if !s.bucket {
			return storage.ErrNoSuchBucket
		}
		if s.keys[0].exists || s.keys[1].exists {
			return storage.ErrBucketNotEmpty
		}
		s.bucket = false
		s.applied++
		return nil
	}
	d.fnPutObject = func(ctx contextT, b storage.BucketName, k storage.ObjectKey, ct *string, data io.Reader, ci *storage.ChecksumInput, o *storage.PutObjectOptions) (*storage.PutObjectResult, error) {
		if s.fault() {
			return nil, verifErrInjected
		}
		if !s.bucket {
			return nil, storage.ErrNoSuchBucket
		}
		body, err := io.ReadAll(data)
		if err != nil {
			return nil, err
		}
		obj := verifObj{exists: true, body: body, ver: s.ver}
		if o != nil {
			if o.IfNoneMatchStar && s.keys[verifKeyIdx(k)].exists {
				return nil, storage.ErrPreconditionFailed
			}
			obj.nTags = len(o.Tags)
			if o.Metadata != nil {
				obj.nMeta, obj.cc = len(o.Metadata.UserMetadata), o.Metadata.CacheControl != nil
			}
		}
		s.keys[verifKeyIdx(k)] = obj
		s.applied++
		return &storage.PutObjectResult{}, nil
	}
	d.fnDeleteObject = func(ctx contextT, b storage.BucketName, k storage.ObjectKey, o *storage.DeleteObjectOptions) (*storage.DeleteObjectResult, error) {
		if s.fault() {
			return nil, verifErrInjected
		}
		if !s.bucket {
			return nil, storage.ErrNoSuchBucket
		}
		s.keys[verifKeyIdx(k)] = verifObj{}
		s.applied++
		return &storage.DeleteObjectResult{}, nil
	}
	d.fnHeadBucket = func(ctx contextT, b storage.BucketName) (*storage.Bucket, error) {
		if !s.bucket {
			return nil, storage.ErrNoSuchBucket
		}
		return &storage.Bucket{Name: b}, nil
	}
	d.fnHeadObject = func(ctx contextT, b storage.BucketName, k storage.ObjectKey, o *storage.HeadObjectOptions) (*storage.Object, error) {
		if !s.bucket {
			return nil, storage.ErrNoSuchBucket
		}
		obj := s.keys[verifKeyIdx(k)]
		if !obj.exists {
			return nil, storage.ErrNoSuchKey
		}
		return &storage.Object{Key: k, Size: int64(len(obj.body))}, nil
	}
	d.fnGetObject = func(ctx contextT, b storage.BucketName, k storage.ObjectKey, rg []storage.ByteRange, o *storage.GetObjectOptions) (*storage.Object, []io.ReadCloser, error) {
		if !s.bucket {
			return nil, nil, storage.ErrNoSuchBucket
		}
		obj := s.keys[verifKeyIdx(k)]
		if !obj.exists {
			return nil, nil, storage.ErrNoSuchKey
		}
		return &storage.Object{Key: k, Size: int64(len(obj.body))}, []io.ReadCloser{io.NopCloser(bytes.NewReader(obj.body))}, nil
	}
	d.fnListObjects = func(ctx contextT, b storage.BucketName, o storage.ListObjectsOptions) (*storage.ListBucketResult, error) {
		if !s.bucket {
			return nil, storage.ErrNoSuchBucket
		}
		res := &storage.ListBucketResult{}
		for i, obj := range s.keys {
			if obj.exists {
				res.Objects = append(res.Objects, storage.Object{Key: storage.MustNewObjectKey(verifKeyNames[i])})
			}
		}
		return res, nil
	}
	return d
}

var verifErrInjected = io.ErrClosedPipe

// ---- the outbox under test --------------------------------------------------

var verifOutbox *outboxStorage

func verifNewOutbox(inner storage.Storage) *outboxStorage {
	lc, err := lifecycle.NewValidatedLifecycle("OutboxStorage")
	if err != nil {
		panic(err)
	}
	repo, err := sqliteOutboxRepo.NewRepository()
	if err != nil {
		panic(err)
	}
	var _ storageOutboxEntry.Repository = repo
	os := &outboxStorage{
		ValidatedLifecycle:           lc,
		db:                           verifNewDB(),
		triggerChannel:               make(chan struct{}, 16),
		shutdownChannel:              make(chan struct{}),
		outboxId:                     "ob",
		claimOwner:                   "ob:worker",
		claimLeaseDuration:           30 * time.Second,
		innerStorage:                 inner,
		storageOutboxEntryRepository: repo,
		tracer:                       otel.Tracer("verif"),
		metrics:                      &outboxMetrics{pendingEntries: verifGauge{}, processedEntries: verifCounter{}, processingDuration: verifHistogram{}, errorsCounter: verifCounter{}},
	}
	verifOutbox = os
	if verifNative() {
		// natively time.Sleep really sleeps: a helper goroutine plays the worker
		// while (and only while) a reader is waiting
		go func() {
			for {
				time.Sleep(20 * time.Millisecond)
				verifReadMu.Lock()
				if verifReading {
					os.maybeProcessOutboxEntries(verifBg)
				}
				verifReadMu.Unlock()
			}
		}()
	}
	return os
}

var verifReadMu sync.Mutex
var verifReading bool

const verifStuckMsg = "a read is still waiting after several worker runs: the accepted writes never drain"

func verifRead(f func()) {
	if !verifNative() {
		verifSleeps = 0
		f()
		return
	}
	verifReadMu.Lock()
	verifReading = true
	verifReadMu.Unlock()
	done := make(chan struct{})
	go func() { f(); close(done) }()
	select {
	case <-done:
	case <-time.After(4 * time.Second):
		verifAssert(false, verifStuckMsg)
	}
	verifReadMu.Lock()
	verifReading = false
	verifReadMu.Unlock()
}

var verifSleeps int

func bytesEq(a, b []byte) bool {
	if len(a) != len(b) {
		return false
	}
	eq := true
	for i := range a {
		eq = verifAnd(eq, a[i] == b[i])
	}
	return eq
}

// VerifC21History: writes, worker flushes and reads in solver-chosen order.
func VerifC21History() {
	inner := &verifStore{failAt: verifPick("fail-at", -1, 2)}
	os := verifNewOutbox(verifInnerStore(inner))
	bucket := storage.MustNewBucketName("bucket")
	model := verifStore{}
	if verifBool("bucket-preexists") {
		inner.bucket, model.bucket = true, true
	}
	steps := verifParam("steps", 3)
	for s := 0; s < steps; s++ {
		switch verifPick("op", 0, 10) {
		case 10: // versioning is enabled: every write accepted before must replay under the old configuration
			verifAssume(model.bucket && !model.ver)
			verifAssume(inner.failAt < 0 || inner.failed)
			st := storage.BucketVersioningStatusEnabled
			var err error
			verifRead(func() {
				err = os.PutBucketVersioningConfiguration(verifBg, bucket, &storage.BucketVersioningConfiguration{Status: &st})
			})
			verifAssert(err == nil, "PutBucketVersioningConfiguration failed")
			verifCover("versioning-enabled")
			model.ver = true
		case 0: // create bucket
			verifAssume(!model.bucket)
			verifAssert(os.CreateBucket(verifBg, bucket) == nil, "CreateBucket not accepted")
			model.bucket = true
		case 1: // put
			verifAssume(model.bucket)
			// under enabled versioning a put is written through: the injected failure is for replays
			verifAssume(!model.ver || inner.failAt < 0 || inner.failed)
			k := verifPick("key", 0, 1)
			body := []byte{verifByte("body")}
			var opts *storage.PutObjectOptions
			want := verifObj{exists: true, body: body, ver: model.ver}
			switch verifPick("put-options", 0, 3) {
			case 1:
				opts, want.nTags = &storage.PutObjectOptions{Tags: map[string]string{"t": "1"}}, 1
			case 2:
				opts, want.nMeta = &storage.PutObjectOptions{Metadata: &storage.ObjectMetadata{UserMetadata: map[string]string{"alpha": "1"}}}, 1
			case 3:
				cc := "no-cache"
				opts, want.cc = &storage.PutObjectOptions{Metadata: &storage.ObjectMetadata{CacheControl: &cc}}, true
			}
			_, err := os.PutObject(verifBg, bucket, storage.MustNewObjectKey(verifKeyNames[k]), nil, bytes.NewReader(body), nil, opts)
			verifAssert(err == nil, "PutObject not accepted")
			model.keys[k] = want
		case 9: // conditional put (If-None-Match: *): evaluated against every accepted write
			verifAssume(model.bucket)
			// the injected failure is for replays; a write-through would just report it
			verifAssume(inner.failAt < 0 || inner.failed)
			k := verifPick("key", 0, 1)
			body := []byte{verifByte("body")}
			var err error
			verifRead(func() {
				_, err = os.PutObject(verifBg, bucket, storage.MustNewObjectKey(verifKeyNames[k]), nil, bytes.NewReader(body), nil, &storage.PutObjectOptions{IfNoneMatchStar: true})
			})
			verifCover("conditional-put")
			if model.keys[k].exists {
				verifAssert(err == storage.ErrPreconditionFailed, "If-None-Match:* put over an accepted (possibly still queued) object was not refused")
			} else {
				verifAssert(err == nil, "If-None-Match:* put on an absent key was refused")
				model.keys[k] = verifObj{exists: true, body: body, ver: model.ver}
			}
		case 2: // delete object
			verifAssume(model.bucket)
			k := verifPick("key", 0, 1)
			_, err := os.DeleteObject(verifBg, bucket, storage.MustNewObjectKey(verifKeyNames[k]), nil)
			verifAssert(err == nil, "DeleteObject not accepted")
			model.keys[k] = verifObj{}
		case 3: // delete bucket
			verifAssume(model.bucket && !model.keys[0].exists && !model.keys[1].exists)
			verifAssert(os.DeleteBucket(verifBg, bucket) == nil, "DeleteBucket not accepted")
			model.bucket = false
		case 4: // the worker runs
			verifCover("flush")
			os.maybeProcessOutboxEntries(verifBg)
		case 5: // read: HeadObject
			k := verifPick("key", 0, 1)
			var obj *storage.Object
			var err error
			verifRead(func() { obj, err = os.HeadObject(verifBg, bucket, storage.MustNewObjectKey(verifKeyNames[k]), nil) })
			verifCover("read")
			verifAssert((err == nil) == (model.bucket && model.keys[k].exists), "HeadObject does not reflect the accepted writes")
			if err == nil {
				verifAssert(obj.Size == int64(len(model.keys[k].body)), "HeadObject reports a stale size")
			}
		case 6: // read: GetObject
			k := verifPick("key", 0, 1)
			var readers []io.ReadCloser
			var err error
			verifRead(func() { _, readers, err = os.GetObject(verifBg, bucket, storage.MustNewObjectKey(verifKeyNames[k]), nil, nil) })
			verifAssert((err == nil) == (model.bucket && model.keys[k].exists), "GetObject does not reflect the accepted writes")
			if err == nil {
				body, _ := io.ReadAll(readers[0])
				verifAssert(bytesEq(body, model.keys[k].body), "GetObject returned a stale body")
			}
		case 7: // read: ListObjects
			var res *storage.ListBucketResult
			var err error
			verifRead(func() { res, err = os.ListObjects(verifBg, bucket, storage.ListObjectsOptions{MaxKeys: 10}) })
			verifAssert((err == nil) == model.bucket, "ListObjects does not reflect the accepted bucket operations")
			if err == nil {
				n := 0
				for _, o := range model.keys {
					if o.exists {
						n++
					}
				}
				verifAssert(len(res.Objects) == n, "ListObjects does not reflect the accepted writes")
			}
		case 8: // read: HeadBucket
			var err error
			verifRead(func() { _, err = os.HeadBucket(verifBg, bucket) })
			verifAssert((err == nil) == model.bucket, "HeadBucket does not reflect the accepted bucket operations")
		}
	}
	// drain: two runs (a run stops at an injected inner failure)
	os.maybeProcessOutboxEntries(verifBg)
	os.maybeProcessOutboxEntries(verifBg)
	verifCover("drained")
	verifAssert(inner.bucket == model.bucket, "after draining, the inner storage's bucket differs from the accepted history")
	for k := 0; k < 2; k++ {
		verifAssert(inner.keys[k].exists == model.keys[k].exists, "after draining, a key's existence differs from the accepted history")
		if model.keys[k].exists {
			verifAssert(bytesEq(inner.keys[k].body, model.keys[k].body), "after draining, a key's content differs from the accepted history")
			verifAssert(inner.keys[k].ver == model.keys[k].ver, "after draining, a write was applied under another versioning configuration than it was accepted under")
			verifAssert(inner.keys[k].nTags == model.keys[k].nTags, "after draining, a key's tags differ from the accepted history")
			verifAssert(inner.keys[k].nMeta == model.keys[k].nMeta && inner.keys[k].cc == model.keys[k].cc, "after draining, a key's metadata differs from the accepted history")
		}
	}
}

// ---- redirect targets -------------------------------------------------------

var verifUlidSeq uint64
var verifClockSeq int64

func verifStubUlidMake() ulid.ULID {
	verifUlidSeq++
	var id ulid.ULID
	id[5] = 1
	id[14] = byte(verifUlidSeq >> 8)
	id[15] = byte(verifUlidSeq)
	return id
}

func verifStubNow() time.Time {
	verifClockSeq++
	return time.Unix(1700000000+verifClockSeq, 0).UTC()
}

// a waiting reader sleeps: the worker gets to run
func verifStubSleep(d time.Duration) {
	verifSleeps++
	verifAssert(verifSleeps <= 3, verifStuckMsg)
	verifOutbox.maybeProcessOutboxEntries(verifBg)
}

func verifStubRetryWait(ctx contextT) {}

func verifStubHeartbeat(os *outboxStorage, ctx contextT, entry *storageOutboxEntry.Entity) func() {
	return func() {}
}

func verifStubChecksums(ctx contextT, reader io.Reader, doRead func(reader io.Reader) error) (*int64, *checksumValues, error) {
	data, err := io.ReadAll(reader)
	if err != nil {
		return nil, nil, err
	}
	if err := doRead(bytes.NewReader(data)); err != nil {
		return nil, nil, err
	}
	n := int64(len(data))
	e := "etag"
	return &n, &checksumValues{ETag: &e}, nil
}

type checksumValues = checksumutils.ChecksumValues

func verifStubSince(t time.Time) time.Duration { return time.Millisecond }
