package PKGNAME

// VerifC13Sequence: content, ETag and Last-Modified of an existing version never
// change under later operations.
func VerifC13Sequence() {
	verifExtraOps = []int{8, 10}
	defer func() { verifExtraOps = []int{8} }()
	verifVersionsRun(verifParam("steps", 2), true, "C02-latest-promotion-by-created-at", "C13-last-modified-bumped")
}

// VerifC13AfterEnabledPut: the same from the history  enable . put(v1).
func VerifC13AfterEnabledPut() {
	verifExtraOps = []int{8, 10}
	defer func() { verifExtraOps = []int{8} }()
	verifVersionsRunFrom([]int{3, 0}, verifParam("steps", 2), true, "C02-latest-promotion-by-created-at", "C13-last-modified-bumped")
}
