package PKGNAME

// C03: an operation that returns an error leaves every bucket, object, version,
// upload and listing exactly as it was. One operation is run from each set-up
// history, either with a request that fails a precondition or with an injected
// failure at the f-th fault point (transaction begin, every part-store call,
// the main repository statements); the observable state is snapshotted through
// the public API before and after.

import (
	"bytes"
	"errors"

	"github.com/jdillenkofer/pithos/internal/storage"
)

type verifKeySnap struct {
	kind    int // 0 ok, 1 NoSuchBucket, 2 NoSuchKey, 3 delete marker, 4 other
	body    []byte
	size    int64
	ct      *string
	etag    string
	version *string
	tagsErr int
	nTags   int
}

type verifSnap struct {
	bucket   int
	keys     [2]verifKeySnap
	versions int
	uploads  int
	parts    int
	listed   int
}

func verifErrKind(err error) int {
	var dm *storage.CurrentDeleteMarkerError
	switch {
	case err == nil:
		return 0
	case err == storage.ErrNoSuchBucket:
		return 1
	case err == storage.ErrNoSuchKey:
		return 2
	case errors.As(err, &dm):
		return 3
	}
	return 4
}

func verifTakeSnap(e *verifEnv, m *verifModel) verifSnap {
	var s verifSnap
	_, err := e.st.HeadBucket(verifCtx, e.bucket)
	s.bucket = verifErrKind(err)
	for k := 0; k < 2; k++ {
		ks := &s.keys[k]
		body, obj, err := e.read(verifKeys[k])
		ks.kind = verifErrKind(err)
		if err == nil {
			ks.body, ks.size, ks.ct, ks.etag, ks.version = body, obj.Size, obj.ContentType, obj.ETag, obj.VersionID
		}
		tags, terr := e.st.GetObjectTagging(verifCtx, e.bucket, verifKeys[k], nil)
		ks.tagsErr, ks.nTags = verifErrKind(terr), len(tags)
	}
	if s.bucket != 0 {
		return s
	}
	lv, err := e.st.ListObjectVersions(verifCtx, e.bucket, storage.ListObjectVersionsOptions{MaxKeys: 100})
	verifMust(err)
	s.versions = len(lv.Versions)
	lo, err := e.st.ListObjects(verifCtx, e.bucket, storage.ListObjectsOptions{MaxKeys: 100})
	verifMust(err)
	s.listed = len(lo.Objects)
	lu, err := e.st.ListMultipartUploads(verifCtx, e.bucket, storage.ListMultipartUploadsOptions{MaxUploads: 100})
	verifMust(err)
	s.uploads = len(lu.Uploads)
	if m.up.active {
		lp, err := e.st.ListParts(verifCtx, e.bucket, verifKeys[m.up.key], m.up.id, storage.ListPartsOptions{MaxParts: 100})
		verifMust(err)
		s.parts = len(lp.Parts)
	}
	return s
}

func verifStrPtrEq(a, b *string) bool {
	if a == nil || b == nil {
		return a == nil && b == nil
	}
	return *a == *b
}

func verifSnapEq(a, b verifSnap) bool {
	eq := a.bucket == b.bucket && a.versions == b.versions && a.uploads == b.uploads && a.parts == b.parts && a.listed == b.listed
	for k := 0; k < 2; k++ {
		x, y := a.keys[k], b.keys[k]
		eq = verifAnd(eq, x.kind == y.kind && x.size == y.size && x.tagsErr == y.tagsErr && x.nTags == y.nTags)
		eq = verifAnd(eq, verifStrPtrEq(x.ct, y.ct))
		eq = verifAnd(eq, verifStrPtrEq(x.version, y.version))
		eq = verifAnd(eq, verifStrEq(x.etag, y.etag))
		eq = verifAnd(eq, verifBytesEq(x.body, y.body))
	}
	return eq
}

const (
	fPut = iota
	fPutIfNoneMatch
	fPutIfMatchWrong
	fAppend
	fAppendWrongOffset
	fCopy
	fDelete
	fDeleteIfMatchWrong
	fMPCreate
	fMPPart
	fMPPartBogusUpload
	fMPComplete
	fMPCompleteBadManifest
	fMPAbort
	fCreateBucket
	fDeleteBucket
	fPutTagging
	fCount
)

// VerifC03FailedOperation: set-up history, snapshot, one operation (possibly
// with an injected failure), snapshot; if the operation failed the snapshots
// must be equal.
func VerifC03FailedOperation() {
	e := verifNewEnv(nil)
	m := &verifModel{}
	verifSetup(e, m, verifParam("init", 2))
	before := verifTakeSnap(e, m)

	op := verifPick("op", 0, fCount-1)
	k := verifPick("key", 0, 1)
	key := verifKeys[k]
	body := verifSymBody("body", 1)
	wrong := "no-such-etag"
	tags := map[string]string{"t": "1"}
	fault := verifPick("fault", -1, verifParam("faults", 8))
	verifArmFault(fault)
	var err error
	switch op {
	case fPut:
		_, err = e.st.PutObject(verifCtx, e.bucket, key, nil, bytes.NewReader(body), nil, &storage.PutObjectOptions{Tags: tags})
	case fPutIfNoneMatch:
		_, err = e.st.PutObject(verifCtx, e.bucket, key, nil, bytes.NewReader(body), nil, &storage.PutObjectOptions{IfNoneMatchStar: true})
		if fault < 0 && m.bucket && m.keys[k].exists {
			verifCover("precondition-failed")
			verifAssert(err == storage.ErrPreconditionFailed, "If-None-Match:* on an existing key did not fail")
		}
	case fPutIfMatchWrong:
		_, err = e.st.PutObject(verifCtx, e.bucket, key, nil, bytes.NewReader(body), nil, &storage.PutObjectOptions{IfMatchETag: &wrong})
		if fault < 0 && m.bucket {
			verifAssert(err == storage.ErrPreconditionFailed, "If-Match with a wrong ETag did not fail")
		}
	case fAppend:
		_, err = e.st.AppendObject(verifCtx, e.bucket, key, bytes.NewReader(body), nil, nil)
	case fAppendWrongOffset:
		off := int64(7)
		_, err = e.st.AppendObject(verifCtx, e.bucket, key, bytes.NewReader(body), nil, &storage.AppendObjectOptions{WriteOffset: &off})
		if fault < 0 && m.bucket {
			verifCover("invalid-write-offset")
			verifAssert(err == storage.ErrInvalidWriteOffset, "append at a wrong offset did not fail")
		}
	case fCopy:
		_, err = e.st.CopyObject(verifCtx, e.bucket, key, e.bucket, verifKeys[1-k], nil)
	case fDelete:
		_, err = e.st.DeleteObject(verifCtx, e.bucket, key, nil)
	case fDeleteIfMatchWrong:
		_, err = e.st.DeleteObject(verifCtx, e.bucket, key, &storage.DeleteObjectOptions{IfMatchETag: &wrong})
		if fault < 0 && m.bucket {
			verifAssert(err != nil, "conditional delete with a wrong ETag succeeded")
		}
	case fMPCreate:
		_, err = e.st.CreateMultipartUpload(verifCtx, e.bucket, key, nil, nil, nil)
	case fMPPart:
		verifAssume(m.up.active)
		_, err = e.st.UploadPart(verifCtx, e.bucket, verifKeys[m.up.key], m.up.id, int32(verifPick("part", 1, 2)), bytes.NewReader(body), nil)
	case fMPPartBogusUpload:
		_, err = e.st.UploadPart(verifCtx, e.bucket, key, storage.MustNewUploadId("bogus"), 1, bytes.NewReader(body), nil)
		verifAssert(err != nil, "UploadPart to an unknown upload succeeded")
	case fMPComplete:
		verifAssume(m.up.active)
		_, err = e.st.CompleteMultipartUpload(verifCtx, e.bucket, verifKeys[m.up.key], m.up.id, nil, nil)
	case fMPCompleteBadManifest:
		verifAssume(m.up.active)
		_, err = e.st.CompleteMultipartUpload(verifCtx, e.bucket, verifKeys[m.up.key], m.up.id, nil,
			&storage.CompleteMultipartUploadOptions{Parts: []storage.CompleteMultipartUploadPart{{PartNumber: 2}, {PartNumber: 1}}})
		if fault < 0 {
			verifCover("invalid-part-order")
			verifAssert(err != nil, "completion with a mis-ordered manifest succeeded")
		}
	case fMPAbort:
		verifAssume(m.up.active)
		err = e.st.AbortMultipartUpload(verifCtx, e.bucket, verifKeys[m.up.key], m.up.id)
	case fCreateBucket:
		err = e.st.CreateBucket(verifCtx, e.bucket)
	case fDeleteBucket:
		err = e.st.DeleteBucket(verifCtx, e.bucket)
	case fPutTagging:
		err = e.st.PutObjectTagging(verifCtx, e.bucket, key, tags, nil)
	}
	injected := verifFaultAt >= 0 && verifFaultSeen > verifFaultAt
	verifArmFault(-1)
	if injected {
		verifCover("fault-injected")
		verifAssert(err != nil, "an injected part-store/database failure was swallowed: the operation reported success")
	}
	if err == nil {
		return
	}
	verifCover("failed-operation")
	after := verifTakeSnap(e, m)
	verifAssert(verifSnapEq(before, after), "a failed operation changed the observable state")
}
