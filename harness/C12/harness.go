package PKGNAME

// C12: AppendObject extends the object; an append with a write offset succeeds
// only if the offset equals the current size. Serial histories of whole
// operations (each operation is one transaction; SQLite has a single writer).

import (
	"bytes"

	"github.com/jdillenkofer/pithos/internal/storage"
)

func verifSetVersioning(e *verifEnv, mode int) {
	if mode == 0 {
		return
	}
	status := storage.BucketVersioningStatusEnabled
	if mode == 2 {
		status = storage.BucketVersioningStatusSuspended
	}
	verifMust(e.st.PutBucketVersioningConfiguration(verifCtx, e.bucket, &storage.BucketVersioningConfiguration{Status: &status}))
}

func verifBody(tag string, n int) []byte {
	b := make([]byte, n)
	for i := range b {
		b[i] = verifByte(tag)
	}
	return b
}

// VerifC12Sequence drives put/append/delete on one key and compares with the
// reference model (exists, content) after every step.
func VerifC12Sequence() {
	steps := verifParam("steps", 2)
	e := verifNewEnv(nil)
	verifMust(e.st.CreateBucket(verifCtx, e.bucket))
	verifSetVersioning(e, verifPick("versioning", 0, 2))
	key := storage.MustNewObjectKey("k")
	ct := "text/plain"

	exists := false
	var model []byte
	if verifPick("init", 0, 1) == 1 {
		// the object starts as a completed multipart upload (1-based part numbers)
		up, err := e.st.CreateMultipartUpload(verifCtx, e.bucket, key, &ct, nil, nil)
		verifMust(err)
		p1 := verifBody("mp", 1)
		_, err = e.st.UploadPart(verifCtx, e.bucket, key, up.UploadId, 1, bytes.NewReader(p1), nil)
		verifMust(err)
		_, err = e.st.CompleteMultipartUpload(verifCtx, e.bucket, key, up.UploadId, nil, nil)
		verifMust(err)
		exists, model = true, p1
	}

	for s := 0; s < steps; s++ {
		switch verifPick("op", 0, 3) {
		case 0: // put
			body := verifBody("put", verifPick("putlen", 0, 2))
			_, err := e.st.PutObject(verifCtx, e.bucket, key, &ct, bytes.NewReader(body), nil, nil)
			verifAssert(err == nil, "put failed")
			exists, model = true, body
		case 1: // append without offset
			body := verifBody("app", verifPick("applen", 0, 2))
			res, err := e.st.AppendObject(verifCtx, e.bucket, key, bytes.NewReader(body), nil, nil)
			verifAssert(err == nil, "append without offset failed")
			model = append(append([]byte(nil), model...), body...)
			exists = true
			verifAssert(res.Size == int64(len(model)), "append result size")
		case 2: // append with offset
			body := verifBody("appo", verifPick("appolen", 0, 2))
			off := verifInt64("offset")
			verifAssume(off >= -1 && off <= 8)
			res, err := e.st.AppendObject(verifCtx, e.bucket, key, bytes.NewReader(body), nil, &storage.AppendObjectOptions{WriteOffset: &off})
			if off == int64(len(model)) {
				verifCover("append-offset-accepted")
				verifAssert(err == nil, "append at the current size was rejected")
				model = append(append([]byte(nil), model...), body...)
				exists = true
				verifAssert(res.Size == int64(len(model)), "append result size")
			} else {
				verifCover("append-offset-rejected")
				verifAssert(err == storage.ErrInvalidWriteOffset, "append at a wrong offset was not rejected with ErrInvalidWriteOffset")
			}
		case 3: // delete
			_, err := e.st.DeleteObject(verifCtx, e.bucket, key, nil)
			verifAssert(err == nil, "delete failed")
			exists, model = false, nil
		}
		got, obj, err := e.read(key)
		if !exists {
			verifAssert(err != nil, "deleted object is readable")
			continue
		}
		verifAssert(err == nil, "object unreadable")
		verifAssert(obj.Size == int64(len(model)), "size differs from model")
		verifAssert(verifBytesEq(got, model), "content differs from model")
		verifAssert(obj.ContentType == nil || *obj.ContentType == ct, "content type changed")
	}
}
