package PKGNAME

// C12, concurrent appends at the metadata layer: an appender that built its part
// list from a read that a competing, already committed append has made stale
// must be refused - otherwise one of the two acknowledged appends is lost.

import (
	"github.com/jdillenkofer/pithos/internal/storage/metadatapart/metadatastore"
	"github.com/jdillenkofer/pithos/internal/storage/metadatapart/partstore"
)

func verifC12Part(n int) partstore.PartId {
	return *partstore.MustNewPartIdFromString([]string{"01ARZ3NDEKTSV4RRFFQ69G5FA1", "01ARZ3NDEKTSV4RRFFQ69G5FA2", "01ARZ3NDEKTSV4RRFFQ69G5FA3"}[n])
}

func VerifC12StaleAppend() {
	verifUlidSeq, verifClockSeq = 0, 0
	tx := verifTx()
	var status *string
	if verifBool("suspended") {
		s := "Suspended"
		status = &s
	}
	verifInsertBucket(tx, "bucket", status)
	sms := verifStore()
	bucket := metadatastore.MustNewBucketName("bucket")
	key := metadatastore.MustNewObjectKey("k")
	a, b, c := verifC12Part(0), verifC12Part(1), verifC12Part(2)
	part := func(id partstore.PartId, etag string) metadatastore.Part {
		return metadatastore.Part{Id: id, Size: 1, ETag: etag}
	}
	_, err := sms.PutObject(verifCtx, tx, bucket, &metadatastore.Object{Key: key, ETag: "e1", Size: 1, Parts: []metadatastore.Part{part(a, "a")}}, nil)
	verifAssert(err == nil, "PutObject failed")
	// both appenders read the object now: parts [A], size 1
	competitor := verifBool("competing-append-commits-first")
	if competitor {
		_, err := sms.AppendObject(verifCtx, tx, bucket, &metadatastore.Object{Key: key, ETag: "e2", Size: 2, Parts: []metadatastore.Part{part(a, "a"), part(b, "b")}}, &metadatastore.AppendObjectOptions{})
		verifAssert(err == nil, "the competing append failed")
	}
	_, err = sms.AppendObject(verifCtx, tx, bucket, &metadatastore.Object{Key: key, ETag: "e3", Size: 2, Parts: []metadatastore.Part{part(a, "a"), part(c, "c")}}, &metadatastore.AppendObjectOptions{})
	obj, herr := sms.HeadObject(verifCtx, tx, bucket, key)
	verifAssert(herr == nil, "HeadObject failed")
	if !competitor {
		verifCover("append-accepted")
		verifAssert(err == nil, "an append built on a current read was refused")
		verifAssert(len(obj.Parts) == 2 && obj.Parts[1].Id == c && obj.Size == 2, "the accepted append is not the object's last part")
		return
	}
	verifCover("stale-append")
	if err == nil {
		// accepted: then both acknowledged appends must be there, each once
		verifAssert(len(obj.Parts) == 3 && obj.Parts[1].Id == b && obj.Parts[2].Id == c && obj.Size == 3, "an acknowledged append was lost: the stale append was accepted without the competing part (or without its own)")
	} else {
		verifAssert(len(obj.Parts) == 2 && obj.Parts[1].Id == b && obj.Size == 2, "a refused append changed the object")
	}
}
