package PKGNAME

// C15 kernel: ReadChunk returns exactly the next min(max, remaining) bytes of
// the reader, whatever sizes the reader's individual reads have, and io.EOF
// exactly when the source is exhausted.

import "io"

type verifShortReader struct {
	data []byte
	off  int
}

func (r *verifShortReader) Read(p []byte) (int, error) {
	if r.off >= len(r.data) {
		return 0, io.EOF
	}
	n := len(r.data) - r.off
	if n > len(p) {
		n = len(p)
	}
	// a reader may return fewer bytes than asked for
	k := verifPick("read-size", 1, n)
	copy(p, r.data[r.off:r.off+k])
	r.off += k
	if r.off == len(r.data) && verifBool("eof-with-data") {
		return k, io.EOF
	}
	return k, nil
}

func VerifC15ReadChunk() {
	n := verifPick("len", 0, verifParam("maxlen", 4))
	data := verifBytes("data", n)
	max := verifPick("max", 1, 3)
	r := &verifShortReader{data: data}
	var got []byte
	for i := 0; ; i++ {
		verifAssert(i <= n+1, "ReadChunk makes no progress")
		chunk, err := ReadChunk(r, max)
		verifAssert(len(chunk) <= max, "ReadChunk returned more than max bytes")
		got = append(got, chunk...)
		if err != nil {
			verifAssert(err == io.EOF, "ReadChunk failed")
			break
		}
		verifAssert(len(chunk) == max, "ReadChunk returned a short chunk without reporting the end of the stream")
	}
	verifCover("read-chunk")
	verifAssert(len(got) == n, "the chunks do not add up to the source length")
	eq := true
	for i := range got {
		eq = verifAnd(eq, got[i] == data[i])
	}
	verifAssert(eq, "the chunks are not the source bytes in order")
}
