package PKGNAME

// C15, erasure coding: GetPart returns exactly the bytes PutPart was given for
// sizes around the stripe boundary (stripe = 2 data shards x 1024 bytes), also
// after any one shard was lost and again after the read that healed it; a
// deleted part reads as not found and is no longer listed.
//
// Under the executor the Reed-Solomon coder is the 2+1 XOR code (parity = d0 ^ d1),
// SHA-256 is an injective stub, the three shard stores are in-memory doubles and
// the pipe-fed goroutines run in the sequential goroutine model. Natively the
// real klauspost/reedsolomon coder, SHA-256 and io.Pipe run.

import (
	"bytes"
	"context"
	"errors"
	"io"

	"github.com/jdillenkofer/pithos/internal/storage/database"
	"github.com/jdillenkofer/pithos/internal/storage/metadatapart/partstore"
	"github.com/klauspost/reedsolomon"
)

type verifECShardStore struct {
	present bool
	data    []byte
}

func (s *verifECShardStore) Start(ctx context.Context) error { return nil }
func (s *verifECShardStore) Stop(ctx context.Context) error  { return nil }
func (s *verifECShardStore) PutPart(ctx context.Context, tx database.Tx, id partstore.PartId, r io.Reader) error {
	data, err := io.ReadAll(r)
	if err != nil {
		return err
	}
	s.present, s.data = true, data
	return nil
}
func (s *verifECShardStore) GetPart(ctx context.Context, tx database.Tx, id partstore.PartId) (io.ReadCloser, error) {
	if !s.present {
		return nil, partstore.ErrPartNotFound
	}
	return io.NopCloser(bytes.NewReader(s.data)), nil
}
func (s *verifECShardStore) GetPartIds(ctx context.Context, tx database.Tx) ([]partstore.PartId, error) {
	if !s.present {
		return nil, nil
	}
	return []partstore.PartId{*partstore.MustNewPartIdFromString("01ARZ3NDEKTSV4RRFFQ69G5FAV")}, nil
}
func (s *verifECShardStore) DeletePart(ctx context.Context, tx database.Tx, id partstore.PartId) error {
	s.present, s.data = false, nil
	return nil
}

// the 2+1 XOR code behind the reedsolomon.Encoder methods the store uses
type verifXorCoder struct{ reedsolomon.Encoder }

func (verifXorCoder) Encode(shards [][]byte) error {
	for i := range shards[2] {
		shards[2][i] = shards[0][i] ^ shards[1][i]
	}
	return nil
}
func (verifXorCoder) fill(shards [][]byte, upTo int) error {
	missing := -1
	for i := 0; i < 3; i++ {
		if len(shards[i]) == 0 {
			if missing >= 0 {
				return errors.New("too few shards")
			}
			missing = i
		}
	}
	if missing < 0 || missing >= upTo {
		return nil
	}
	a, b := shards[(missing+1)%3], shards[(missing+2)%3]
	out := make([]byte, len(a))
	for i := range a {
		out[i] = a[i] ^ b[i]
	}
	shards[missing] = out
	return nil
}
func (x verifXorCoder) ReconstructData(shards [][]byte) error { return x.fill(shards, 2) }
func (x verifXorCoder) Reconstruct(shards [][]byte) error     { return x.fill(shards, 3) }

func verifStubSum256(data []byte) [32]byte {
	var out [32]byte
	copy(out[:], verifHashBytes("sha256", 32, data))
	return out
}

var verifECSizes = []int{0, 1, 2, 3, 2047, 2048, 2049, 2050, 2051}

func VerifC15ErasureCoding() {
	shards := []*verifECShardStore{{}, {}, {}}
	stores := []partstore.PartStore{shards[0], shards[1], shards[2]}
	var st partstore.PartStore
	if verifNative() {
		var err error
		st, err = NewWithPartStores(2, 1, 1024, stores)
		if err != nil {
			panic(err)
		}
	} else {
		st = &erasureCodingPartStore{partStores: stores, partLocker: newPartLocker(), dataShards: 2, parityShards: 1, totalShards: 3, stripeShardSz: 1024, enc: verifXorCoder{}}
	}
	ctx := context.Background()
	id := *partstore.MustNewPartIdFromString("01ARZ3NDEKTSV4RRFFQ69G5FAV")
	n := verifECSizes[verifPick("size", 0, len(verifECSizes)-1)]
	body := make([]byte, n)
	// symbolic bytes at the ends of the body and at the shard / stripe seams
	for k, pos := range []int{0, 1, 1023, 1024, 2047, 2048, n - 2, n - 1} {
		if pos >= 0 && pos < n {
			body[pos] = verifByte("b" + string(rune('0'+k)))
		}
	}
	verifAssert(st.PutPart(ctx, nil, id, bytes.NewReader(body)) == nil, "erasure coding: PutPart failed")
	read := func(what string) {
		rc, err := st.GetPart(ctx, nil, id)
		verifAssert(err == nil, "erasure coding: GetPart failed "+what)
		got, rerr := io.ReadAll(rc)
		rc.Close()
		verifAssert(rerr == nil, "erasure coding: reading the part failed "+what)
		verifAssert(len(got) == n, "erasure coding: GetPart returned a different number of bytes than PutPart was given "+what)
		eq := true
		for _, pos := range []int{0, 1, 1023, 1024, 2047, 2048, n - 2, n - 1} {
			if pos >= 0 && pos < n {
				eq = verifAnd(eq, got[pos] == body[pos])
			}
		}
		verifAssert(eq, "erasure coding: GetPart returned other bytes than PutPart was given "+what)
	}
	lose := verifPick("lose-shard", 0, 3) // 3: none
	if lose < 3 {
		shards[lose].present, shards[lose].data = false, nil
		read("with one shard lost")
		verifCover("shard-lost")
		// the healing write of that read must leave the part readable
		read("after a healing read")
	} else {
		read("with all shards present")
	}
	if n > 2048 {
		verifCover("two-stripes")
	}
	ids, err := st.GetPartIds(ctx, nil)
	verifAssert(err == nil && len(ids) == 1 && ids[0] == id, "erasure coding: GetPartIds does not list exactly the live part")
	verifAssert(st.DeletePart(ctx, nil, id) == nil, "erasure coding: DeletePart failed")
	rc, err := st.GetPart(ctx, nil, id)
	if err == nil {
		rc.Close()
	}
	verifAssert(err == partstore.ErrPartNotFound, "erasure coding: a deleted part does not read as not found")
	ids, err = st.GetPartIds(ctx, nil)
	verifAssert(err == nil && len(ids) == 0, "erasure coding: a deleted part is still listed")
}
