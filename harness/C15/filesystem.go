package PKGNAME

// C15: the filesystem part store returns the bytes it was given (with and
// without a transaction, after commit and after rollback) and its file-name
// codec is a bijection on part ids.

import (
	"errors"
	"bytes"
	dbsql "database/sql"
	"io"

	"github.com/jdillenkofer/pithos/internal/storage/database"
	"github.com/jdillenkofer/pithos/internal/storage/metadatapart/partstore"
)

func VerifC15FilenameCodec() {
	raw := verifBytes("id", 16)
	id, err := partstore.NewPartIdFromBytes(raw)
	verifMust(err)
	s := &filesystemPartStore{root: "/data"}
	name := s.getFilename(*id)
	verifAssert(len(name) == len("/data/")+32, "file name length")
	back, ok := s.tryGetPartIdFromFilename(name[len("/data/"):])
	verifCover("codec")
	verifAssert(ok && back.Equal(*id), "the file name does not decode to the part id it encodes")
}

func VerifC15FSRoundTrip() {
	root := "/data"
	var sqlTx *dbsql.Tx
	if verifNative() {
		root, sqlTx = verifNativeRoot(), verifNativeSqlTx()
	} else {
		sqlTx = new(dbsql.Tx)
		verifSQLBegin(sqlTx)
	}
	s := verifNewStore(root)
	id := *partstore.MustNewPartIdFromString("01ARZ3NDEKTSV4RRFFQ69G5FA1")
	present := false
	var body []byte
	if verifBool("preexisting") {
		body = []byte("old")
		verifMust(s.PutPart(verifBg, nil, id, bytes.NewReader(body)))
		present = true
	}
	newBody := verifBytes("body", verifPick("len", 0, 2))
	del := verifBool("delete")
	if verifBool("in-transaction") {
		tx := database.NewTx(sqlTx)
		if del {
			verifMust(s.DeletePart(verifBg, tx, id))
		} else {
			verifMust(s.PutPart(verifBg, tx, id, bytes.NewReader(newBody)))
		}
		switch verifPick("end", 0, 2) {
		case 1:
			verifMust(tx.Commit(verifBg))
			present, body = !del, newBody
		case 0:
			verifMust(tx.Rollback(verifBg))
		case 2:
			// another participant's pre-commit hook fails after this store's hooks
			// ran (the part is already published / moved away): the commit fails and
			// the rollback has to undo that too
			tx.OnPreCommit(func(contextT) error { return errors.New("verif: late pre-commit failure") })
			verifAssert(tx.Commit(verifBg) != nil, "Commit succeeded although a pre-commit hook failed") // Commit rolls back itself
			verifCover("late-failure")
		}
	} else {
		if del {
			verifMust(s.DeletePart(verifBg, nil, id))
		} else {
			verifMust(s.PutPart(verifBg, nil, id, bytes.NewReader(newBody)))
		}
		present, body = !del, newBody
	}
	got, err := verifReadPart(s, id)
	ids, lerr := s.GetPartIds(verifBg, nil)
	verifMust(lerr)
	if !present {
		verifAssert(err == partstore.ErrPartNotFound, "a deleted or never written part is not reported as not found")
		verifAssert(len(ids) == 0, "GetPartIds lists a part that is not there")
		return
	}
	verifCover("fs-read-back")
	verifAssert(err == nil && len(got) == len(body), "GetPart returned a different number of bytes than PutPart was given")
	eq := true
	for k := range got {
		eq = verifAnd(eq, got[k] == body[k])
	}
	verifAssert(eq, "GetPart returned different bytes than PutPart was given")
	verifAssert(len(ids) == 1 && ids[0].Equal(id), "GetPartIds does not list exactly the live part")
	_ = io.EOF
}
