package PKGNAME

import "time"

var verifClockSeq int64

func verifStubNow() time.Time {
	verifClockSeq++
	return time.Unix(1700000000+verifClockSeq, 0).UTC()
}
