package PKGNAME

// C15: the SQL part store returns exactly the bytes it was given, lists exactly
// the live part ids and reports a deleted part as not found - for every
// content including the empty one. The real sqlPartStore runs over the real
// SQLite part-content repository (sqlsym).

import (
	"bytes"
	dbsql "database/sql"
	"io"

	"github.com/jdillenkofer/pithos/internal/storage/database"
	sqliteContent "github.com/jdillenkofer/pithos/internal/storage/database/sqlite/repository/partcontent"
	"github.com/jdillenkofer/pithos/internal/storage/metadatapart/partstore"
)

func verifMust(err error) {
	if err != nil {
		panic(err)
	}
}

type verifModel struct {
	present bool
	body    []byte
}

func VerifC15SQLRoundTrip() {
	db := verifNewDB()
	repo, err := sqliteContent.NewRepository()
	verifMust(err)
	st, err := New(db, repo)
	verifMust(err)
	s := st.(*sqlPartStore)
	ids := []partstore.PartId{*partstore.MustNewPartIdFromString("01ARZ3NDEKTSV4RRFFQ69G5FAV"), *partstore.MustNewPartIdFromString("01ARZ3NDEKTSV4RRFFQ69G5FAW")}
	var model [2]verifModel
	steps := verifParam("steps", 2)
	for i := 0; i < steps; i++ {
		p := verifPick("part", 0, 1)
		commit := verifBool("commit")
		var after verifModel
		err := database.WithTx(verifBg, db, nil, func(ctx contextT, tx database.Tx) error {
			if verifBool("delete") {
				if err := s.DeletePart(ctx, tx, ids[p]); err != nil {
					return err
				}
				after = verifModel{}
			} else {
				body := verifBytes("body", verifPick("len", 0, 2))
				if err := s.PutPart(ctx, tx, ids[p], bytes.NewReader(body)); err != nil {
					return err
				}
				after = verifModel{present: true, body: body}
			}
			if !commit {
				return io.ErrClosedPipe // roll back
			}
			return nil
		})
		if commit {
			verifMust(err)
			model[p] = after
		}
		// observe
		verifMust(database.WithTx(verifBg, db, &dbsql.TxOptions{ReadOnly: true}, func(ctx contextT, tx database.Tx) error {
			live := 0
			for q := 0; q < 2; q++ {
				rc, err := s.GetPart(ctx, tx, ids[q])
				if !model[q].present {
					verifAssert(err == partstore.ErrPartNotFound, "a deleted or never written part is not reported as not found")
					continue
				}
				live++
				verifCover("read-back")
				verifAssert(err == nil, "GetPart of a stored part failed")
				got, rerr := io.ReadAll(rc)
				rc.Close()
				verifAssert(rerr == nil && len(got) == len(model[q].body), "GetPart returned a different number of bytes than PutPart was given")
				eq := true
				for k := range got {
					eq = verifAnd(eq, got[k] == model[q].body[k])
				}
				verifAssert(eq, "GetPart returned different bytes than PutPart was given")
			}
			got, err := s.GetPartIds(ctx, tx)
			verifMust(err)
			verifAssert(len(got) == live, "GetPartIds does not list exactly the live parts")
			return nil
		}))
	}
}
