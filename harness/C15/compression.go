package PKGNAME

// C15 kernel: the self-describing compression header round-trips for every
// algorithm and a header with one altered byte is never accepted.

func VerifC15Header() {
	algs := []Algorithm{AlgorithmNone, AlgorithmGzip, AlgorithmZstd}
	a := algs[verifPick("algorithm", 0, 2)]
	h := newHeader(a)
	got, ok, err := parseHeader(h[:])
	verifCover("header")
	verifAssert(err == nil && ok && got == a, "parseHeader(newHeader(a)) is not (a, true)")
	// one altered byte outside the CRC-protected... anywhere
	pos := verifPick("pos", 0, headerSize-1)
	b := verifByte("byte")
	verifAssume(b != h[pos])
	h[pos] = b
	_, ok, err = parseHeader(h[:])
	verifAssert(err == nil && !ok, "a header with an altered byte was accepted")
}
