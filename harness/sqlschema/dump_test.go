package sqlite

// Injected by overlay: dumps the schema the real migrations produce.

import (
	"fmt"
	"os"
	"path/filepath"
	"testing"
)

func TestVerifDumpSchema(t *testing.T) {
	dir, err := os.MkdirTemp("", "verif-schema-")
	if err != nil {
		t.Fatal(err)
	}
	defer os.RemoveAll(dir)
	db, err := OpenDatabase(filepath.Join(dir, "s.db"))
	if err != nil {
		t.Fatal(err)
	}
	defer db.Close()
	tx, err := db.BeginTx(t.Context(), nil)
	if err != nil {
		t.Fatal(err)
	}
	rows, err := tx.SqlTx().QueryContext(t.Context(), "SELECT sql FROM sqlite_master WHERE sql IS NOT NULL ORDER BY rowid")
	if err != nil {
		t.Fatal(err)
	}
	out := os.Getenv("VERIF_SCHEMA_OUT")
	f, err := os.Create(out)
	if err != nil {
		t.Fatal(err)
	}
	defer f.Close()
	for rows.Next() {
		var s string
		if err := rows.Scan(&s); err != nil {
			t.Fatal(err)
		}
		fmt.Fprintf(f, "%s;\n-- next\n", s)
	}
	rows.Close()
	tx.Rollback(t.Context())
}
