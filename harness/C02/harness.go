package PKGNAME

// VerifC02Sequence: every live version stays addressable with its content and
// the current version is the most recently written one that still exists.
func VerifC02Sequence() {
	verifVersionsRun(verifParam("steps", 3), false, "C02-latest-promotion-by-created-at", "")
}

// VerifC02AfterNullOverwrite: from the history  put(null) . enable . put(v1) .
// suspend . put(null, overwritten in place) . enable  continue with symbolic
// operations: the in-place overwritten null version is the most recently
// written one although its row is the oldest.
func VerifC02AfterNullOverwrite() {
	verifVersionsRunFrom([]int{0, 3, 0, 4, 0, 3}, verifParam("steps", 2), false, "C02-latest-promotion-by-created-at", "")
}
