package PKGNAME

// VerifC02Sequence: every live version stays addressable with its content and
// the current version is the most recently written one that still exists.
func VerifC02Sequence() {
	verifVersionsRun(verifParam("steps", 3), false, "C02-latest-promotion-by-created-at", "")
}

// VerifC02AfterNullOverwrite: from the history  put(null) . enable . put(v1) .
// suspend . put(null, overwritten in place) . enable  continue with symbolic
// operations: the in-place overwritten null version is the most recently
// written one although its row is the oldest.
func VerifC02AfterNullOverwrite() {
	verifVersionsRunFrom([]int{0, 3, 0, 4, 0, 3}, verifParam("steps", 2), false, "C02-latest-promotion-by-created-at", "")
}

// VerifC02AfterEnabledPut: from  enable . put(v1)  continue with symbolic
// operations (histories in which a real version exists before the bucket is
// suspended or the key deleted).
func VerifC02AfterEnabledPut() {
	verifVersionsRunFrom([]int{3, 0}, verifParam("steps", 2), false, "C02-latest-promotion-by-created-at", "")
}

// VerifC02NullNewerThanVersion: from  enable . put(v1) . suspend . put(null) .
// enable . put(v2)  continue with symbolic operations: the null version is newer
// than the surviving version v1 and older than v2.
func VerifC02NullNewerThanVersion() {
	verifVersionsRunFrom([]int{3, 0, 4, 0, 3, 0}, verifParam("steps", 1), false, "C02-latest-promotion-by-created-at", "")
}

// VerifC02NullOlderThanVersions: from  put(null, unversioned) . enable . put(v1) .
// put(v2)  continue with symbolic operations: the null version is the oldest.
func VerifC02NullOlderThanVersions() {
	verifVersionsRunFrom([]int{0, 3, 0, 0}, verifParam("steps", 1), false, "C02-latest-promotion-by-created-at", "")
}
