package PKGNAME

// C14: a storage-class transition keeps version id, content, ETag, metadata
// and tags, changes only the reported class, moves the object's part data to
// the part store mapped to the class, and every object stays readable.

import (
	"bytes"
	"context"
	dbsql "database/sql"

	"github.com/jdillenkofer/pithos/internal/storage"
	"github.com/jdillenkofer/pithos/internal/storage/database"
	"github.com/jdillenkofer/pithos/internal/storage/metadatapart/metadatastore"
)

var verifClasses = []string{"STANDARD", "STANDARD_IA", "GLACIER"}

func verifClass(c *string) string {
	if c == nil || *c == "" {
		return "STANDARD"
	}
	return *c
}

func verifClassPtr(i int) *string {
	if i == 0 {
		return nil
	}
	c := verifClasses[i]
	return &c
}

// verifPartsOf returns the part rows of the current version of key.
func verifPartsOf(e *verifEnv, key storage.ObjectKey) []metadatastore.Part {
	var parts []metadatastore.Part
	verifMust(database.WithTx(verifCtx, e.st.db, &dbsql.TxOptions{ReadOnly: true}, func(ctx context.Context, tx database.Tx) error {
		o, err := e.st.metadataStore.HeadObject(ctx, tx.SqlTx(), e.bucket, key)
		if err != nil {
			return err
		}
		parts = o.Parts
		return nil
	}))
	return parts
}

type verifObjView struct {
	body    []byte
	etag    string
	version *string
	ct      *string
	cc      *string
	nTags   int
	class   string
}

func verifView(e *verifEnv, key storage.ObjectKey) verifObjView {
	body, obj, err := e.read(key)
	verifAssert(err == nil, "object is not readable")
	tags, err := e.st.GetObjectTagging(verifCtx, e.bucket, key, nil)
	verifAssert(err == nil, "GetObjectTagging failed")
	return verifObjView{body: body, etag: obj.ETag, version: obj.VersionID, ct: obj.ContentType, cc: obj.Metadata.CacheControl, nTags: len(tags), class: verifClass(obj.StorageClass)}
}

func verifViewSame(a, b verifObjView, exceptClass bool) bool {
	eq := verifBytesEq(a.body, b.body)
	eq = verifAnd(eq, verifStrEq(a.etag, b.etag))
	eq = verifAnd(eq, verifStrPtrEq(a.version, b.version))
	eq = verifAnd(eq, verifStrPtrEq(a.ct, b.ct))
	eq = verifAnd(eq, verifStrPtrEq(a.cc, b.cc))
	eq = verifAnd(eq, a.nTags == b.nTags)
	if !exceptClass {
		eq = verifAnd(eq, a.class == b.class)
	}
	return eq
}

func VerifC14Transitions() {
	mapping := map[string]string{"GLACIER": "cold"}
	if verifParam("map", 0) == 1 {
		mapping = map[string]string{"GLACIER": "cold", "STANDARD_IA": "cold"}
	}
	e := verifNewEnv(mapping)
	verifMust(e.st.CreateBucket(verifCtx, e.bucket))
	m := &verifModel{}
	verifSetVersioning(e, m, verifParam("versioning", 0))
	a, b := verifKeys[0], verifKeys[1]
	x := verifSymBody("x", 1)
	cc, ct := "max-age=1", "text/a"
	meta := storage.ObjectMetadata{CacheControl: &cc}
	_, err := e.st.PutObject(verifCtx, e.bucket, a, &ct, bytes.NewReader(x), nil,
		&storage.PutObjectOptions{Tags: map[string]string{"t": "1"}, Metadata: &meta, StorageClass: verifClassPtr(verifPick("class-a", 0, 2))})
	verifMust(err)
	switch verifPick("shape", 0, 3) {
	case 1: // two-part object
		_, err = e.st.AppendObject(verifCtx, e.bucket, a, bytes.NewReader(verifSymBody("y", 1)), nil, nil)
		verifMust(err)
	case 2: // b is a copy of a (parts shared when the classes map to one store)
		_, err = e.st.CopyObject(verifCtx, e.bucket, a, e.bucket, b, &storage.CopyObjectOptions{StorageClass: verifClassPtr(verifPick("class-b", 0, 2))})
		verifMust(err)
	case 3: // b written independently, possibly with identical content (dedup)
		_, err = e.st.PutObject(verifCtx, e.bucket, b, nil, bytes.NewReader(verifSymBody("z", 1)), nil, &storage.PutObjectOptions{StorageClass: verifClassPtr(verifPick("class-b", 0, 2))})
		verifMust(err)
	}
	_, _, berr := e.read(b)
	hasB := berr == nil
	if verifBool("remapped-after-restart") {
		// the server restarts with GLACIER no longer mapped to the cold store
		// (STANDARD_IA takes its place): existing cold parts must still be found
		// and relocated by transitions
		verifCover("remapped")
		e = verifReopen(e, map[string]string{"STANDARD_IA": "cold"})
	}

	steps := verifParam("steps", 1)
	for s := 0; s < steps; s++ {
		key := a
		if hasB && verifBool("on-b") {
			key = b
		}
		other := b
		if key == b {
			other = a
		}
		before := verifView(e, key)
		var otherBefore verifObjView
		if hasB {
			otherBefore = verifView(e, other)
		}
		target := verifClasses[verifPick("target", 0, 2)]
		var opts *storage.TransitionObjectStorageClassOptions
		if verifBool("by-version") && before.version != nil {
			opts = &storage.TransitionObjectStorageClassOptions{VersionID: before.version}
		}
		err := e.st.TransitionObjectStorageClass(verifCtx, e.bucket, key, target, opts)
		verifAssert(err == nil, "TransitionObjectStorageClass failed")
		after := verifView(e, key)
		verifAssert(verifViewSame(before, after, true), "a transition changed version id, content, ETag, metadata or tags")
		verifAssert(after.class == target, "the reported storage class is not the target class")
		if hasB {
			verifAssert(verifViewSame(otherBefore, verifView(e, other), false), "a transition changed another object")
		}
		// the part data lives in the store mapped to the class
		wantName, _ := e.st.partStores.StoreForClass(target)
		wantStore := e.def
		if wantName != nil {
			wantStore = e.cold
			verifCover("moved-to-named-store")
		}
		for _, p := range verifPartsOf(e, key) {
			verifAssert(partStoreNamesEqual(p.StoreName, wantName), "a part row still names the old store")
			verifAssert(wantStore.find(p.Id) >= 0, "the part data is not in the store mapped to the class")
		}
	}
}
