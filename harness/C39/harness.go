package PKGNAME

// C39: decision kernel of the integrity validator. Digests are opaque 2-byte
// tokens: under collision resistance "the stored bytes changed" is exactly
// "the calculated digest differs from the recorded one".

import (
	"github.com/jdillenkofer/pithos/internal/storage"
	"github.com/jdillenkofer/pithos/internal/storage/database/repository/part"
)

func verifC39Opt(name string) *string {
	if verifBool(name + "Nil") {
		return nil
	}
	s := verifString(name, 2)
	return &s
}

func verifC39Differs(recorded *string, calculated string) bool {
	return recorded != nil && !verifStrEq(*recorded, calculated)
}

// VerifC39Part: a part is reported iff some recorded digest differs from the
// digest calculated from the bytes now in the store.
func VerifC39Part() {
	etag := ""
	if !verifBool("noETag") {
		etag = verifString("etag", 2)
	}
	p := part.Entity{ETag: etag,
		ChecksumCRC32: verifC39Opt("crc32"), ChecksumCRC32C: verifC39Opt("crc32c"), ChecksumCRC64NVME: verifC39Opt("crc64"),
		ChecksumSHA1: verifC39Opt("sha1"), ChecksumSHA256: verifC39Opt("sha256")}
	// the validator always calculates all six digests from the bytes it read
	c := [6]string{verifString("cEtag", 2), verifString("cCrc32", 2), verifString("cCrc32c", 2), verifString("cCrc64", 2), verifString("cSha1", 2), verifString("cSha256", 2)}
	calc := storage.ChecksumValues{ETag: &c[0], ChecksumCRC32: &c[1], ChecksumCRC32C: &c[2], ChecksumCRC64NVME: &c[3], ChecksumSHA1: &c[4], ChecksumSHA256: &c[5]}
	err := verifyPartChecksums(p, calc)
	corrupted := verifOr(verifAnd(etag != "", !verifStrEq(etag, c[0])),
		verifOr(verifC39Differs(p.ChecksumCRC32, c[1]), verifOr(verifC39Differs(p.ChecksumCRC32C, c[2]),
			verifOr(verifC39Differs(p.ChecksumCRC64NVME, c[3]), verifOr(verifC39Differs(p.ChecksumSHA1, c[4]), verifC39Differs(p.ChecksumSHA256, c[5]))))))
	if corrupted {
		verifAssert(err != nil, "C39: a part whose recorded digest differs from the stored bytes was not reported")
		verifCover("corrupted")
	} else {
		verifAssert(err == nil, "C39: an intact part was reported as corrupted")
		verifCover("intact")
	}
}

// VerifC39SinglePartObject: same decision at the object level for single-part
// objects (object digests are the part's digests).
func VerifC39SinglePartObject() {
	etag := ""
	if !verifBool("noETag") {
		etag = verifString("etag", 2)
	}
	o := storage.Object{ETag: etag,
		ChecksumCRC32: verifC39Opt("crc32"), ChecksumCRC32C: verifC39Opt("crc32c"), ChecksumCRC64NVME: verifC39Opt("crc64"),
		ChecksumSHA1: verifC39Opt("sha1"), ChecksumSHA256: verifC39Opt("sha256")}
	c := [6]string{verifString("cEtag", 2), verifString("cCrc32", 2), verifString("cCrc32c", 2), verifString("cCrc64", 2), verifString("cSha1", 2), verifString("cSha256", 2)}
	calc := storage.ChecksumValues{ETag: &c[0], ChecksumCRC32: &c[1], ChecksumCRC32C: &c[2], ChecksumCRC64NVME: &c[3], ChecksumSHA1: &c[4], ChecksumSHA256: &c[5]}
	err := verifyObjectChecksums(o, []part.Entity{{}}, []storage.ChecksumValues{calc})
	corrupted := verifOr(verifAnd(etag != "", !verifStrEq(etag, c[0])),
		verifOr(verifC39Differs(o.ChecksumCRC32, c[1]), verifOr(verifC39Differs(o.ChecksumCRC32C, c[2]),
			verifOr(verifC39Differs(o.ChecksumCRC64NVME, c[3]), verifOr(verifC39Differs(o.ChecksumSHA1, c[4]), verifC39Differs(o.ChecksumSHA256, c[5]))))))
	if corrupted {
		verifAssert(err != nil, "C39: a single-part object whose recorded digest differs was not reported")
		verifCover("corrupted")
	} else {
		verifAssert(err == nil, "C39: an intact single-part object was reported as corrupted")
		verifCover("intact")
	}
}
