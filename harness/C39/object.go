package PKGNAME

// C39, whole-object validation: validateObject (part loop, per-part comparison,
// object-level comparison for multipart objects of both checksum types)
// reports an object as corrupted exactly when some part's stored bytes changed
// or some part is missing. Which parts are corrupted or missing is chosen by the
// solver; the hash functions are summarised (a part's calculated digests equal
// its recorded ones iff its bytes are the original ones).

import (
	"bytes"
	"context"
	dbsql "database/sql"
	"encoding/base64"
	"io"

	"github.com/jdillenkofer/pithos/internal/checksumutils"
	"github.com/jdillenkofer/pithos/internal/storage"
	"github.com/jdillenkofer/pithos/internal/storage/database"
	"github.com/jdillenkofer/pithos/internal/storage/database/repository/object"
	"github.com/jdillenkofer/pithos/internal/storage/database/repository/part"
	"github.com/jdillenkofer/pithos/internal/storage/metadatapart/partstore"
	"github.com/oklog/ulid/v2"
)

type verifC39ObjectRepo struct{ object.Repository }

func (verifC39ObjectRepo) FindObjectByBucketNameAndKey(ctx context.Context, tx *dbsql.Tx, b storage.BucketName, k storage.ObjectKey) (*object.Entity, error) {
	id := ulid.ULID{9}
	return &object.Entity{Id: &id}, nil
}

type verifC39PartRepo struct {
	part.Repository
	parts []part.Entity
}

func (r verifC39PartRepo) FindPartsByObjectIdOrderBySequenceNumberAsc(ctx context.Context, tx *dbsql.Tx, id ulid.ULID) ([]part.Entity, error) {
	return r.parts, nil
}

type verifC39Store struct {
	partstore.PartStore
	ids     []partstore.PartId
	missing []bool
	corrupt []bool
}

func (s verifC39Store) GetPart(ctx context.Context, tx database.Tx, id partstore.PartId) (io.ReadCloser, error) {
	for i := range s.ids {
		if s.ids[i].Equal(id) {
			if s.missing[i] {
				return nil, partstore.ErrPartNotFound
			}
			b := byte('A' + i) // the original bytes of part i
			if s.corrupt[i] {
				b = 'X'
			}
			return io.NopCloser(bytes.NewReader([]byte{b})), nil
		}
	}
	return nil, partstore.ErrPartNotFound
}

// digests of the one-byte contents used here (valid hex / base64 so that the
// real multipart combination accepts them natively)
func verifC39Digests(b byte) checksumutils.ChecksumValues {
	if verifNative() {
		// natively the real hash functions run: the recorded digests are the real ones
		_, d, err := checksumutils.CalculateChecksumsStreaming(context.Background(), bytes.NewReader([]byte{b}), func(r io.Reader) error {
			_, err := io.Copy(io.Discard, r)
			return err
		})
		if err != nil {
			panic(err)
		}
		return *d
	}
	return verifC39Synthetic(b)
}

func verifC39Synthetic(b byte) checksumutils.ChecksumValues {
	etag := string([]byte{"0123456789abcdef"[b>>4], "0123456789abcdef"[b&15]})
	mk := func(n int) *string {
		raw := make([]byte, n)
		raw[0] = b
		s := base64.StdEncoding.EncodeToString(raw)
		return &s
	}
	return checksumutils.ChecksumValues{ETag: &etag, ChecksumCRC32: mk(4), ChecksumCRC32C: mk(4), ChecksumCRC64NVME: mk(8), ChecksumSHA1: mk(20), ChecksumSHA256: mk(32)}
}

// replaces checksumutils.CalculateChecksumsStreaming under the executor: the
// digests are a function of the bytes read
func verifStubChecksumsStreaming(ctx context.Context, reader io.Reader, doRead func(reader io.Reader) error) (*int64, *checksumutils.ChecksumValues, error) {
	data, err := io.ReadAll(reader)
	if err != nil {
		return nil, nil, err
	}
	if err := doRead(bytes.NewReader(data)); err != nil {
		return nil, nil, err
	}
	n := int64(len(data))
	d := verifC39Synthetic(data[0])
	return &n, &d, nil
}

// replaces checksumutils.CalculateMultipartChecksums under the executor: an
// injective rendering of the part digests it combines
func verifStubMultipartChecksums(parts []checksumutils.PartChecksums, checksumType string) (checksumutils.ChecksumValues, error) {
	join := func(tag string, get func(p checksumutils.PartChecksums) *string) *string {
		s := tag
		for _, p := range parts {
			v := get(p)
			if v == nil {
				return nil
			}
			s += "|" + *v
		}
		return &s
	}
	out := checksumutils.ChecksumValues{ETag: join("etag", func(p checksumutils.PartChecksums) *string { return &p.ETag })}
	if checksumType == checksumutils.ChecksumTypeComposite {
		out.ChecksumCRC32 = join("c32", func(p checksumutils.PartChecksums) *string { return p.ChecksumCRC32 })
		out.ChecksumCRC32C = join("c32c", func(p checksumutils.PartChecksums) *string { return p.ChecksumCRC32C })
		out.ChecksumSHA1 = join("s1", func(p checksumutils.PartChecksums) *string { return p.ChecksumSHA1 })
		out.ChecksumSHA256 = join("s256", func(p checksumutils.PartChecksums) *string { return p.ChecksumSHA256 })
	} else {
		out.ChecksumCRC32 = join("c32", func(p checksumutils.PartChecksums) *string { return p.ChecksumCRC32 })
		out.ChecksumCRC32C = join("c32c", func(p checksumutils.PartChecksums) *string { return p.ChecksumCRC32C })
		out.ChecksumCRC64NVME = join("c64", func(p checksumutils.PartChecksums) *string { return p.ChecksumCRC64NVME })
	}
	return out, nil
}

func VerifC39Object() {
	n := verifPick("parts", 1, 3)
	composite := verifBool("composite")
	st := verifC39Store{}
	var parts []part.Entity
	var pcs []checksumutils.PartChecksums
	anyBad := false
	for i := 0; i < n; i++ {
		raw := make([]byte, 16)
		raw[5], raw[15] = 5, byte(i+1)
		id, err := partstore.NewPartIdFromBytes(raw)
		if err != nil {
			panic(err)
		}
		d := verifC39Digests(byte('A' + i))
		e := part.Entity{PartId: *id, SequenceNumber: i, Size: 1, ETag: *d.ETag, ChecksumCRC32: d.ChecksumCRC32, ChecksumCRC32C: d.ChecksumCRC32C,
			ChecksumCRC64NVME: d.ChecksumCRC64NVME, ChecksumSHA1: d.ChecksumSHA1, ChecksumSHA256: d.ChecksumSHA256}
		parts = append(parts, e)
		pcs = append(pcs, checksumutils.PartChecksums{ETag: e.ETag, ChecksumCRC32: e.ChecksumCRC32, ChecksumCRC32C: e.ChecksumCRC32C, ChecksumCRC64NVME: e.ChecksumCRC64NVME,
			ChecksumSHA1: e.ChecksumSHA1, ChecksumSHA256: e.ChecksumSHA256, Size: 1})
		missing := verifBool("missing")
		corrupt := !missing && verifBool("corrupt")
		st.ids, st.missing, st.corrupt = append(st.ids, *id), append(st.missing, missing), append(st.corrupt, corrupt)
		anyBad = anyBad || missing || corrupt
	}
	// the recorded object digests are those of the original parts
	obj := storage.Object{Key: storage.MustNewObjectKey("k"), Size: int64(n)}
	if n == 1 {
		d := verifC39Digests('A')
		obj.ETag, obj.ChecksumCRC32, obj.ChecksumCRC32C, obj.ChecksumCRC64NVME, obj.ChecksumSHA1, obj.ChecksumSHA256 = *d.ETag, d.ChecksumCRC32, d.ChecksumCRC32C, d.ChecksumCRC64NVME, d.ChecksumSHA1, d.ChecksumSHA256
	} else {
		ct := checksumutils.ChecksumTypeFullObject
		if composite {
			ct = checksumutils.ChecksumTypeComposite
		}
		rec, err := checksumutils.CalculateMultipartChecksums(pcs, ct)
		if err != nil {
			panic(err)
		}
		obj.ChecksumType = &ct
		obj.ETag, obj.ChecksumCRC32, obj.ChecksumCRC32C, obj.ChecksumCRC64NVME, obj.ChecksumSHA1, obj.ChecksumSHA256 = *rec.ETag, rec.ChecksumCRC32, rec.ChecksumCRC32C, rec.ChecksumCRC64NVME, rec.ChecksumSHA1, rec.ChecksumSHA256
	}
	v := &Validator{}
	res := v.validateObject(context.Background(), verifNewDB(), st, verifC39PartRepo{parts: parts}, verifC39ObjectRepo{}, storage.MustNewBucketName("bucket"), obj)
	if anyBad {
		verifCover("object-corrupted")
		verifAssert(!res.Success, "C39: an object with a corrupted or missing part was reported intact")
	} else {
		verifCover("object-intact")
		verifAssert(res.Success, "C39: an intact object was reported corrupted")
	}
}
