package PKGNAME

// Shared support for the SQL-layer harnesses (package metadatastore/sql): the
// real sqlMetadataStore over the real SQLite repositories. Under the symbolic
// executor database/sql is interpreted by sqlsym over the schema the real
// migrations produce; natively (replay) a real SQLite database is used.

import (
	"context"
	dbsql "database/sql"
	"time"

	bucketRepo "github.com/jdillenkofer/pithos/internal/storage/database/sqlite/repository/bucket"
	objectRepo "github.com/jdillenkofer/pithos/internal/storage/database/sqlite/repository/object"
	partRepo "github.com/jdillenkofer/pithos/internal/storage/database/sqlite/repository/part"
	dedupRepo "github.com/jdillenkofer/pithos/internal/storage/database/sqlite/repository/partdedupindex"
	registryRepo "github.com/jdillenkofer/pithos/internal/storage/database/sqlite/repository/partregistry"
	tagRepo "github.com/jdillenkofer/pithos/internal/storage/database/sqlite/repository/tag"
	userMetaRepo "github.com/jdillenkofer/pithos/internal/storage/database/sqlite/repository/usermetadata"
	"github.com/oklog/ulid/v2"
	"go.opentelemetry.io/otel"
)

var verifNativeTx func() *dbsql.Tx

func verifTx() *dbsql.Tx {
	if verifNative() {
		return verifNativeTx()
	}
	return new(dbsql.Tx)
}

func verifStore() *sqlMetadataStore {
	b, _ := bucketRepo.NewRepository()
	o, _ := objectRepo.NewRepository()
	p, _ := partRepo.NewRepository()
	d, _ := dedupRepo.NewRepository()
	r, _ := registryRepo.NewRepository()
	t, _ := tagRepo.NewRepository()
	u, _ := userMetaRepo.NewRepository()
	return &sqlMetadataStore{bucketRepository: b, objectRepository: o, partRepository: p, partDedupIndexRepository: d,
		partRegistryRepository: r, tagRepository: t, userMetadataRepository: u, tracer: otel.Tracer("verif")}
}

// deterministic, strictly increasing ULIDs and clock (redirect targets)
var verifUlidSeq uint64
var verifClockSeq int64

func verifStubUlidMake() ulid.ULID {
	verifUlidSeq++
	var id ulid.ULID
	id[5] = 1 // fixed time part
	id[14] = byte(verifUlidSeq >> 8)
	id[15] = byte(verifUlidSeq)
	return id
}

func verifStubNow() time.Time {
	verifClockSeq++
	return time.Unix(1700000000+verifClockSeq, 0).UTC()
}

func verifULIDString(n int) string {
	var id ulid.ULID
	id[5] = 2
	id[15] = byte(n)
	return id.String()
}

func verifMust(err error) {
	if err != nil {
		panic(err)
	}
}

var verifCtx = context.Background()

func verifInsertBucket(tx *dbsql.Tx, name string, versioning *string) {
	_, err := tx.ExecContext(verifCtx, "INSERT INTO buckets (id, name, created_at, updated_at, versioning_status) VALUES ($1, $2, $3, $4, $5)",
		verifULIDString(200), name, time.Unix(1600000000, 0).UTC(), time.Unix(1600000000, 0).UTC(), versioning)
	verifMust(err)
}

type verifObjRow struct {
	id             string
	bucket, key    string
	etag           string
	size           int64
	versionID      *string
	isLatest       bool
	isDeleteMarker bool
	createdAt      int64
	updatedAt      int64
	uploadStatus   string
	uploadID       *string
}

func verifInsertObject(tx *dbsql.Tx, r verifObjRow) {
	if r.uploadStatus == "" {
		r.uploadStatus = "COMPLETED"
	}
	_, err := tx.ExecContext(verifCtx, "INSERT INTO objects (id, bucket_name, key, etag, size, upload_status, upload_id, created_at, updated_at, version_id, is_delete_marker, is_latest, optimistic_lock_version) VALUES ($1, $2, $3, $4, $5, $6, $7, $8, $9, $10, $11, $12, $13)",
		r.id, r.bucket, r.key, r.etag, r.size, r.uploadStatus, r.uploadID, time.Unix(r.createdAt, 0).UTC(), time.Unix(r.updatedAt, 0).UTC(), r.versionID, r.isDeleteMarker, r.isLatest, int64(1))
	verifMust(err)
}
