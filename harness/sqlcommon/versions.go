package PKGNAME

// Versioning state machine harness shared by C02 (addressability / latest) and
// C13 (immutability of existing versions).

import (
	dbsql "database/sql"
	"time"

	"github.com/jdillenkofer/pithos/internal/checksumutils"
	"github.com/jdillenkofer/pithos/internal/storage/metadatapart/metadatastore"
	"github.com/jdillenkofer/pithos/internal/storage/metadatapart/partstore"
)

func verifMPPart(n int) partstore.PartId {
	b := make([]byte, 16)
	b[5] = 7
	b[15] = byte(n + 1)
	id, err := partstore.NewPartIdFromBytes(b)
	verifMust(err)
	return *id
}

// verifStubMultipartChecksums replaces checksumutils.CalculateMultipartChecksums
// (MD5 over decoded part ETags) under the executor.
func verifStubMultipartChecksums(parts []checksumutils.PartChecksums, checksumType string) (checksumutils.ChecksumValues, error) {
	e := "mp"
	for _, p := range parts {
		e += "|" + p.ETag
	}
	return checksumutils.ChecksumValues{ETag: &e}, nil
}

type verifVersion struct {
	demoted      bool // has not been the current version after some step since it was written
	vid          string
	etag         string
	seq          int // order of the last write to this version
	rowSeq       int // order in which the version first came into existence
	marker       bool
	lastModified time.Time
}

// highest operation number drawn by the symbolic steps: 4 = plain versioning
// operations, 7 = also conditional writes/deletes (C07)
var verifMaxOp = 4

// verifExtraOps are drawn in addition to 0..verifMaxOp: 8 = multipart upload
// completed unconditionally, 9 = completed with If-Match / If-None-Match:*
var verifExtraOps = []int{8}

type verifVersionModel struct {
	versions []verifVersion
	seq      int
}

func (m *verifVersionModel) remove(vid string) {
	var out []verifVersion
	for _, v := range m.versions {
		if v.vid != vid {
			out = append(out, v)
		}
	}
	m.versions = out
}

func (m *verifVersionModel) current() *verifVersion {
	var cur *verifVersion
	for i := range m.versions {
		if cur == nil || m.versions[i].seq > cur.seq {
			cur = &m.versions[i]
		}
	}
	return cur
}

func verifSetVersioning(tx *dbsql.Tx, status string) {
	_, err := tx.ExecContext(verifCtx, "UPDATE buckets SET versioning_status = $1 WHERE name = $2", status, "bucket")
	verifMust(err)
}

// verifVersionsRun executes a symbolic sequence of versioning operations on one
// key and checks, after every step, the claims selected by checkLatest /
// checkImmutable against a ghost model of the version history.
func verifVersionsRun(steps int, checkImmutable bool, knownLatest, knownImmutable string) {
	verifVersionsRunFrom(nil, steps, checkImmutable, knownLatest, knownImmutable)
}

// verifVersionsRunFrom first replays a fixed prefix of operations (reaching a
// particular history, e.g. a null version overwritten in place while newer
// versions exist) and then continues with `steps` symbolic operations.
func verifVersionsRunFrom(prefixOps []int, steps int, checkImmutable bool, knownLatest, knownImmutable string) {
	verifUlidSeq, verifClockSeq = 0, 0
	tx := verifTx()
	verifInsertBucket(tx, "bucket", nil)
	sms := verifStore()
	bucket := metadatastore.MustNewBucketName("bucket")
	key := metadatastore.MustNewObjectKey("k")
	model := &verifVersionModel{}
	status := ""
	etags := [6]string{"e1", "e2", "e3", "e4", "e5", "e6"}
	puts := 0
	for s := 0; s < len(prefixOps)+steps; s++ {
		op := 0
		if s < len(prefixOps) {
			op = prefixOps[s]
		} else {
			op = verifPick("op", 0, verifMaxOp+len(verifExtraOps))
			if op > verifMaxOp {
				op = verifExtraOps[op-verifMaxOp-1]
			}
		}
		switch op {
		case 0, 10: // put; 10: append (no part rows at this layer: what matters is which object row the append rewrites)
			obj := &metadatastore.Object{Key: key, ETag: etags[puts], Size: 1}
			var err error
			if op == 10 {
				verifCover("append")
				// objects written by the plain puts of this harness have no part rows; an
				// append to a multipart-completed object needs the storage layer's part
				// bookkeeping (shared part ids) and is decided there (C12), not here
				if h, herr := sms.HeadObject(verifCtx, tx, bucket, key); herr == nil && !h.IsDeleteMarker {
					verifAssume(len(h.Parts) == 0)
				}
				_, err = sms.AppendObject(verifCtx, tx, bucket, obj, &metadatastore.AppendObjectOptions{})
			} else {
				_, err = sms.PutObject(verifCtx, tx, bucket, obj, nil)
			}
			if err != nil && !verifNative() {
				panic(err)
			}
			verifAssert(err == nil, "versioning: PutObject / AppendObject failed")
			if op == 10 && status != "Enabled" && obj.VersionID == nil {
				// outside an Enabled bucket an append writes the null version, like every other write there
				null := "null"
				obj.VersionID = &null
			}
			verifAssert(obj.VersionID != nil, "versioning: PutObject returned no version id")
			vid := *obj.VersionID
			model.seq++
			rowSeq := model.seq
			if vid == "null" {
				for _, v := range model.versions {
					if v.vid == "null" {
						rowSeq = v.rowSeq // overwritten in place
					}
				}
				model.remove("null")
			}
			model.versions = append(model.versions, verifVersion{vid: vid, etag: etags[puts], seq: model.seq, rowSeq: rowSeq})
			puts++
			h, herr := sms.HeadObjectVersion(verifCtx, tx, bucket, key, vid)
			verifAssert(herr == nil && h.ETag == obj.ETag, "versioning: a version just written is not addressable by the id returned")
			model.versions[len(model.versions)-1].lastModified = h.LastModified
		case 1: // delete by key
			res, err := sms.DeleteObject(verifCtx, tx, bucket, key, nil)
			verifAssert(err == nil, "versioning: DeleteObject failed")
			switch status {
			case "":
				model.remove("null")
				verifAssert(!res.IsDeleteMarker, "versioning: delete marker in an unversioned bucket")
			case "Suspended":
				model.remove("null")
				fallthrough
			default:
				verifAssert(res.IsDeleteMarker && res.VersionID != nil, "versioning: key-only delete in a versioned bucket must create a delete marker")
				model.seq++
				model.versions = append(model.versions, verifVersion{vid: *res.VersionID, seq: model.seq, rowSeq: model.seq, marker: true})
			}
		case 2: // delete one existing version by id
			if len(model.versions) == 0 {
				verifAssume(false)
			}
			i := verifPick("which", 0, len(model.versions)-1)
			vid := model.versions[i].vid
			_, err := sms.DeleteObject(verifCtx, tx, bucket, key, &metadatastore.DeleteObjectOptions{VersionID: &vid})
			verifAssert(err == nil, "versioning: DeleteObject(versionId) failed")
			model.remove(vid)
		case 5, 6: // conditional put: If-None-Match:* (5) or If-Match:<etag> (6)
			cur := model.current()
			exists := cur != nil && !cur.marker
			opts := &metadatastore.PutObjectOptions{}
			want := false
			if op == 5 {
				opts.IfNoneMatchStar = true
				want = !exists
			} else {
				e := etags[verifPick("ifMatch", 0, 2)]
				opts.IfMatchETag = &e
				want = exists && cur.etag == e
			}
			obj := &metadatastore.Object{Key: key, ETag: etags[puts], Size: 1}
			_, err := sms.PutObject(verifCtx, tx, bucket, obj, opts)
			if !want {
				verifAssert(err == metadatastore.ErrPreconditionFailed, "C07: conditional write succeeded although its precondition does not hold")
				verifCover("cond-put-rejected")
				break
			}
			verifAssert(err == nil, "C07: conditional write failed although its precondition holds")
			verifCover("cond-put-accepted")
			vid := *obj.VersionID
			model.seq++
			rowSeq := model.seq
			if vid == "null" {
				for _, v := range model.versions {
					if v.vid == "null" {
						rowSeq = v.rowSeq
					}
				}
				model.remove("null")
			}
			model.versions = append(model.versions, verifVersion{vid: vid, etag: etags[puts], seq: model.seq, rowSeq: rowSeq})
			puts++
			h, herr := sms.HeadObjectVersion(verifCtx, tx, bucket, key, vid)
			verifAssert(herr == nil && h.ETag == obj.ETag, "versioning: a version just written is not addressable by the id returned")
			model.versions[len(model.versions)-1].lastModified = h.LastModified
		case 8, 9: // a multipart upload of one part is completed (9: conditionally)
			up, err := sms.CreateMultipartUpload(verifCtx, tx, bucket, key, nil, nil, nil)
			verifAssert(err == nil, "versioning: CreateMultipartUpload failed")
			_, err = sms.UploadPart(verifCtx, tx, bucket, key, up.UploadId, 1, metadatastore.Part{Id: verifMPPart(model.seq), ETag: "aa", Size: 1})
			verifAssert(err == nil, "versioning: UploadPart failed")
			cur := model.current()
			exists := cur != nil && !cur.marker
			var opts *metadatastore.CompleteMultipartUploadOptions
			want := true
			if op == 9 {
				if verifBool("mp-if-none-match") {
					opts = &metadatastore.CompleteMultipartUploadOptions{IfNoneMatchStar: true}
					want = !exists
				} else {
					e := etags[verifPick("ifMatch", 0, 2)]
					opts = &metadatastore.CompleteMultipartUploadOptions{IfMatchETag: &e}
					want = exists && cur.etag == e
				}
			}
			res, err := sms.CompleteMultipartUpload(verifCtx, tx, bucket, key, up.UploadId, nil, opts)
			if !want {
				verifAssert(err == metadatastore.ErrPreconditionFailed, "C07: conditional multipart completion succeeded although its precondition does not hold")
				verifCover("cond-complete-rejected")
				_, err = sms.AbortMultipartUpload(verifCtx, tx, bucket, key, up.UploadId)
				verifAssert(err == nil, "versioning: AbortMultipartUpload failed")
				break
			}
			verifAssert(err == nil, "versioning: CompleteMultipartUpload failed although its precondition holds")
			verifCover("multipart-completed")
			verifAssert(res.VersionID != nil, "versioning: CompleteMultipartUpload returned no version id")
			vid := *res.VersionID
			model.seq++
			rowSeq := model.seq
			if vid == "null" {
				for _, v := range model.versions {
					if v.vid == "null" {
						rowSeq = v.rowSeq
					}
				}
				model.remove("null")
			}
			model.versions = append(model.versions, verifVersion{vid: vid, etag: res.ETag, seq: model.seq, rowSeq: rowSeq})
			h, herr := sms.HeadObjectVersion(verifCtx, tx, bucket, key, vid)
			verifAssert(herr == nil && h.ETag == res.ETag, "versioning: a completed upload is not addressable by the version id returned")
			model.versions[len(model.versions)-1].lastModified = h.LastModified
		case 7: // conditional key-only delete with If-Match
			cur := model.current()
			exists := cur != nil && !cur.marker
			e := etags[verifPick("ifMatch", 0, 2)]
			res, err := sms.DeleteObject(verifCtx, tx, bucket, key, &metadatastore.DeleteObjectOptions{IfMatchETag: &e})
			if !(exists && cur.etag == e) {
				verifAssert(err == metadatastore.ErrPreconditionFailed, "C07: conditional delete succeeded although the current ETag differs")
				verifCover("cond-delete-rejected")
				break
			}
			verifAssert(err == nil, "C07: conditional delete failed although the ETag matches")
			switch status {
			case "":
				model.remove("null")
			case "Suspended":
				model.remove("null")
				fallthrough
			default:
				model.seq++
				model.versions = append(model.versions, verifVersion{vid: *res.VersionID, seq: model.seq, rowSeq: model.seq, marker: true})
			}
		case 3:
			status = "Enabled"
			verifSetVersioning(tx, status)
		case 4:
			if status == "" {
				verifAssume(false) // Suspended is only reachable after Enabled
			}
			status = "Suspended"
			verifSetVersioning(tx, status)
		}
		// ---- claims, after every step ----
		for i := range model.versions {
			if c := model.current(); c == nil || c.vid != model.versions[i].vid {
				model.versions[i].demoted = true
			}
		}
		for _, v := range model.versions {
			h, err := sms.HeadObjectVersion(verifCtx, tx, bucket, key, v.vid)
			verifAssert(err == nil, "C02: a version that was never deleted is no longer addressable by its id")
			verifAssert(h.IsDeleteMarker == v.marker && (v.marker || h.ETag == v.etag), "C02: a version id now addresses different content")
			if checkImmutable && !v.marker {
				// region of the known finding: v has at some point been superseded as current version
				// (its row was re-saved with is_latest = 0, which refreshes updated_at = Last-Modified)
				if !verifKnown(knownImmutable, v.demoted) {
					verifAssert(h.LastModified.Equal(v.lastModified), "C13: Last-Modified of an existing version changed after a later operation")
				}
			}
		}
		cur := model.current()
		h, err := sms.HeadObject(verifCtx, tx, bucket, key)
		if cur == nil {
			verifAssert(err == metadatastore.ErrNoSuchKey, "C02: key without versions must read as NoSuchKey")
		} else if !verifKnown(knownLatest, verifWriteOrderDiffers(model, cur)) {
			verifAssert(err == nil, "C02: existing key reads as absent")
			verifAssert(h.IsDeleteMarker == cur.marker && (cur.marker || h.ETag == cur.etag), "C02: the current version is not the most recently written version that still exists")
			verifAssert(h.VersionID != nil && *h.VersionID == cur.vid, "C02: current version id is not the most recently written one")
		}
	}
	verifCover("sequence")
}

// verifWriteOrderDiffers: the most recently written version is an in-place
// overwritten one that first came into existence before another live version.
func verifWriteOrderDiffers(m *verifVersionModel, cur *verifVersion) bool {
	for _, v := range m.versions {
		if v.rowSeq > cur.rowSeq {
			return true
		}
	}
	return false
}
