package PKGNAME

// C04 (arithmetic half): the multipart ETag and checksums are the specified
// functions of the per-part values. The per-part CRC words and sizes are
// symbolic; MD5/SHA are injective stubs; base64/hex are inverse codec stubs;
// that the CRC combine operator equals the CRC of the concatenation is C35.

import (
	"encoding/base64"
	"encoding/hex"
	"hash"
	"hash/crc32"
	"strconv"
)

type verifHash struct {
	name string
	data []byte
}

func (h *verifHash) Write(p []byte) (int, error) { h.data = append(h.data, p...); return len(p), nil }
func (h *verifHash) Sum(b []byte) []byte          { return append(b, verifHashBytes(h.name, 4, h.data)...) }
func (h *verifHash) Reset()                       { h.data = nil }
func (h *verifHash) Size() int                    { return 4 }
func (h *verifHash) BlockSize() int               { return 64 }

func verifStubMD5New() hash.Hash    { return &verifHash{name: "md5"} }
func verifStubSHA1New() hash.Hash   { return &verifHash{name: "sha1"} }
func verifStubSHA256New() hash.Hash { return &verifHash{name: "sha256"} }

type verifHash32 struct{ verifHash }

func (h *verifHash32) Sum32() uint32 { return 0 }

func verifStubCRC32NewIEEE() hash.Hash32          { return &verifHash32{verifHash{name: "crc32"}} }
func verifStubCRC32New(t *crc32.Table) hash.Hash32 { return &verifHash32{verifHash{name: "crc32c"}} }

// encoders used to build the inputs: identity stubs under the executor, the
// real codecs natively
func verifB64(b []byte) string { return base64.StdEncoding.EncodeToString(b) }
func verifHexS(b []byte) string { return hex.EncodeToString(b) }

// codec stubs: the "encoded" form of bytes is the string with those bytes
type verifEncoding struct{}

func verifStubDecode(e any, s string) ([]byte, error) { return []byte(s), nil }
func verifStubEncode(e any, b []byte) string          { return string(b) }
func verifStubHexDecode(s string) ([]byte, error)      { return []byte(s), nil }
func verifStubHexEncode(b []byte) string               { return string(b) }

type verifPartIn struct {
	etag               string
	crc32, c32c, crc64 []byte
	has32, has32c, h64 bool
	size               int64
}

func verifMkParts(n int) ([]PartChecksums, []verifPartIn) {
	parts := make([]PartChecksums, n)
	in := make([]verifPartIn, n)
	for i := 0; i < n; i++ {
		p := verifPartIn{etag: verifHexS(verifBytes("etag", 2)), crc32: verifBytes("crc32", 4), c32c: verifBytes("crc32c", 4), crc64: verifBytes("crc64", 8),
			has32: verifBool("has-crc32"), has32c: verifBool("has-crc32c"), h64: verifBool("has-crc64"), size: []int64{0, 1, 3, 65537}[verifPick("size", 0, 3)]}
		for j := 0; j < len(p.etag); j++ {
			verifAssume(p.etag[j] != '"') // an encoded ETag never contains a quote
		}
		in[i] = p
		parts[i] = PartChecksums{ETag: p.etag, Size: p.size}
		if verifBool("quoted-etag") {
			parts[i].ETag = "\"" + p.etag + "\""
		}
		if p.has32 {
			s := verifB64(p.crc32)
			parts[i].ChecksumCRC32 = &s
		}
		if p.has32c {
			s := verifB64(p.c32c)
			parts[i].ChecksumCRC32C = &s
		}
		if p.h64 {
			s := verifB64(p.crc64)
			parts[i].ChecksumCRC64NVME = &s
		}
	}
	return parts, in
}

func verifBytesEqStr(s *string, b []byte) bool {
	if s == nil {
		return false
	}
	return verifStrEq(*s, verifB64(b))
}

// VerifC04FullObject: FULL_OBJECT checksums are the left fold of the combine
// operator over (crc_i, size_i); a checksum is reported only when every part
// carried it; the ETag is H(etag bytes...) "-" n.
func VerifC04FullObject() {
	n := verifPick("parts", 1, verifParam("maxparts", 3))
	parts, in := verifMkParts(n)
	res, err := CalculateMultipartChecksums(parts, ChecksumTypeFullObject)
	verifAssert(err == nil, "CalculateMultipartChecksums failed")

	var all []byte
	for _, p := range in {
		raw, _ := hex.DecodeString(p.etag)
		all = append(all, raw...)
	}
	wantETag := "\"" + verifHexS(verifMD5(all)) + "-" + strconv.Itoa(n) + "\""
	verifAssert(res.ETag != nil && verifStrEq(*res.ETag, wantETag), "multipart ETag is not H(part ETags)-N")

	every32, every32c, every64 := true, true, true
	for _, p := range in {
		every32, every32c, every64 = every32 && p.has32, every32c && p.has32c, every64 && p.h64
	}
	verifAssert((res.ChecksumCRC32 != nil) == every32, "CRC32 reported although a part lacked it (or missing although all parts carried it)")
	verifAssert((res.ChecksumCRC32C != nil) == every32c, "CRC32C reported although a part lacked it (or missing)")
	verifAssert((res.ChecksumCRC64NVME != nil) == every64, "CRC64NVME reported although a part lacked it (or missing)")
	verifAssert(res.ChecksumSHA1 == nil && res.ChecksumSHA256 == nil, "SHA checksums reported for a FULL_OBJECT upload")
	if every32 {
		verifCover("crc32-fold")
		acc := in[0].crc32
		for i := 1; i < n; i++ {
			if in[i].size == 0 {
				// independent of the combine operator: appending an empty part
				// (whose CRC is the CRC of no bytes, 0) leaves the CRC unchanged
				zero := true
				for _, c := range in[i].crc32 {
					zero = verifAnd(zero, c == 0)
				}
				if zero {
					verifCover("empty-part")
					continue
				}
			}
			acc = CombineCrc32(acc, in[i].crc32, in[i].size)
		}
		verifAssert(verifBytesEqStr(res.ChecksumCRC32, acc), "CRC32 is not the fold of the combine operator over the parts in order")
	}
	if every32c {
		acc := in[0].c32c
		for i := 1; i < n; i++ {
			acc = CombineCrc32c(acc, in[i].c32c, in[i].size)
		}
		verifAssert(verifBytesEqStr(res.ChecksumCRC32C, acc), "CRC32C is not the fold of the combine operator over the parts in order")
	}
	if every64 {
		acc := in[0].crc64
		for i := 1; i < n; i++ {
			acc = CombineCrc64Nvme(acc, in[i].crc64, in[i].size)
		}
		verifAssert(verifBytesEqStr(res.ChecksumCRC64NVME, acc), "CRC64NVME is not the fold of the combine operator over the parts in order")
	}
}

// VerifC04Composite: COMPOSITE checksums are H(concatenated part checksums)-N.
func VerifC04Composite() {
	n := verifPick("parts", 1, verifParam("maxparts", 3))
	parts, in := verifMkParts(n)
	res, err := CalculateMultipartChecksums(parts, ChecksumTypeComposite)
	verifAssert(err == nil, "CalculateMultipartChecksums failed")
	every32 := true
	var cat []byte
	for _, p := range in {
		every32 = every32 && p.has32
		cat = append(cat, p.crc32...)
	}
	verifAssert((res.ChecksumCRC32 != nil) == every32, "composite CRC32 reported although a part lacked it (or missing)")
	verifAssert(res.ChecksumCRC64NVME == nil, "CRC64NVME reported for a COMPOSITE upload")
	if every32 {
		verifCover("composite")
		// the composite value is base64(crc32(concatenated raw part CRCs)) "-" n
		want := verifB64(verifCRC32(cat)) + "-" + strconv.Itoa(n)
		verifAssert(verifStrEq(*res.ChecksumCRC32, want), "composite CRC32 is not CRC32(concatenated part checksums)-N")
	}
}

// verifMD5 / verifCRC32: the injective stubs under the executor, the real
// functions natively
func verifMD5(b []byte) []byte {
	if verifNative() {
		return verifRealMD5(b)
	}
	return verifHashBytes("md5", 4, b)
}

func verifCRC32(b []byte) []byte {
	if verifNative() {
		return verifRealCRC32(b)
	}
	return verifHashBytes("crc32", 4, b)
}

var verifRealMD5, verifRealCRC32 func([]byte) []byte
