package PKGNAME

// C04: the client-declared completion manifest is accepted only if strictly
// ordered, naming stored parts, with matching ETags (quotes ignored) and
// matching checksums where both sides carry one.

import (
	"github.com/jdillenkofer/pithos/internal/storage/database/repository/part"
	"github.com/jdillenkofer/pithos/internal/storage/metadatapart/metadatastore"
)

func VerifC04Manifest() {
	stored := []part.Entity{{SequenceNumber: 1, ETag: "\"aa\""}, {SequenceNumber: 2, ETag: "bb"}}
	crc := "c1"
	stored[0].ChecksumCRC32 = &crc
	n := verifPick("declared", 1, 2)
	declared := make([]metadatastore.CompleteMultipartUploadPart, n)
	ok := true
	prev := int32(0)
	for i := 0; i < n; i++ {
		num := int32(verifPick("number", 0, 3))
		etagSel := verifPick("etag", 0, 3)
		etag := []string{"", "aa", "\"bb\"", "zz"}[etagSel]
		d := metadatastore.CompleteMultipartUploadPart{PartNumber: num, ETag: etag}
		crcSel := verifPick("crc", 0, 2)
		if crcSel > 0 {
			v := []string{"", "c1", "xx"}[crcSel]
			d.ChecksumCRC32 = &v
		}
		declared[i] = d
		// reference
		if num <= prev || num < 1 || num > 2 {
			ok = false
		}
		prev = num
		if num == 1 && !(etagSel == 0 || etagSel == 1) {
			ok = false
		}
		if num == 2 && !(etagSel == 0 || etagSel == 2) {
			ok = false
		}
		if num == 1 && crcSel == 2 {
			ok = false
		}
	}
	if n != len(stored) {
		ok = false // the manifest must name every uploaded part
	}
	err := validateCompleteMultipartUploadParts(declared, stored)
	if err == nil {
		verifCover("manifest-accepted")
	} else {
		verifCover("manifest-rejected")
	}
	verifAssert((err == nil) == ok, "the completion manifest check does not match the reference (order, existence, ETag, checksum)")
}
