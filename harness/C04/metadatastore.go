package PKGNAME

// C04: ValidateChecksums fails with ErrBadDigest exactly when a supplied value
// and the calculated value of the same kind are both present and differ.

func VerifC04Validate() {
	mk := func(tag string) (*string, *string, bool, bool) {
		var in, calc *string
		a, b := string(verifBytes(tag+"-in", 1)), string(verifBytes(tag+"-calc", 1))
		if verifBool(tag + "-supplied") {
			in = &a
		}
		if verifBool(tag + "-calculated") {
			calc = &b
		}
		return in, calc, in != nil && calc != nil, verifStrEq(a, b)
	}
	input := &ChecksumInput{}
	var calc ChecksumValues
	mismatch := false
	var both, eq bool
	input.ETag, calc.ETag, both, eq = mk("etag")
	mismatch = verifOr(mismatch, verifAnd(both, !eq))
	input.ChecksumCRC32, calc.ChecksumCRC32, both, eq = mk("crc32")
	mismatch = verifOr(mismatch, verifAnd(both, !eq))
	input.ChecksumCRC32C, calc.ChecksumCRC32C, both, eq = mk("crc32c")
	mismatch = verifOr(mismatch, verifAnd(both, !eq))
	input.ChecksumCRC64NVME, calc.ChecksumCRC64NVME, both, eq = mk("crc64")
	mismatch = verifOr(mismatch, verifAnd(both, !eq))
	input.ChecksumSHA1, calc.ChecksumSHA1, both, eq = mk("sha1")
	mismatch = verifOr(mismatch, verifAnd(both, !eq))
	input.ChecksumSHA256, calc.ChecksumSHA256, both, eq = mk("sha256")
	mismatch = verifOr(mismatch, verifAnd(both, !eq))
	err := ValidateChecksums(input, calc)
	if err != nil {
		verifCover("bad-digest")
		verifAssert(err == ErrBadDigest, "ValidateChecksums failed with another error")
	} else {
		verifCover("accepted")
	}
	verifAssert((err != nil) == mismatch, "ValidateChecksums does not fail exactly when a supplied checksum disagrees with the calculated one")
	verifAssert(ValidateChecksums(nil, calc) == nil, "ValidateChecksums without input failed")
}
