package PKGNAME

import (
	"crypto/md5"
	"hash/crc32"
)

func init() {
	verifRealMD5 = func(b []byte) []byte { s := md5.Sum(b); return s[:] }
	verifRealCRC32 = func(b []byte) []byte {
		h := crc32.NewIEEE()
		h.Write(b)
		return h.Sum(nil)
	}
}
