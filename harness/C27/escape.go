package PKGNAME

// VerifC27TextEscape: the escaping layer of the text serializer is lossless:
// for every field value s, unescape(escape(s)) == s, and the escaped form
// contains neither a raw separator bar nor a line break (so a value can never
// be mistaken for the next field or the next entry).
func VerifC27TextEscape() {
	n := verifParam("strlen", 2)
	s := verifString("s", n)
	enc := escape(s)
	ok := true
	for i := 0; i < len(enc); i++ {
		c := enc[i]
		ok = verifAnd(ok, c != '\n' && c != '\r')
		if c == '|' {
			ok = verifAnd(ok, i > 0 && enc[i-1] == '\\')
		}
	}
	verifAssert(ok, "C27: escaped field value contains a raw separator or line break")
	verifAssert(verifStrEq(unescape(enc), s), "C27: the text serializer does not decode the field value it encoded")
}
