package PKGNAME

// C27, structural tampering: a log produced by the real middleware in which an
// entry is duplicated, dropped, moved or a prefix (starting with the genuine
// GENESIS entry) is replayed does not verify. Every entry keeps its genuine
// signature; what breaks is the chain, which the validator must check for
// every entry including a GENESIS that is not first.

import (
	"context"

	"github.com/jdillenkofer/pithos/internal/auditlog"
	"github.com/jdillenkofer/pithos/internal/storage"
)

func VerifC27StructuralTamper() {
	verifC26Clock = 0
	ed := verifC26Signer{"ed25519"}
	ml := verifC26Signer{"mldsa"}
	sk := &verifC26Sink{validator: auditlog.NewValidator(ed, ml)}
	next := &verifC26Next{sink: sk}
	m := NewAuditLogMiddleware(next, sk, ed, ml, make([]byte, 64), nil)
	verifAssert(m.CreateBucket(context.Background(), storage.MustNewBucketName("bucket")) == nil, "CreateBucket failed")
	verifAssert(m.CreateBucket(context.Background(), storage.MustNewBucketName("other")) == nil, "CreateBucket failed")
	log := sk.entries // G, S1, C1, S2, C2
	n := len(log)
	verifAssert(n == 5, "unexpected log length")
	var tampered []*auditlog.Entry
	switch verifPick("tamper", 0, 3) {
	case 0: // an entry is inserted a second time at another position
		src := verifPick("which", 0, n-1)
		at := verifPick("at", 1, n)
		tampered = append(tampered, log[:at]...)
		tampered = append(tampered, log[src])
		tampered = append(tampered, log[at:]...)
	case 1: // an entry is dropped
		k := verifPick("which", 0, n-2)
		tampered = append(tampered, log[:k]...)
		tampered = append(tampered, log[k+1:]...)
	case 2: // two neighbours are swapped
		k := verifPick("which", 0, n-2)
		tampered = append(tampered, log...)
		tampered[k], tampered[k+1] = tampered[k+1], tampered[k]
	case 3: // a prefix is replayed after position k
		k := verifPick("at", 1, n)
		p := verifPick("prefix", 1, 2)
		tampered = append(tampered, log[:k]...)
		tampered = append(tampered, log[:p]...)
		tampered = append(tampered, log[k:]...)
	}
	v := auditlog.NewValidator(ed, ml)
	rejected := false
	for _, e := range tampered {
		if err := v.ValidateEntry(e); err != nil {
			rejected = true
			break
		}
	}
	verifCover("structural-tamper")
	verifAssert(rejected, "C27: a log with a duplicated, dropped, moved or replayed entry verified")
}
