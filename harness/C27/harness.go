package PKGNAME

// C27: every recorded field of a log entry is covered by the entry hash, with
// an unambiguous (length-prefixed) framing. SHA-512 is replaced by a recorder
// of its pre-image: under collision resistance "hash differs" is "pre-image
// differs".

import "time"

var verifC27PreImage []byte

func verifStubSum512(data []byte) [64]byte {
	verifC27PreImage = append([]byte(nil), data...)
	var out [64]byte
	h := verifHashBytes("sha512", 64, data)
	copy(out[:], h)
	return out
}

func verifC27PreImageOf(e *Entry) []byte {
	e.CalculateHash()
	return verifC27PreImage
}

// compile-time guard: unkeyed literals break the harness when a field is added
// to one of the recorded structs, so new fields cannot silently stay uncovered.
var _ = ResourceDetails{"", "", "", 0, "", ""}
var _ = ActorDetails{"", ""}
var _ = RequestDetails{"", "", ""}
var _ = OutcomeDetails{0, "", "", "", 0}
var _ = LogDetails{"", "", ResourceDetails{}, ActorDetails{}, RequestDetails{}, OutcomeDetails{}}

const verifC27Fields = 22

func verifC27Base() (*Entry, *LogDetails) {
	d := &LogDetails{Operation: OpCopyObject, Phase: PhaseComplete,
		Resource: ResourceDetails{Bucket: "b", Key: "k", UploadID: "u", PartNumber: 1, SourceBucket: "sb", SourceKey: "sk"},
		Actor:    ActorDetails{CredentialID: "c", AuthType: AuthTypeSigV4Header},
		Request:  RequestDetails{RequestID: "r", TraceID: "t", ClientIP: "i"},
		Outcome:  OutcomeDetails{StatusCode: 200, Outcome: OutcomeSuccess, ErrorCode: "e", Error: "m", DurationMs: 5}}
	e := &Entry{Version: CurrentVersion, Timestamp: time.Unix(1700000000, 0).UTC(), Type: EntryTypeLog, Details: d, PreviousHash: make([]byte, 64)}
	return e, d
}

// set field number f of (e,d) to a symbolic value drawn under the given name
func verifC27Set(e *Entry, d *LogDetails, f int, name string) {
	str := func() string { return verifString(name, verifPick(name+"Len", 0, verifParam("strlen", 2))) }
	switch f {
	case 0:
		e.Version = 2 + verifUint16(name)%2 // versions 2 and 3 share the full field list
	case 1:
		sec := verifInt64(name)
		verifAssume(sec >= 0 && sec <= 1<<33) // whole seconds until year 2242; sub-second and far-future instants are outside
		e.Timestamp = time.Unix(sec, 0).UTC()
	case 2:
		e.PreviousHash = verifBytes(name, 64)
	case 3:
		d.Operation = Operation(str())
	case 4:
		d.Phase = Phase(str())
	case 5:
		d.Resource.Bucket = str()
	case 6:
		d.Resource.Key = str()
	case 7:
		d.Resource.UploadID = str()
	case 8:
		d.Resource.PartNumber = verifInt32(name)
	case 9:
		d.Resource.SourceBucket = str()
	case 10:
		d.Resource.SourceKey = str()
	case 11:
		d.Actor.CredentialID = str()
	case 12:
		d.Actor.AuthType = AuthType(str())
	case 13:
		d.Request.RequestID = str()
	case 14:
		d.Request.TraceID = str()
	case 15:
		d.Request.ClientIP = str()
	case 16:
		d.Outcome.StatusCode = verifInt32(name)
	case 17:
		d.Outcome.Outcome = OutcomeType(str())
	case 18:
		d.Outcome.ErrorCode = str()
	case 19:
		d.Outcome.Error = str()
	case 20:
		d.Outcome.DurationMs = verifInt64(name)
	case 21:
		e.Type = EntryType(str())
	}
}

func verifC27Equal(a, b []byte) bool {
	if len(a) != len(b) {
		return false
	}
	eq := true
	for i := range a {
		eq = verifAnd(eq, a[i] == b[i])
	}
	return eq
}

// VerifC27FieldCovered: two entries that agree everywhere except in field
// "field" (arbitrary differing values) have different hash pre-images.
func VerifC27FieldCovered() {
	f := verifParam("field", 0)
	e1, d1 := verifC27Base()
	e2, d2 := verifC27Base()
	if verifBool("other-fields-empty") {
		// the same question with every other field at its zero value (a field must
		// not be covered only while a neighbouring field happens to be set)
		z := LogDetails{}
		*d1, *d2 = z, z
	}
	verifC27Set(e1, d1, f, "v1")
	verifC27Set(e2, d2, f, "v2")
	p1 := verifC27PreImageOf(e1)
	p2 := verifC27PreImageOf(e2)
	// the two field values differ <=> the rendered entries differ in that field
	same := false
	switch f {
	case 0:
		same = e1.Version == e2.Version
	case 1:
		same = e1.Timestamp.UnixNano() == e2.Timestamp.UnixNano()
	case 2:
		same = verifC27Equal(e1.PreviousHash, e2.PreviousHash)
	case 8:
		same = d1.Resource.PartNumber == d2.Resource.PartNumber
	case 16:
		same = d1.Outcome.StatusCode == d2.Outcome.StatusCode
	case 20:
		same = d1.Outcome.DurationMs == d2.Outcome.DurationMs
	default:
		same = verifStrEq(verifC27Str(e1, d1, f), verifC27Str(e2, d2, f))
	}
	if verifKnown("C27-copy-source-not-hashed", f == 9 || f == 10) {
		return
	}
	if !same {
		verifAssert(!verifC27Equal(p1, p2), "C27: a recorded field can be changed without changing the entry hash")
		verifCover("differs")
	}
}

func verifC27Str(e *Entry, d *LogDetails, f int) string {
	switch f {
	case 3:
		return string(d.Operation)
	case 4:
		return string(d.Phase)
	case 5:
		return d.Resource.Bucket
	case 6:
		return d.Resource.Key
	case 7:
		return d.Resource.UploadID
	case 9:
		return d.Resource.SourceBucket
	case 10:
		return d.Resource.SourceKey
	case 11:
		return d.Actor.CredentialID
	case 12:
		return string(d.Actor.AuthType)
	case 13:
		return d.Request.RequestID
	case 14:
		return d.Request.TraceID
	case 15:
		return d.Request.ClientIP
	case 17:
		return string(d.Outcome.Outcome)
	case 18:
		return d.Outcome.ErrorCode
	case 19:
		return d.Outcome.Error
	case 21:
		return string(e.Type)
	}
	return ""
}

// VerifC27Framing: moving bytes between two adjacent string fields (same
// concatenation, different split) changes the pre-image.
func VerifC27Framing() {
	e1, d1 := verifC27Base()
	e2, d2 := verifC27Base()
	s := verifString("s", 3)
	cut1 := verifPick("cut1", 0, 3)
	cut2 := verifPick("cut2", 0, 3)
	verifAssume(cut1 != cut2)
	d1.Resource.Bucket, d1.Resource.Key = s[:cut1], s[cut1:]
	d2.Resource.Bucket, d2.Resource.Key = s[:cut2], s[cut2:]
	verifAssert(!verifC27Equal(verifC27PreImageOf(e1), verifC27PreImageOf(e2)), "C27: field framing is ambiguous (bytes can move between adjacent fields)")
}
