package PKGNAME

// C18: under interleavings of committed put/delete transactions, flush worker
// steps of two workers, lease expiry and reads, GetPart and GetPartIds reflect
// the latest committed operation for each part, and once the workers are idle
// the inner store holds exactly the committed parts.
//
// Two real outboxPartStore instances (same outbox id, different claim owners)
// share the database (sqlsym over the real part-outbox repository) and the
// inner store double. Worker A can be stopped between replay and finalize.

import (
	"bytes"
	dbsql "database/sql"
	"io"
	"time"

	"github.com/jdillenkofer/pithos/internal/lifecycle"
	"github.com/jdillenkofer/pithos/internal/storage/database"
	partOutboxEntry "github.com/jdillenkofer/pithos/internal/storage/database/repository/partoutboxentry"
	sqliteRepo "github.com/jdillenkofer/pithos/internal/storage/database/sqlite/repository/partoutboxentry"
	"github.com/jdillenkofer/pithos/internal/storage/metadatapart/partstore"
	"github.com/oklog/ulid/v2"
	"github.com/prometheus/client_golang/prometheus"
	"go.opentelemetry.io/otel"
)

type verifCounter struct{ prometheus.Counter }

func (verifCounter) Inc()        {}
func (verifCounter) Add(float64) {}

type verifGauge struct{ prometheus.Gauge }

func (verifGauge) Set(float64) {}

type verifHistogram struct{ prometheus.Histogram }

func (verifHistogram) Observe(float64) {}

// ---- inner part store double -----------------------------------------------------

type verifInner struct {
	ids       []partstore.PartId
	data      [][]byte
	txFree    bool
	afterList func() // runs once right after the next listing was taken (a concurrent flush)
}

func (s *verifInner) Start(ctx contextT) error { return nil }
func (s *verifInner) Stop(ctx contextT) error  { return nil }
func (s *verifInner) find(id partstore.PartId) int {
	for i := range s.ids {
		if s.ids[i].Equal(id) {
			return i
		}
	}
	return -1
}
func (s *verifInner) PutPart(ctx contextT, tx database.Tx, id partstore.PartId, r io.Reader) error {
	data, err := io.ReadAll(r)
	if err != nil {
		return err
	}
	if i := s.find(id); i >= 0 {
		s.data[i] = data
		return nil
	}
	s.ids, s.data = append(s.ids, id), append(s.data, data)
	return nil
}
func (s *verifInner) GetPart(ctx contextT, tx database.Tx, id partstore.PartId) (io.ReadCloser, error) {
	i := s.find(id)
	if i < 0 {
		return nil, partstore.ErrPartNotFound
	}
	return io.NopCloser(bytes.NewReader(s.data[i])), nil
}
func (s *verifInner) GetPartIds(ctx contextT, tx database.Tx) ([]partstore.PartId, error) {
	ids := append([]partstore.PartId(nil), s.ids...)
	if f := s.afterList; f != nil {
		s.afterList = nil
		f()
	}
	return ids, nil
}
func (s *verifInner) DeletePart(ctx contextT, tx database.Tx, id partstore.PartId) error {
	if i := s.find(id); i >= 0 {
		s.ids = append(append([]partstore.PartId(nil), s.ids[:i]...), s.ids[i+1:]...)
		s.data = append(append([][]byte(nil), s.data[:i]...), s.data[i+1:]...)
	}
	return nil
}

type verifInnerTxFree struct{ *verifInner }

func (s verifInnerTxFree) Capabilities() partstore.Capabilities {
	return partstore.NewCapabilities(partstore.CapabilityTxFreeGetPart, partstore.CapabilityTxFreePutPart, partstore.CapabilityTxFreeDeletePart)
}

// ---- repository wrapper: the GROUP BY sub-select is outside sqlsym ----------------

type verifRepo struct {
	partOutboxEntry.Repository
	ids []partstore.PartId
}

func (r *verifRepo) FindLastPartOutboxEntryGroupedByPartId(ctx contextT, tx *dbsql.Tx, outboxId string) ([]partOutboxEntry.Entity, error) {
	if verifNative() {
		return r.Repository.FindLastPartOutboxEntryGroupedByPartId(ctx, tx, outboxId)
	}
	var out []partOutboxEntry.Entity
	for _, id := range r.ids {
		e, err := r.Repository.FindLastPartOutboxEntryByPartId(ctx, tx, outboxId, id)
		if err != nil {
			return nil, err
		}
		if e != nil {
			out = append(out, *e)
		}
	}
	return out, nil
}

func verifNewWorker(db database.Database, inner partstore.PartStore, repo partOutboxEntry.Repository, owner string) *outboxPartStore {
	lc, err := lifecycle.NewValidatedLifecycle("outboxPartStore")
	if err != nil {
		panic(err)
	}
	return &outboxPartStore{
		ValidatedLifecycle:        lc,
		db:                        db,
		triggerChannel:            make(chan struct{}, 16),
		shutdownChannel:           make(chan struct{}),
		outboxId:                  "ob",
		claimOwner:                owner,
		claimLeaseDuration:        verifLease(),
		innerPartStore:            inner,
		partOutboxEntryRepository: repo,
		tracer:                    otel.Tracer("verif"),
		metrics:                   &partOutboxMetrics{pendingEntries: verifGauge{}, processedEntries: verifCounter{}, processingDuration: verifHistogram{}, errorsCounter: verifCounter{}},
	}
}

// Under the executor the clock is a counter (one tick per time.Now) and a lease
// lasts 30 ticks-seconds; natively the real clock runs, so leases are short and
// expiring them means waiting.
func verifLease() time.Duration {
	if verifNative() {
		return 300 * time.Millisecond
	}
	return 30 * time.Second
}

func verifExpireLeases() {
	verifClockSeq += 100
	if verifNative() {
		time.Sleep(400 * time.Millisecond)
	}
}

type verifPartModel struct {
	present bool
	body    []byte
}

func verifBytesEq(a, b []byte) bool {
	if len(a) != len(b) {
		return false
	}
	eq := true
	for i := range a {
		eq = verifAnd(eq, a[i] == b[i])
	}
	return eq
}

func verifMust(err error) {
	if err != nil {
		panic(err)
	}
}

// VerifC18Interleavings
func VerifC18Interleavings() {
	db := verifNewDB()
	base := &verifInner{}
	var inner partstore.PartStore = base
	if verifParam("txfree", 0) == 1 {
		inner = verifInnerTxFree{base}
	}
	ids := []partstore.PartId{*partstore.MustNewPartIdFromString("01ARZ3NDEKTSV4RRFFQ69G5FAV"), *partstore.MustNewPartIdFromString("01ARZ3NDEKTSV4RRFFQ69G5FAW")}
	sr, err := sqliteRepo.NewRepository()
	verifMust(err)
	repo := &verifRepo{Repository: sr, ids: ids}
	a := verifNewWorker(db, inner, repo, "ob:A")
	b := verifNewWorker(db, inner, repo, "ob:B")
	var model [2]verifPartModel
	// part 0 may already be flushed to the inner store
	if verifBool("preexisting") {
		old := []byte{'o'}
		base.ids, base.data = append(base.ids, ids[0]), append(base.data, old)
		model[0] = verifPartModel{present: true, body: old}
	}
	var inflight *partOutboxEntry.Entity // claimed and replayed by A, not yet finalized

	steps := verifParam("steps", 3)
	for s := 0; s < steps; s++ {
		switch verifPick("op", 0, 8) {
		case 0: // committed PutPart
			p := verifPick("part", 0, 1)
			body := make([]byte, verifPick("len", 0, 1))
			for i := range body {
				body[i] = verifByte("body")
			}
			verifMust(database.WithTx(verifBg, db, nil, func(ctx contextT, tx database.Tx) error {
				return a.PutPart(ctx, tx, ids[p], bytes.NewReader(body))
			}))
			model[p] = verifPartModel{present: true, body: body}
		case 1: // committed DeletePart
			p := verifPick("part", 0, 1)
			verifMust(database.WithTx(verifBg, db, nil, func(ctx contextT, tx database.Tx) error {
				return a.DeletePart(ctx, tx, ids[p])
			}))
			model[p] = verifPartModel{}
		case 2: // worker A flushes everything it can claim
			verifAssume(inflight == nil)
			a.maybeProcessOutboxEntries(verifBg)
		case 3: // worker B flushes everything it can claim
			verifCover("worker-b")
			b.maybeProcessOutboxEntries(verifBg)
		case 4: // worker A claims and replays one entry, then stalls before finalize
			verifAssume(inflight == nil)
			entry, claimed, err := a.claimNextOutboxEntry(verifBg)
			verifMust(err)
			verifAssume(entry != nil && claimed)
			if entry.Operation == partOutboxEntry.PutPartOperation {
				verifMust(a.replayPutPart(verifBg, entry))
			} else {
				verifMust(a.replayDeletePart(verifBg, entry))
			}
			inflight = entry
		case 5: // A's lease expires
			verifCover("lease-expired")
			verifExpireLeases()
		case 6: // worker A resumes: finalize
			verifAssume(inflight != nil)
			_, err := a.finalizePartOutboxEntry(verifBg, inflight)
			verifMust(err)
			inflight = nil
		case 7: // read inside a transaction
			p := verifPick("part", 0, 1)
			verifCover("read")
			verifMust(database.WithTx(verifBg, db, &dbsql.TxOptions{ReadOnly: true}, func(ctx contextT, tx database.Tx) error {
				verifCheckRead(b, tx, ids[p], model[p])
				return nil
			}))
			// the listing is the first statement of its own read transaction (as the
			// garbage collector issues it), so nothing pins a snapshot before it
			verifMust(database.WithTx(verifBg, db, &dbsql.TxOptions{ReadOnly: true}, func(ctx contextT, tx database.Tx) error {
				if inflight == nil && verifBool("flush-during-listing") {
					// worker A flushes while the inner store is being listed
					verifCover("flush-during-listing")
					base.afterList = func() { a.maybeProcessOutboxEntries(verifBg) }
				}
				got, err := b.GetPartIds(ctx, tx)
				base.afterList = nil
				verifMust(err)
				n := 0
				for _, m := range model {
					if m.present {
						n++
					}
				}
				verifAssert(len(got) == n, "GetPartIds does not list exactly the committed parts")
				return nil
			}))
		case 8: // tx-free read
			verifAssume(verifParam("txfree", 0) == 1)
			p := verifPick("part", 0, 1)
			verifCheckRead(b, nil, ids[p], model[p])
		}
	}
	// quiescence: A finishes, then both workers run until nothing is left
	if inflight != nil {
		_, err := a.finalizePartOutboxEntry(verifBg, inflight)
		verifMust(err)
	}
	verifExpireLeases()
	b.maybeProcessOutboxEntries(verifBg)
	a.maybeProcessOutboxEntries(verifBg)
	var pending int
	verifMust(database.WithTx(verifBg, db, &dbsql.TxOptions{ReadOnly: true}, func(ctx contextT, tx database.Tx) error {
		var err error
		pending, err = repo.Count(ctx, tx.SqlTx(), "ob")
		return err
	}))
	verifCover("idle")
	verifAssert(pending == 0, "entries remain although both workers ran to completion")
	for p := 0; p < 2; p++ {
		i := base.find(ids[p])
		verifAssert((i >= 0) == model[p].present, "after the workers went idle the inner store does not hold exactly the committed parts")
		if i >= 0 {
			verifAssert(verifBytesEq(base.data[i], model[p].body), "after the workers went idle a part's content differs from the committed content")
		}
	}
}

func verifCheckRead(s *outboxPartStore, tx database.Tx, id partstore.PartId, m verifPartModel) {
	rc, err := s.GetPart(verifBg, tx, id)
	if !m.present {
		verifAssert(err == partstore.ErrPartNotFound, "GetPart of a deleted/absent part did not report not-found")
		return
	}
	verifAssert(err == nil, "GetPart of a committed part failed")
	data, rerr := io.ReadAll(rc)
	rc.Close()
	verifAssert(rerr == nil && verifBytesEq(data, m.body), "GetPart does not return the latest committed content")
}

// ---- redirect targets --------------------------------------------------------------

var verifUlidSeq uint64
var verifClockSeq int64

func verifStubUlidMake() ulid.ULID {
	verifUlidSeq++
	var id ulid.ULID
	id[5] = 1
	id[14] = byte(verifUlidSeq >> 8)
	id[15] = byte(verifUlidSeq)
	return id
}

func verifStubNow() time.Time {
	verifClockSeq++
	return time.Unix(1700000000+verifClockSeq, 0).UTC()
}

func verifStubSince(t time.Time) time.Duration { return time.Millisecond }
func verifStubRetryWait(ctx contextT)          {}
func verifStubHeartbeat(obs *outboxPartStore, ctx contextT, entry *partOutboxEntry.Entity) func() {
	return func() {}
}


// VerifC18LeaseLoss: worker A claims an entry, replays it and stalls; its lease
// expires; worker B claims the same entry. The solver chooses how B's two
// actions (claim, replay+finalize) interleave with A's remaining ones
// (finalize, flush run). Whatever the order, once both are idle the inner store
// holds exactly the committed parts.
func VerifC18LeaseLoss() {
	db := verifNewDB()
	base := &verifInner{}
	var inner partstore.PartStore = base
	if verifParam("txfree", 0) == 1 {
		inner = verifInnerTxFree{base}
	}
	ids := []partstore.PartId{*partstore.MustNewPartIdFromString("01ARZ3NDEKTSV4RRFFQ69G5FAV")}
	sr, err := sqliteRepo.NewRepository()
	verifMust(err)
	repo := &verifRepo{Repository: sr, ids: ids}
	a := verifNewWorker(db, inner, repo, "ob:A")
	b := verifNewWorker(db, inner, repo, "ob:B")
	// committed history on one part: two operations
	var model verifPartModel
	for i := 0; i < 2; i++ {
		if verifBool("delete") {
			verifMust(database.WithTx(verifBg, db, nil, func(ctx contextT, tx database.Tx) error { return a.DeletePart(ctx, tx, ids[0]) }))
			model = verifPartModel{}
		} else {
			body := []byte{verifByte("body")}
			verifMust(database.WithTx(verifBg, db, nil, func(ctx contextT, tx database.Tx) error {
				return a.PutPart(ctx, tx, ids[0], bytes.NewReader(body))
			}))
			model = verifPartModel{present: true, body: body}
		}
	}
	replay := func(w *outboxPartStore, e *partOutboxEntry.Entity) {
		if e.Operation == partOutboxEntry.PutPartOperation {
			verifMust(w.replayPutPart(verifBg, e))
		} else {
			verifMust(w.replayDeletePart(verifBg, e))
		}
	}
	// A claims the first entry, replays it and stalls; the lease expires
	ea, claimed, err := a.claimNextOutboxEntry(verifBg)
	verifMust(err)
	verifAssert(ea != nil && claimed, "worker A could not claim the first entry")
	replay(a, ea)
	verifExpireLeases()
	// remaining actions: A: finalize, flush; B: claim, replay+finalize
	var eb *partOutboxEntry.Entity
	aDone, bDone := 0, 0
	for aDone < 2 || bDone < 2 {
		takeA := bDone == 2 || (aDone < 2 && verifBool("a-moves"))
		if takeA {
			if aDone == 0 {
				_, err := a.finalizePartOutboxEntry(verifBg, ea)
				verifMust(err)
			} else {
				a.maybeProcessOutboxEntries(verifBg)
			}
			aDone++
			continue
		}
		if bDone == 0 {
			e, ok, err := b.claimNextOutboxEntry(verifBg)
			verifMust(err)
			if ok {
				eb = e
			}
		} else if eb != nil {
			replay(b, eb)
			_, err := b.finalizePartOutboxEntry(verifBg, eb)
			verifMust(err)
		}
		bDone++
	}
	verifExpireLeases()
	b.maybeProcessOutboxEntries(verifBg)
	a.maybeProcessOutboxEntries(verifBg)
	var pending int
	verifMust(database.WithTx(verifBg, db, &dbsql.TxOptions{ReadOnly: true}, func(ctx contextT, tx database.Tx) error {
		var err error
		pending, err = repo.Count(ctx, tx.SqlTx(), "ob")
		return err
	}))
	verifCover("lease-loss")
	verifAssert(pending == 0, "entries remain although both workers ran to completion")
	i := base.find(ids[0])
	verifAssert((i >= 0) == model.present, "after a lost lease the inner store does not hold exactly the committed parts")
	if i >= 0 {
		verifAssert(verifBytesEq(base.data[i], model.body), "after a lost lease a part's content differs from the committed content")
	}
}
