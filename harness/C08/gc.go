package PKGNAME

// C08 with garbage-collection runs: the real partGC.runGC (reconciliation of the
// part registry against the part rows, dedup-index pruning, condemnation of
// unreferenced parts in the part store) is interleaved with writes that share
// parts, overwrites and deletes on the real SQL metadata store. After every step
// every part of every committed object is still in the part store and the
// registry's reference counts equal the number of part rows.
//
// All parts are older than the grace window, so the collector may condemn
// anything that is not referenced.

import (
	"bytes"
	dbsql "database/sql"
	"io"
	"time"

	"github.com/jdillenkofer/pithos/internal/storage/database"
	repositoryfactory "github.com/jdillenkofer/pithos/internal/storage/database/repository"
	"github.com/jdillenkofer/pithos/internal/storage/database/repository/partdedupindex"
	"github.com/jdillenkofer/pithos/internal/storage/metadatapart/metadatastore"
	sqlstore "github.com/jdillenkofer/pithos/internal/storage/metadatapart/metadatastore/sql"
	"github.com/jdillenkofer/pithos/internal/storage/metadatapart/partstore"
	"github.com/oklog/ulid/v2"
)

func verifMust(err error) {
	if err != nil {
		panic(err)
	}
}

var verifUlidSeq uint64
var verifClockSeq int64

func verifStubUlidMake() ulid.ULID {
	verifUlidSeq++
	var id ulid.ULID
	id[5] = 1
	id[14] = byte(verifUlidSeq >> 8)
	id[15] = byte(verifUlidSeq)
	return id
}

func verifStubNow() time.Time {
	verifClockSeq++
	return time.Unix(1700000000+verifClockSeq, 0).UTC()
}

// part store double
type verifGCStore struct{ ids []partstore.PartId }

func (s *verifGCStore) has(id partstore.PartId) bool {
	for _, x := range s.ids {
		if x == id {
			return true
		}
	}
	return false
}
func (s *verifGCStore) Start(ctx contextT) error { return nil }
func (s *verifGCStore) Stop(ctx contextT) error  { return nil }
func (s *verifGCStore) PutPart(ctx contextT, tx database.Tx, id partstore.PartId, r io.Reader) error {
	if !s.has(id) {
		s.ids = append(s.ids, id)
	}
	return nil
}
func (s *verifGCStore) GetPart(ctx contextT, tx database.Tx, id partstore.PartId) (io.ReadCloser, error) {
	if !s.has(id) {
		return nil, partstore.ErrPartNotFound
	}
	return io.NopCloser(bytes.NewReader(nil)), nil
}
func (s *verifGCStore) GetPartIds(ctx contextT, tx database.Tx) ([]partstore.PartId, error) {
	return append([]partstore.PartId(nil), s.ids...), nil
}
func (s *verifGCStore) DeletePart(ctx contextT, tx database.Tx, id partstore.PartId) error {
	for i, x := range s.ids {
		if x == id {
			s.ids = append(append([]partstore.PartId(nil), s.ids[:i]...), s.ids[i+1:]...)
			break
		}
	}
	return nil
}

// the dedup index's backfill is INSERT ... SELECT MIN(..) GROUP BY, outside the
// SQL fragment the executor interprets; the index is a lookup cache for
// deduplication that this harness does not use
type verifGCDedupRepo struct{ partdedupindex.Repository }

func (r verifGCDedupRepo) BackfillFromParts(ctx contextT, tx *dbsql.Tx) (int64, error) {
	if verifNative() {
		return r.Repository.BackfillFromParts(ctx, tx)
	}
	return 0, nil
}

func verifGCPart(i int) partstore.PartId {
	b := make([]byte, 16)
	b[5] = 3 // 1970: older than any grace window
	b[15] = byte(i + 1)
	id, err := partstore.NewPartIdFromBytes(b)
	verifMust(err)
	return *id
}

func VerifC08WithGC() {
	steps := verifParam("steps", 3)
	verifUlidSeq, verifClockSeq = 0, 0
	db := verifNewDB()
	b, err := repositoryfactory.NewBucketRepository(db)
	verifMust(err)
	o, err := repositoryfactory.NewObjectRepository(db)
	verifMust(err)
	p, err := repositoryfactory.NewPartRepository(db)
	verifMust(err)
	t, err := repositoryfactory.NewTagRepository(db)
	verifMust(err)
	u, err := repositoryfactory.NewUserMetadataRepository(db)
	verifMust(err)
	ms, err := sqlstore.New(db, b, o, p, t, u)
	verifMust(err)
	reg, err := repositoryfactory.NewPartRegistryRepository(db)
	verifMust(err)
	ded, err := repositoryfactory.NewPartDedupIndexRepository(db)
	verifMust(err)
	store := &verifGCStore{}
	named, err := partstore.NewNamedPartStores(store, nil, nil)
	verifMust(err)
	collector, err := New(db, ms, named, reg, verifGCDedupRepo{ded}, time.Minute)
	verifMust(err)
	g := collector.(*partGC)

	bucket := metadatastore.MustNewBucketName("bucket")
	keys := [2]metadatastore.ObjectKey{metadatastore.MustNewObjectKey("a"), metadatastore.MustNewObjectKey("b")}
	write := func(fn func(tx *dbsql.Tx) []metadatastore.Part) {
		var released []metadatastore.Part
		verifMust(database.WithTx(verifBg, db, nil, func(ctx contextT, tx database.Tx) error {
			released = fn(tx.SqlTx())
			return nil
		}))
		// the storage layer removes exactly the reported parts from the part store
		for _, r := range released {
			store.DeletePart(verifBg, nil, r.Id)
		}
	}
	write(func(tx *dbsql.Tx) []metadatastore.Part {
		verifMust(ms.CreateBucket(verifBg, tx, bucket))
		return nil
	})
	var cur [2][]partstore.PartId // parts of the current object of each key
	var used []partstore.PartId
	parts := func(ids []partstore.PartId, pre bool) []metadatastore.Part {
		var out []metadatastore.Part
		for _, id := range ids {
			out = append(out, metadatastore.Part{Id: id, Size: 1, ETag: "pe", RefPreAcquired: pre})
		}
		return out
	}
	for s := 0; s < steps; s++ {
		switch op := verifPick("op", 0, 6); op {
		case 0: // put a with a fresh part
			id := verifGCPart(len(used))
			used = append(used, id)
			verifMust(store.PutPart(verifBg, nil, id, nil))
			write(func(tx *dbsql.Tx) []metadatastore.Part {
				res, err := ms.PutObject(verifBg, tx, bucket, &metadatastore.Object{Key: keys[0], ETag: "e", Size: 1, Parts: parts([]partstore.PartId{id}, false)}, nil)
				verifAssert(err == nil, "C08: PutObject failed")
				return res.UnreferencedParts
			})
			cur[0] = []partstore.PartId{id}
		case 1: // a is rewritten as two chunks that both deduplicate onto its first part
			verifAssume(len(cur[0]) > 0)
			ids := []partstore.PartId{cur[0][0], cur[0][0]}
			write(func(tx *dbsql.Tx) []metadatastore.Part {
				ok, err := ms.TryAddPartReferences(verifBg, tx, ids)
				verifAssert(err == nil && ok, "C08: references to a live part refused")
				res, err := ms.PutObject(verifBg, tx, bucket, &metadatastore.Object{Key: keys[0], ETag: "e", Size: 2, Parts: parts(ids, true)}, nil)
				verifAssert(err == nil, "C08: PutObject with a repeated part failed")
				return res.UnreferencedParts
			})
			cur[0] = ids
			verifCover("repeated-part")
		case 2: // b becomes a copy of a, sharing its parts
			verifAssume(len(cur[0]) > 0)
			ids := append([]partstore.PartId(nil), cur[0]...)
			write(func(tx *dbsql.Tx) []metadatastore.Part {
				ok, err := ms.TryAddPartReferences(verifBg, tx, ids)
				verifAssert(err == nil && ok, "C08: references to a live part refused")
				res, err := ms.PutObject(verifBg, tx, bucket, &metadatastore.Object{Key: keys[1], ETag: "e", Size: int64(len(ids)), Parts: parts(ids, true)}, nil)
				verifAssert(err == nil, "C08: sharing PutObject failed")
				return res.UnreferencedParts
			})
			cur[1] = ids
		case 3, 4: // delete a / b
			write(func(tx *dbsql.Tx) []metadatastore.Part {
				res, err := ms.DeleteObject(verifBg, tx, bucket, keys[op-3], nil)
				verifAssert(err == nil, "C08: DeleteObject failed")
				return res.UnreferencedParts
			})
			cur[op-3] = nil
		case 5: // a garbage-collection run
			n := len(store.ids)
			verifAssert(g.runGC() == nil, "C08: the garbage collector failed")
			verifCover("gc-run")
			if len(store.ids) < n {
				verifCover("gc-condemned")
			}
		case 6: // a part is uploaded by a write that never commits (an orphan for the collector)
			id := verifGCPart(len(used))
			used = append(used, id)
			verifMust(store.PutPart(verifBg, nil, id, nil))
		}
		// ---- claims ----
		for k := range cur {
			for _, id := range cur[k] {
				verifAssert(store.has(id), "C08: a part referenced by a committed object is no longer in the part store")
			}
		}
		verifMust(database.WithTx(verifBg, db, &dbsql.TxOptions{ReadOnly: true}, func(ctx contextT, tx database.Tx) error {
			for _, id := range used {
				var rows, refs int64
				verifMust(tx.SqlTx().QueryRowContext(ctx, "SELECT COUNT(*) FROM parts WHERE part_id = $1", id.String()).Scan(&rows))
				err := tx.SqlTx().QueryRowContext(ctx, "SELECT ref_count FROM part_registry WHERE part_id = $1", id.String()).Scan(&refs)
				if err == dbsql.ErrNoRows {
					verifAssert(rows == 0, "C08: part rows without a registry row")
					continue
				}
				verifMust(err)
				verifAssert(refs == rows, "C08: registry reference count differs from the number of part rows")
			}
			return nil
		}))
	}
	verifCover("sequence")
}
