package PKGNAME

// C08: a part that is still referenced by an object row is never reported as
// unreferenced (the storage layer deletes exactly the reported parts from the
// part store), and the registry's reference counts stay equal to the number of
// part rows, under any history of writes, overwrites, sharing writes and deletes.

import (
	dbsql "database/sql"

	"github.com/jdillenkofer/pithos/internal/storage/metadatapart/metadatastore"
	"github.com/jdillenkofer/pithos/internal/storage/metadatapart/partstore"
)

func verifC08Part(i int) partstore.PartId {
	b := make([]byte, 16)
	b[5] = 3
	b[15] = byte(i + 1)
	id, err := partstore.NewPartIdFromBytes(b)
	verifMust(err)
	return *id
}

func verifC08Rows(tx *dbsql.Tx, p partstore.PartId) int64 {
	var n int64
	verifMust(tx.QueryRowContext(verifCtx, "SELECT COUNT(*) FROM parts WHERE part_id = $1", p.String()).Scan(&n))
	return n
}

func verifC08Refs(tx *dbsql.Tx, p partstore.PartId) (int64, bool) {
	var n int64
	err := tx.QueryRowContext(verifCtx, "SELECT ref_count FROM part_registry WHERE part_id = $1", p.String()).Scan(&n)
	if err == dbsql.ErrNoRows {
		return 0, false
	}
	verifMust(err)
	return n, true
}

func VerifC08Sequence() {
	steps := verifParam("steps", 3)
	verifUlidSeq, verifClockSeq = 0, 0
	tx := verifTx()
	var status *string
	if verifBool("versioned") {
		s := "Enabled"
		status = &s
	}
	verifInsertBucket(tx, "bucket", status)
	sms := verifStore()
	bucket := metadatastore.MustNewBucketName("bucket")
	keys := [2]metadatastore.ObjectKey{metadatastore.MustNewObjectKey("a"), metadatastore.MustNewObjectKey("b")}
	nextPart := 0
	used := []partstore.PartId{}
	var curPart [2]*partstore.PartId // part of the current version of each key, if any
	for s := 0; s < steps; s++ {
		before := make([]int64, len(used))
		for i, p := range used {
			before[i] = verifC08Rows(tx, p)
		}
		var reported []metadatastore.Part
		op := verifPick("op", 0, 4)
		switch op {
		case 0, 1: // put key a / b with a fresh part
			p := verifC08Part(nextPart)
			nextPart++
			used = append(used, p)
			before = append(before, 0)
			obj := &metadatastore.Object{Key: keys[op], ETag: "e", Size: 1, Parts: []metadatastore.Part{{Id: p, Size: 1, ETag: "pe"}}}
			res, err := sms.PutObject(verifCtx, tx, bucket, obj, nil)
			verifAssert(err == nil, "C08: PutObject failed")
			reported = res.UnreferencedParts
			curPart[op] = &p
		case 2: // write key b sharing key a's current part (copy / dedup path)
			if curPart[0] == nil {
				verifAssume(false)
			}
			p := *curPart[0]
			ok, err := sms.TryAddPartReferences(verifCtx, tx, []partstore.PartId{p})
			verifAssert(err == nil, "C08: TryAddPartReferences failed")
			verifAssert(ok, "C08: reference to a live part refused")
			obj := &metadatastore.Object{Key: keys[1], ETag: "e", Size: 1, Parts: []metadatastore.Part{{Id: p, Size: 1, ETag: "pe", RefPreAcquired: true}}}
			res, err := sms.PutObject(verifCtx, tx, bucket, obj, nil)
			verifAssert(err == nil, "C08: sharing PutObject failed")
			reported = res.UnreferencedParts
			curPart[1] = &p
		case 3, 4: // delete key a / b
			res, err := sms.DeleteObject(verifCtx, tx, bucket, keys[op-3], nil)
			verifAssert(err == nil, "C08: DeleteObject failed")
			reported = res.UnreferencedParts
			if status == nil {
				curPart[op-3] = nil
			} else {
				curPart[op-3] = nil // a delete marker is current now; older versions keep their parts
			}
		}
		// ---- claims ----
		for _, r := range reported {
			verifAssert(verifC08Rows(tx, r.Id) == 0, "C08: a part still referenced by an object row was reported as unreferenced (it would be deleted from the part store)")
			verifCover("part-released")
		}
		for i, p := range used {
			rows := verifC08Rows(tx, p)
			refs, present := verifC08Refs(tx, p)
			if rows == 0 {
				verifAssert(!present, "C08: registry keeps a row for a part without references")
			} else {
				verifAssert(present && refs == rows, "C08: registry reference count differs from the number of part rows")
			}
			if before[i] > 0 && rows == 0 {
				found := false
				for _, r := range reported {
					if r.Id == p {
						found = true
					}
				}
				verifAssert(found, "C09: the last reference to a part was removed but the part was not reported for deletion")
			}
		}
	}
	verifCover("sequence")
}
