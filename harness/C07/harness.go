package PKGNAME

// VerifC07Conditional: conditional writes and deletes mixed into arbitrary
// versioning histories. A conditional operation succeeds exactly when its
// precondition holds for the current state and otherwise leaves every version
// as it was (the claims checked after every step). Under SQLite's single
// writer (one immediate write transaction at a time) concurrent conditional
// writers are serialised, so exactly the first of several If-None-Match:*
// writers to an absent key can succeed.
func VerifC07Conditional() {
	verifMaxOp, verifExtraOps = 7, []int{8, 9}
	verifVersionsRun(verifParam("steps", 3), false, "C02-latest-promotion-by-created-at", "")
	verifMaxOp, verifExtraOps = 4, []int{8}
}
