package PKGNAME

// VerifC07Interleave: statement-level interleavings that a database without a
// single writer allows (PostgreSQL READ COMMITTED: every statement of a
// transaction sees what other transactions committed in the meantime). Writer A
// runs one conditional operation through the real sqlMetadataStore; its object
// repository is wrapped so that, immediately before A's k-th object-repository
// call (k chosen by the solver), a complete conditional or unconditional write
// of writer B to the same key is executed and "committed" (B runs on the same
// connection, which is what A's later statements would observe). B is only
// injected while A has not yet written an object row, so B never has to wait
// for a row lock held by A: every such schedule is a legal one.

import (
	"context"
	dbsql "database/sql"

	"github.com/jdillenkofer/pithos/internal/storage/database/repository/object"
	"github.com/jdillenkofer/pithos/internal/storage/metadatapart/metadatastore"
	"github.com/oklog/ulid/v2"
)

type verifC07Interposer struct {
	object.Repository
	at, calls int
	wrote     bool
	ran       bool
	intruder  func(tx *dbsql.Tx)
}

func (r *verifC07Interposer) read(tx *dbsql.Tx) {
	if !r.ran && !r.wrote && r.calls == r.at {
		r.ran = true
		r.intruder(tx)
	}
	r.calls++
}

func (r *verifC07Interposer) FindObjectByBucketNameAndKey(ctx context.Context, tx *dbsql.Tx, b metadatastore.BucketName, k metadatastore.ObjectKey) (*object.Entity, error) {
	r.read(tx)
	return r.Repository.FindObjectByBucketNameAndKey(ctx, tx, b, k)
}
func (r *verifC07Interposer) FindNullObjectVersionByBucketNameAndKey(ctx context.Context, tx *dbsql.Tx, b metadatastore.BucketName, k metadatastore.ObjectKey) (*object.Entity, error) {
	r.read(tx)
	return r.Repository.FindNullObjectVersionByBucketNameAndKey(ctx, tx, b, k)
}
func (r *verifC07Interposer) FindObjectByBucketNameAndKeyAndUploadId(ctx context.Context, tx *dbsql.Tx, b metadatastore.BucketName, k metadatastore.ObjectKey, u metadatastore.UploadId) (*object.Entity, error) {
	r.read(tx)
	return r.Repository.FindObjectByBucketNameAndKeyAndUploadId(ctx, tx, b, k, u)
}
func (r *verifC07Interposer) SaveObject(ctx context.Context, tx *dbsql.Tx, o *object.Entity) error {
	r.read(tx)
	r.wrote = true
	return r.Repository.SaveObject(ctx, tx, o)
}
func (r *verifC07Interposer) InsertObjectIfAbsent(ctx context.Context, tx *dbsql.Tx, o *object.Entity) (*bool, error) {
	r.read(tx)
	r.wrote = true
	return r.Repository.InsertObjectIfAbsent(ctx, tx, o)
}
func (r *verifC07Interposer) UpdateObjectByIdAndOptimisticLockVersion(ctx context.Context, tx *dbsql.Tx, o *object.Entity, v int64) (*bool, error) {
	r.read(tx)
	r.wrote = true
	return r.Repository.UpdateObjectByIdAndOptimisticLockVersion(ctx, tx, o, v)
}
func (r *verifC07Interposer) ClearLatestObjectByBucketNameAndKey(ctx context.Context, tx *dbsql.Tx, b metadatastore.BucketName, k metadatastore.ObjectKey) error {
	r.read(tx)
	r.wrote = true
	return r.Repository.ClearLatestObjectByBucketNameAndKey(ctx, tx, b, k)
}
func (r *verifC07Interposer) DeleteObjectById(ctx context.Context, tx *dbsql.Tx, id ulid.ULID) (*bool, error) {
	r.read(tx)
	r.wrote = true
	return r.Repository.DeleteObjectById(ctx, tx, id)
}
func (r *verifC07Interposer) DeleteObjectByIdAndOptimisticLockVersion(ctx context.Context, tx *dbsql.Tx, id ulid.ULID, v int64) (*bool, error) {
	r.read(tx)
	r.wrote = true
	return r.Repository.DeleteObjectByIdAndOptimisticLockVersion(ctx, tx, id, v)
}

func VerifC07Interleave() {
	verifUlidSeq, verifClockSeq = 0, 0
	tx := verifTx()
	verifInsertBucket(tx, "bucket", nil)
	plain := verifStore()
	bucket := metadatastore.MustNewBucketName("bucket")
	key := metadatastore.MustNewObjectKey("k")

	scenario := verifPick("scenario", 0, 3)
	// 0: A = PutObject If-Match e1        over an object e1; B = unconditional PutObject e2
	// 1: A = Complete  If-Match e1        over an object e1; B = unconditional PutObject e2
	// 2: A = PutObject If-None-Match:*    on an absent key;  B = PutObject If-None-Match:*
	// 3: A = Complete  If-None-Match:*    on an absent key;  B = PutObject If-None-Match:*
	ifMatch := scenario < 2
	if ifMatch {
		_, err := plain.PutObject(verifCtx, tx, bucket, &metadatastore.Object{Key: key, ETag: "e1", Size: 1}, nil)
		verifAssert(err == nil, "C07 harness: initial PutObject failed")
	}
	var upload *metadatastore.InitiateMultipartUploadResult
	if scenario == 1 || scenario == 3 {
		up, err := plain.CreateMultipartUpload(verifCtx, tx, bucket, key, nil, nil, nil)
		verifAssert(err == nil, "C07 harness: CreateMultipartUpload failed")
		_, err = plain.UploadPart(verifCtx, tx, bucket, key, up.UploadId, 1, metadatastore.Part{Id: verifMPPart(1), ETag: "aa", Size: 1})
		verifAssert(err == nil, "C07 harness: UploadPart failed")
		upload = up
	}

	var errB error
	ip := &verifC07Interposer{Repository: plain.objectRepository, at: verifPick("at", 0, 7)}
	ip.intruder = func(tx *dbsql.Tx) {
		var opts *metadatastore.PutObjectOptions
		if !ifMatch {
			opts = &metadatastore.PutObjectOptions{IfNoneMatchStar: true}
		}
		_, errB = plain.PutObject(verifCtx, tx, bucket, &metadatastore.Object{Key: key, ETag: "e2", Size: 1}, opts)
	}
	a := verifStore()
	a.objectRepository = ip

	var errA error
	e1 := "e1"
	switch scenario {
	case 0:
		_, errA = a.PutObject(verifCtx, tx, bucket, &metadatastore.Object{Key: key, ETag: "e3", Size: 1}, &metadatastore.PutObjectOptions{IfMatchETag: &e1})
	case 1:
		_, errA = a.CompleteMultipartUpload(verifCtx, tx, bucket, key, upload.UploadId, nil, &metadatastore.CompleteMultipartUploadOptions{IfMatchETag: &e1})
	case 2:
		_, errA = a.PutObject(verifCtx, tx, bucket, &metadatastore.Object{Key: key, ETag: "e3", Size: 1}, &metadatastore.PutObjectOptions{IfNoneMatchStar: true})
	default:
		_, errA = a.CompleteMultipartUpload(verifCtx, tx, bucket, key, upload.UploadId, nil, &metadatastore.CompleteMultipartUploadOptions{IfNoneMatchStar: true})
	}
	verifAssume(ip.ran) // the chosen position exists in A's run
	verifCover("interleaved")
	verifAssert(errB == nil, "C07 harness: the interleaved writer is expected to succeed (it commits before A writes)")
	// B's write was acknowledged before A wrote anything: A's precondition
	// (If-Match e1 / If-None-Match:*) no longer holds, so A must not succeed
	verifAssert(errA != nil, "C07: a conditional writer that observed an older state overwrote a write acknowledged in the meantime")
	if errA != nil {
		verifCover("stale-writer-rejected")
	}
	h, herr := plain.HeadObject(verifCtx, tx, bucket, key)
	verifAssert(herr == nil && h.ETag == "e2", "C07: the acknowledged write of the interleaved writer is not the current object")
}
