package PKGNAME

// C32: client IP / scheme are only taken from forwarding headers when the TCP
// peer is a trusted proxy.

import (
	"errors"
	"net"

	"github.com/jdillenkofer/pithos/internal/http/server/authorization"
)

// ---- environment: net.ParseCIDR / net.ParseIP / (*net.IPNet).Contains are
// summarised by their documented contract. Under the symbolic executor the
// configured CIDR strings and addresses are tokens; validity and membership are
// symbolic booleans. Natively the tokens are replaced by real spellings that
// realise the same validity / membership.

var verifC32Valid [2]bool // CIDR entry i is well-formed
var verifC32In [2]bool    // peer lies inside CIDR entry i
var verifC32Nets [2]*net.IPNet
var verifC32PeerValid bool
var verifC32FwdValid bool

var verifC32ErrParse = errors.New("invalid CIDR address")

func verifStubParseCIDR(s string) (net.IP, *net.IPNet, error) {
	for i, tok := range [2]string{"cidr0", "cidr1"} {
		if s == tok {
			if !verifC32Valid[i] {
				return nil, nil, verifC32ErrParse
			}
			verifC32Nets[i] = &net.IPNet{IP: net.IP{10, byte(i), 0, 0}, Mask: net.IPMask{255, 255, 0, 0}}
			return verifC32Nets[i].IP, verifC32Nets[i], nil
		}
	}
	return nil, nil, verifC32ErrParse
}

func verifStubParseIP(s string) net.IP {
	switch s {
	case "peer":
		if verifC32PeerValid {
			return net.IP{10, 9, 9, 9}
		}
	case "fwd":
		if verifC32FwdValid {
			return net.IP{203, 0, 113, 9}
		}
	}
	return nil
}

func verifStubContains(n *net.IPNet, ip net.IP) bool {
	for i := range verifC32Nets {
		if n == verifC32Nets[i] {
			return verifC32In[i]
		}
	}
	return false
}

func verifStubIPString(ip net.IP) string {
	if len(ip) == 4 && ip[0] == 203 {
		return "203.0.113.9"
	}
	return "10.9.9.9"
}

// spellings used natively
func verifC32CIDR(i int) string {
	if !verifNative() {
		return [2]string{"cidr0", "cidr1"}[i]
	}
	if !verifC32Valid[i] {
		return [2]string{"10.0.0.0/33", "not-a-cidr"}[i]
	}
	// nets are chosen so that the requested membership pattern is realisable
	// for the peer address picked in verifC32Peer
	if i == 0 {
		return "10.0.0.0/8"
	}
	if verifC32Valid[0] && verifC32In[0] && verifC32In[1] {
		return "10.1.0.0/16"
	}
	return "192.168.0.0/16"
}

func verifC32Peer() string {
	if !verifNative() {
		return "peer"
	}
	if !verifC32PeerValid {
		return "not-an-ip"
	}
	in0 := verifC32Valid[0] && verifC32In[0]
	in1 := verifC32Valid[1] && verifC32In[1]
	switch {
	case in0 && in1:
		return "10.1.0.1"
	case in0:
		return "10.0.0.1"
	case in1:
		return "192.168.0.1"
	}
	return "172.16.0.1"
}

func verifC32Fwd() string {
	if !verifNative() {
		return "fwd"
	}
	if verifC32FwdValid {
		return "203.0.113.9"
	}
	return "bogus"
}

func VerifC32Resolve() {
	n := verifPick("n", 0, 2)
	for i := 0; i < 2; i++ {
		verifC32Valid[i] = verifBool("valid")
		verifC32In[i] = verifBool("in")
		verifC32Nets[i] = nil
	}
	if verifNative() {
		// a peer cannot be inside entry 1 = 10.1/16 but outside entry 0 = 10/8; natively that
		// combination is realised with disjoint nets, see verifC32CIDR
	}
	verifC32PeerValid = verifBool("peerValid")
	verifC32FwdValid = verifBool("fwdValid")
	trust := verifBool("trust")
	hasRemote := verifBool("hasRemote")
	var cidrs []string
	for i := 0; i < n; i++ {
		cidrs = append(cidrs, verifC32CIDR(i))
	}
	a := &LuaAuthorizer{trustForwardedHeaders: trust, trustedProxyCIDRs: parseTrustedProxyCIDRs(cidrs)}

	headers := map[string][]string{}
	switch verifPick("ipHeader", 0, 3) {
	case 1:
		headers["Cf-Connecting-Ip"] = []string{verifC32Fwd()}
	case 2:
		headers["X-Forwarded-For"] = []string{verifC32Fwd() + ", 198.51.100.7"}
	case 3:
		headers["x-forwarded-for"] = []string{verifC32Fwd()}
	}
	switch verifPick("protoHeader", 0, 2) {
	case 1:
		headers["X-Forwarded-Proto"] = []string{"https"}
	case 2:
		headers["X-Forwarded-Proto"] = []string{"HTTPS, http"}
	}
	peer := verifC32Peer()
	req := authorization.HTTPRequest{Headers: headers, Scheme: "http"}
	if hasRemote {
		req.RemoteIP = &peer
	}
	clientIP, scheme := a.resolveClientIPAndScheme(req)

	changed := scheme != "http"
	if hasRemote {
		changed = changed || clientIP == nil || *clientIP != peer
	} else {
		changed = changed || clientIP != nil
	}
	inSomeValidNet := false
	for i := 0; i < n; i++ {
		if verifC32Valid[i] && verifC32In[i] {
			inSomeValidNet = true
		}
	}
	if changed {
		verifCover("forwarded-values-used")
		verifAssert(trust, "C32: forwarded headers used although trustForwardedHeaders is off")
		verifAssert(hasRemote && verifC32PeerValid, "C32: forwarded headers used although the peer address is unknown")
		if verifKnown("C32-all-entries-malformed", n > 0 && !(n >= 1 && verifC32Valid[0]) && !(n >= 2 && verifC32Valid[1])) {
			return
		}
		verifAssert(n == 0 || inSomeValidNet, "C32: forwarded headers trusted from a peer outside every usable configured CIDR")
	} else {
		verifCover("peer-values-kept")
	}
}
