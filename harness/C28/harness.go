package PKGNAME

// C28: a request is accepted as an access key only if method, path, query,
// signed headers, x-amz-* / Content-MD5 headers, payload hash, credential scope
// and timestamp window are those that were signed.
//
// A base request is signed with pithos's own signing functions over injective
// HMAC / SHA-256 stubs (C29 relates that canonicalisation to the SDK's), then
// one mutation chosen by the solver - the field, the byte position and the new
// byte are symbolic - is applied, and the real checkAuthentication must reject
// it unless the mutation is the identity.

import (
	"hash"
	"net/http"
	"net/url"
	"time"
)

// ---- injective hash stubs ------------------------------------------------------

type verifHash struct{ data []byte }

func (h *verifHash) Write(p []byte) (int, error) { h.data = append(h.data, p...); return len(p), nil }
func (h *verifHash) Sum(b []byte) []byte          { return append(b, verifHashBytes("sha256", 32, h.data)...) }
func (h *verifHash) Reset()                       { h.data = nil }
func (h *verifHash) Size() int                    { return 32 }
func (h *verifHash) BlockSize() int               { return 64 }

func verifStubSha256New() hash.Hash { return &verifHash{} }

func verifStubHmac(secret []byte, data []byte) []byte {
	in := make([]byte, 0, len(secret)+len(data)+2)
	in = append(in, byte(len(secret)), byte(len(secret)>>8))
	in = append(in, secret...)
	in = append(in, data...)
	return verifHashBytes("hmac", 32, in)
}

var verifNowOffset int64

// the signing instant: fixed under the symbolic executor (time.Now is
// redirected relative to it), the real current time natively
var verifSignTime = verifSignInstant()

func verifSignInstant() string {
	if verifNative() {
		return time.Now().UTC().Format("20060102T150405Z")
	}
	return "20260102T030405Z"
}

func verifStubNow() time.Time {
	t, _ := time.Parse("20060102T150405Z", verifSignTime)
	return t.Add(time.Duration(verifNowOffset) * time.Second)
}

// ---- the signed base request ---------------------------------------------------

type verifReq struct {
	method  string
	path    string
	query   string
	meta    string // x-amz-meta-a
	sha     string // x-amz-content-sha256
	date    string // x-amz-date
	meta2   string // a second field line of the signed x-amz-meta-a header ("" = none)
	extraK  string // an additional header (not in the signed list)
	extraV  string
	cred    string
	signed  string
	sig     string
	presign bool
}

func verifBase(presign bool) verifReq {
	return verifReq{method: "PUT", path: "/bucket/ab", query: "partNumber=1&uploadId=u", meta: "v1", sha: "UNSIGNED-PAYLOAD", date: verifSignTime,
		cred: "AK/" + verifSignTime[:8] + "/eu-central-1/s3/aws4_request", signed: "host;x-amz-content-sha256;x-amz-date;x-amz-meta-a", presign: presign}
}

func (q verifReq) build() *http.Request {
	r := &http.Request{Method: q.method, Host: "s3.example", Header: http.Header{}, URL: &url.URL{Path: q.path, RawQuery: q.query}, Body: http.NoBody}
	r.Header["X-Amz-Meta-A"] = []string{q.meta}
	if q.meta2 != "" {
		r.Header["X-Amz-Meta-A"] = []string{q.meta, q.meta2}
	}
	if q.extraK != "" {
		r.Header[http.CanonicalHeaderKey(q.extraK)] = []string{q.extraV}
	}
	if q.presign {
		v := r.URL.Query()
		v.Set("X-Amz-Algorithm", "AWS4-HMAC-SHA256")
		v.Set("X-Amz-Credential", q.cred)
		v.Set("X-Amz-Date", q.date)
		v.Set("X-Amz-Expires", "60")
		v.Set("X-Amz-SignedHeaders", "host;x-amz-meta-a")
		if q.sig != "" {
			v.Set("X-Amz-Signature", q.sig)
		}
		r.URL.RawQuery = v.Encode()
		return r
	}
	r.Header["X-Amz-Content-Sha256"] = []string{q.sha}
	r.Header["X-Amz-Date"] = []string{q.date}
	r.Header["Authorization"] = []string{"AWS4-HMAC-SHA256 Credential=" + q.cred + ", SignedHeaders=" + q.signed + ", Signature=" + q.sig}
	return r
}

// sign computes the signature a client holding the secret would send.
func (q verifReq) sign() string {
	r := q.build()
	signed := []string{"host", "x-amz-content-sha256", "x-amz-date", "x-amz-meta-a"}
	if q.presign {
		signed = []string{"host", "x-amz-meta-a"}
	}
	sts, err := generateStringToSign(r, q.date, verifSignTime[:8]+"/eu-central-1/s3/aws4_request", signed, q.presign, signatureAlgorithmV4)
	if err != nil {
		panic(err)
	}
	return createSignature(createSigningKey("SK", verifSignTime[:8], "eu-central-1", "s3", "aws4_request"), *sts)
}

func verifMutateByte(s string, tag string) (string, bool) {
	i := verifPick(tag+"-pos", 0, len(s)-1)
	c := verifByte(tag + "-byte")
	b := []byte(s)
	same := b[i] == c
	b[i] = c
	return string(b), same
}

var verifCreds = []Credentials{{AccessKeyId: "AK", SecretAccessKey: "SK"}, {AccessKeyId: "AK2", SecretAccessKey: "SK2"}}

// VerifC28Mutations
func VerifC28Mutations() {
	q := verifBase(verifParam("presigned", 0) == 1)
	q.sig = q.sign()
	// positive control: the untouched request is accepted as AK
	{
		id, ok := checkAuthentication(verifCreds, "eu-central-1", q.build())
		verifAssert(ok && id != nil && *id == "AK", "the correctly signed request was rejected")
	}
	m := q
	identity := false
	switch verifPick("mutation", 0, 12) {
	case 0:
		m.method = []string{"GET", "DELETE", "POST"}[verifPick("method", 0, 2)]
	case 1: // a byte of the object key
		b := []byte(m.path)
		i := verifPick("path-pos", 8, 9)
		c := verifByte("path-byte")
		verifAssume(c != 0)
		identity = b[i] == c
		b[i] = c
		m.path = string(b)
	case 2: // a byte of a signed query value
		m.query, identity = verifMutateByte(m.query, "query")
		// the handlers see r.URL.Query(): mutations that leave that multimap
		// unchanged are not alterations
		if !identity {
			a, errA := url.ParseQuery(q.query)
			b, errB := url.ParseQuery(m.query)
			identity = errA == nil && errB == nil && a.Encode() == b.Encode()
		}
	case 3: // an added query parameter
		m.query += "&versionId=x"
	case 4: // a byte of a signed header value
		m.meta, identity = verifMutateByte(m.meta, "meta")
		identity = identity || canonicalHeaderValue(m.meta) == canonicalHeaderValue(q.meta)
	case 5: // an added security-sensitive header that is not signed
		m.extraK = []string{"x-amz-acl", "content-md5", "x-amz-meta-z", "x-amz-tagging"}[verifPick("extra", 0, 3)]
		m.extraV = "v"
	case 6: // the declared payload hash
		verifAssume(!q.presign)
		m.sha = []string{"STREAMING-UNSIGNED-PAYLOAD-TRAILER", "e3b0c44298fc1c149afbf4c8996fb92427ae41e4649b934ca495991b7852b855"}[verifPick("sha", 0, 1)]
	case 7: // a byte of the credential scope
		m.cred, identity = verifMutateByte(m.cred, "cred")
	case 8: // the timestamp
		t, _ := time.Parse("20060102T150405Z", q.date)
		m.date = t.Add([]time.Duration{time.Second, 24 * time.Hour, time.Hour}[verifPick("date", 0, 2)]).Format("20060102T150405Z")
	case 9: // a byte of the signature
		m.sig, identity = verifMutateByte(m.sig, "sig")
	case 10: // the clock: outside / inside the validity window
		verifNowOffset = verifInt64("clock-offset")
		verifAssume(verifNowOffset > -100000 && verifNowOffset < 100000)
		limit := int64(300)
		if q.presign {
			limit = 60
		}
		id, ok := checkAuthentication(verifCreds, "eu-central-1", m.build())
		if verifNowOffset < -900 || verifNowOffset > limit {
			verifCover("outside-window")
			verifAssert(!ok, "a request outside its timestamp window was accepted")
		} else {
			verifCover("inside-window")
			verifAssert(ok && *id == "AK", "a request inside its timestamp window was rejected")
		}
		verifNowOffset = 0
		return
	case 12: // a second field line appended to a signed header
		m.meta2 = "evil"
	case 11: // the signed header list loses a header the request carries
		verifAssume(!q.presign)
		m.signed = "host;x-amz-content-sha256;x-amz-date"
	}
	_, ok := checkAuthentication(verifCreds, "eu-central-1", m.build())
	if identity {
		verifCover("identity")
		return
	}
	verifCover("altered")
	verifAssert(!ok, "an altered request was accepted with the original signature")
}
