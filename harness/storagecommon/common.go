package PKGNAME

// Shared support for the storage-level harnesses (package metadatapart): the
// real metadataPartStorage (built by the real NewStorageWithNamedPartStores)
// over the real sqlMetadataStore and the real SQLite repositories. Under the
// symbolic executor database/sql is interpreted by sqlsym (transactions with
// snapshot/rollback); natively (replay) a real SQLite database is opened.
//
// The part stores are in-memory doubles that honour the PartStore contract the
// real stores implement: writes made inside a transaction are undone by an
// OnRollback hook, GetPart of an unknown id is ErrPartNotFound. They can fail
// at a chosen call (fault injection).

import (
	"bytes"
	"context"
	dbsql "database/sql"
	"errors"
	"io"
	"time"

	"github.com/jdillenkofer/pithos/internal/checksumutils"
	"github.com/jdillenkofer/pithos/internal/storage"
	"github.com/jdillenkofer/pithos/internal/storage/database"
	repositoryfactory "github.com/jdillenkofer/pithos/internal/storage/database/repository"
	bucketrepo "github.com/jdillenkofer/pithos/internal/storage/database/repository/bucket"
	objectrepo "github.com/jdillenkofer/pithos/internal/storage/database/repository/object"
	partrepo "github.com/jdillenkofer/pithos/internal/storage/database/repository/part"
	tagrepo "github.com/jdillenkofer/pithos/internal/storage/database/repository/tag"
	usermetarepo "github.com/jdillenkofer/pithos/internal/storage/database/repository/usermetadata"
	"github.com/jdillenkofer/pithos/internal/storage/metadatapart/metadatastore"
	sqlstore "github.com/jdillenkofer/pithos/internal/storage/metadatapart/metadatastore/sql"
	"github.com/jdillenkofer/pithos/internal/storage/metadatapart/partstore"
	"github.com/oklog/ulid/v2"
)

var verifCtx = context.Background()

var verifNativeDB func() database.Database

type verifDBT struct{ native database.Database }

func (d *verifDBT) BeginTx(ctx context.Context, opts *dbsql.TxOptions) (*database.TxController, error) {
	if verifFaultPoint() {
		return nil, verifErrInjected
	}
	if d.native != nil {
		return d.native.BeginTx(ctx, opts)
	}
	tx := new(dbsql.Tx)
	verifSQLBegin(tx)
	return database.NewTxController(tx, d, opts != nil && opts.ReadOnly), nil
}
func (d *verifDBT) PingContext(ctx context.Context) error { return nil }
func (d *verifDBT) Close() error                          { return nil }
func (d *verifDBT) GetDatabaseType() database.DatabaseType {
	return database.DB_TYPE_SQLITE
}

// ---- fault injection ------------------------------------------------------

var verifErrInjected = errors.New("verif: injected failure")

// verifFaultAt is the index of the fault point that fails (-1: none);
// verifFaultSeen counts the fault points passed since it was armed.
var verifFaultAt = -1
var verifFaultSeen = 0

func verifArmFault(at int) {
	verifFaultAt = at
	verifFaultSeen = 0
}

func verifFaultPoint() bool {
	if verifFaultAt < 0 {
		return false
	}
	hit := verifFaultSeen == verifFaultAt
	verifFaultSeen++
	return hit
}

// ---- failing repositories (database statement failures) -------------------

type verifObjectRepo struct{ objectrepo.Repository }

func (r *verifObjectRepo) SaveObject(ctx context.Context, tx *dbsql.Tx, e *objectrepo.Entity) error {
	if verifFaultPoint() {
		return verifErrInjected
	}
	return r.Repository.SaveObject(ctx, tx, e)
}
func (r *verifObjectRepo) UpdateObjectByIdAndOptimisticLockVersion(ctx context.Context, tx *dbsql.Tx, e *objectrepo.Entity, v int64) (*bool, error) {
	if verifFaultPoint() {
		return nil, verifErrInjected
	}
	return r.Repository.UpdateObjectByIdAndOptimisticLockVersion(ctx, tx, e, v)
}
func (r *verifObjectRepo) DeleteObjectById(ctx context.Context, tx *dbsql.Tx, id ulid.ULID) (*bool, error) {
	if verifFaultPoint() {
		return nil, verifErrInjected
	}
	return r.Repository.DeleteObjectById(ctx, tx, id)
}
func (r *verifObjectRepo) FindObjectByBucketNameAndKey(ctx context.Context, tx *dbsql.Tx, b storage.BucketName, k storage.ObjectKey) (*objectrepo.Entity, error) {
	if verifFaultPoint() {
		return nil, verifErrInjected
	}
	return r.Repository.FindObjectByBucketNameAndKey(ctx, tx, b, k)
}

type verifPartRepo struct{ partrepo.Repository }

func (r *verifPartRepo) SavePart(ctx context.Context, tx *dbsql.Tx, e *partrepo.Entity) error {
	if verifFaultPoint() {
		return verifErrInjected
	}
	return r.Repository.SavePart(ctx, tx, e)
}
func (r *verifPartRepo) DeletePartsByObjectIdReturning(ctx context.Context, tx *dbsql.Tx, id ulid.ULID) ([]partrepo.Entity, error) {
	if verifFaultPoint() {
		return nil, verifErrInjected
	}
	return r.Repository.DeletePartsByObjectIdReturning(ctx, tx, id)
}

type verifTagRepo struct{ tagrepo.Repository }

func (r *verifTagRepo) SaveTag(ctx context.Context, tx *dbsql.Tx, e *tagrepo.Entity) error {
	if verifFaultPoint() {
		return verifErrInjected
	}
	return r.Repository.SaveTag(ctx, tx, e)
}
func (r *verifTagRepo) DeleteTagsByObjectId(ctx context.Context, tx *dbsql.Tx, id ulid.ULID) error {
	if verifFaultPoint() {
		return verifErrInjected
	}
	return r.Repository.DeleteTagsByObjectId(ctx, tx, id)
}

type verifUserMetaRepo struct{ usermetarepo.Repository }

func (r *verifUserMetaRepo) SaveUserMetadata(ctx context.Context, tx *dbsql.Tx, e *usermetarepo.Entity) error {
	if verifFaultPoint() {
		return verifErrInjected
	}
	return r.Repository.SaveUserMetadata(ctx, tx, e)
}

type verifBucketRepo struct{ bucketrepo.Repository }

func (r *verifBucketRepo) SaveBucket(ctx context.Context, tx *dbsql.Tx, e *bucketrepo.Entity) error {
	if verifFaultPoint() {
		return verifErrInjected
	}
	return r.Repository.SaveBucket(ctx, tx, e)
}
func (r *verifBucketRepo) DeleteBucketByName(ctx context.Context, tx *dbsql.Tx, b storage.BucketName) error {
	if verifFaultPoint() {
		return verifErrInjected
	}
	return r.Repository.DeleteBucketByName(ctx, tx, b)
}

// ---- part store double ----------------------------------------------------

type verifPart struct {
	id   partstore.PartId
	data []byte
}

type verifPartStore struct {
	parts []verifPart
}

func (s *verifPartStore) Start(ctx context.Context) error { return nil }
func (s *verifPartStore) Stop(ctx context.Context) error  { return nil }

func (s *verifPartStore) find(id partstore.PartId) int {
	for i := range s.parts {
		if s.parts[i].id.Equal(id) {
			return i
		}
	}
	return -1
}

func (s *verifPartStore) snapshot() []verifPart {
	return append([]verifPart(nil), s.parts...)
}

// verifCommitFault: one more fault point per part-store write - the database
// COMMIT of the transaction fails (the sql.Tx is ended by a late pre-commit
// hook, so Commit reports an error after the stores' pre-commit work).
func verifCommitFault(tx database.Tx) {
	if tx != nil && verifFaultPoint() {
		tx.OnPreCommit(func(context.Context) error {
			_ = tx.SqlTx().Rollback()
			return nil
		})
	}
}

func (s *verifPartStore) PutPart(ctx context.Context, tx database.Tx, partId partstore.PartId, reader io.Reader) error {
	if verifFaultPoint() {
		return verifErrInjected
	}
	verifCommitFault(tx)
	data, err := io.ReadAll(reader)
	if err != nil {
		return err
	}
	// the undo is per part (like the real stores' per-file rollback), so that
	// several rollback hooks of one transaction commute
	if i := s.find(partId); i >= 0 {
		old := s.parts[i].data
		tx.OnRollback(func(context.Context) error {
			if j := s.find(partId); j >= 0 {
				s.parts[j].data = old
			} else {
				s.parts = append(s.parts, verifPart{id: partId, data: old})
			}
			return nil
		})
		s.parts[i].data = data
		return nil
	}
	tx.OnRollback(func(context.Context) error { s.remove(partId); return nil })
	s.parts = append(s.parts, verifPart{id: partId, data: data})
	return nil
}

func (s *verifPartStore) remove(id partstore.PartId) {
	if i := s.find(id); i >= 0 {
		s.parts = append(append([]verifPart(nil), s.parts[:i]...), s.parts[i+1:]...)
	}
}

func (s *verifPartStore) GetPart(ctx context.Context, tx database.Tx, partId partstore.PartId) (io.ReadCloser, error) {
	if verifFaultPoint() {
		return nil, verifErrInjected
	}
	i := s.find(partId)
	if i < 0 {
		return nil, partstore.ErrPartNotFound
	}
	return io.NopCloser(bytes.NewReader(s.parts[i].data)), nil
}

func (s *verifPartStore) GetPartIds(ctx context.Context, tx database.Tx) ([]partstore.PartId, error) {
	ids := make([]partstore.PartId, 0, len(s.parts))
	for _, p := range s.parts {
		ids = append(ids, p.id)
	}
	return ids, nil
}

func (s *verifPartStore) DeletePart(ctx context.Context, tx database.Tx, partId partstore.PartId) error {
	if verifFaultPoint() {
		return verifErrInjected
	}
	verifCommitFault(tx)
	i := s.find(partId)
	if i < 0 {
		return nil
	}
	old := s.parts[i].data
	tx.OnRollback(func(context.Context) error {
		if s.find(partId) < 0 {
			s.parts = append(s.parts, verifPart{id: partId, data: old})
		}
		return nil
	})
	s.remove(partId)
	return nil
}

// ---- environment ----------------------------------------------------------

type verifEnv struct {
	db     database.Database
	ms     metadatastore.MetadataStore
	st     *metadataPartStorage
	def    *verifPartStore
	cold   *verifPartStore // named store "cold" (nil when not configured)
	bucket storage.BucketName
}

// verifNewEnv builds the storage. classToStore maps storage classes to the
// named store "cold"; nil means a single default store.
func verifNewEnv(classToStore map[string]string) *verifEnv {
	wrapped := &verifDBT{}
	if verifNative() {
		wrapped.native = verifNativeDB()
	}
	var db database.Database = wrapped
	b, err := repositoryfactory.NewBucketRepository(db)
	verifMust(err)
	o, err := repositoryfactory.NewObjectRepository(db)
	verifMust(err)
	p, err := repositoryfactory.NewPartRepository(db)
	verifMust(err)
	t, err := repositoryfactory.NewTagRepository(db)
	verifMust(err)
	u, err := repositoryfactory.NewUserMetadataRepository(db)
	verifMust(err)
	ms, err := sqlstore.New(db, &verifBucketRepo{b}, &verifObjectRepo{o}, &verifPartRepo{p}, &verifTagRepo{t}, &verifUserMetaRepo{u})
	verifMust(err)
	env := &verifEnv{db: db, ms: ms, def: &verifPartStore{}, bucket: storage.MustNewBucketName("bucket")}
	var extra map[string]partstore.PartStore
	if classToStore != nil {
		env.cold = &verifPartStore{}
		extra = map[string]partstore.PartStore{"cold": env.cold}
	}
	st, err := NewStorageWithNamedPartStores(db, ms, env.def, extra, classToStore)
	verifMust(err)
	env.st = st.(*metadataPartStorage)
	return env
}

// verifReopen builds a new storage instance over the same database, metadata
// store and part stores with another class-to-store mapping (a restart with a
// remapped configuration).
func verifReopen(e *verifEnv, classToStore map[string]string) *verifEnv {
	n := &verifEnv{db: e.db, ms: e.ms, def: e.def, cold: e.cold, bucket: e.bucket}
	extra := map[string]partstore.PartStore{}
	if e.cold != nil {
		extra["cold"] = e.cold
	}
	st, err := NewStorageWithNamedPartStores(e.db, e.ms, e.def, extra, classToStore)
	verifMust(err)
	n.st = st.(*metadataPartStorage)
	return n
}

func verifMust(err error) {
	if err != nil {
		panic(err)
	}
}

// ---- redirect targets -----------------------------------------------------

var verifUlidSeq uint64
var verifClockSeq int64

func verifStubUlidMake() ulid.ULID {
	verifUlidSeq++
	var id ulid.ULID
	id[5] = 1 // fixed time part
	id[14] = byte(verifUlidSeq >> 8)
	id[15] = byte(verifUlidSeq)
	return id
}

func verifStubNow() time.Time {
	verifClockSeq++
	return time.Unix(1700000000+verifClockSeq, 0).UTC()
}

func verifStubRandRead(b []byte) (int, error) { return len(b), nil }

// verifToken is an injective rendering of a body as a printable string.
func verifToken(kind string, data []byte) *string {
	const hexd = "0123456789abcdef"
	out := make([]byte, 0, len(kind)+2*len(data)+1)
	out = append(out, kind...)
	out = append(out, ':')
	for _, c := range data {
		out = append(out, hexd[c>>4], hexd[c&15])
	}
	s := string(out)
	return &s
}

// verifStubChecksums replaces checksumutils.CalculateChecksumsStreaming (six
// hash goroutines over assembly kernels): it hands the body to doRead and
// returns checksum strings that are injective in the body.
func verifStubChecksums(ctx context.Context, reader io.Reader, doRead func(reader io.Reader) error) (*int64, *checksumutils.ChecksumValues, error) {
	data, err := io.ReadAll(reader)
	if err != nil {
		return nil, nil, err
	}
	if err := doRead(bytes.NewReader(data)); err != nil {
		return nil, nil, err
	}
	n := int64(len(data))
	return &n, &checksumutils.ChecksumValues{
		ETag:              verifToken("etag", data),
		ChecksumCRC32:     verifToken("crc32", data),
		ChecksumCRC32C:    verifToken("crc32c", data),
		ChecksumCRC64NVME: verifToken("crc64", data),
		ChecksumSHA1:      verifToken("sha1", data),
		ChecksumSHA256:    verifToken("sha256", data),
	}, nil
}

// verifStubMultipartChecksums replaces checksumutils.CalculateMultipartChecksums
// (MD5 over decoded part ETags): the ETag is the concatenation of the part ETags.
func verifStubMultipartChecksums(parts []checksumutils.PartChecksums, checksumType string) (checksumutils.ChecksumValues, error) {
	e := "mp"
	for _, p := range parts {
		e += "|" + p.ETag
	}
	return checksumutils.ChecksumValues{ETag: &e}, nil
}

// ---- observation helpers --------------------------------------------------

// verifRead returns the whole content of bucket/key through GetObject, or the
// error GetObject returned.
func (e *verifEnv) read(key storage.ObjectKey) ([]byte, *storage.Object, error) {
	obj, readers, err := e.st.GetObject(verifCtx, e.bucket, key, nil, nil)
	if err != nil {
		return nil, nil, err
	}
	var out []byte
	for _, r := range readers {
		data, rerr := io.ReadAll(r)
		if rerr != nil {
			err = rerr
		}
		out = append(out, data...)
		r.Close()
	}
	return out, obj, err
}

func verifBytesEq(a, b []byte) bool {
	if len(a) != len(b) {
		return false
	}
	eq := true
	for i := range a {
		eq = verifAnd(eq, a[i] == b[i])
	}
	return eq
}
