package PKGNAME

// A database.Database for harnesses: under the symbolic executor BeginTx hands
// out a fresh *sql.Tx interpreted by sqlsym (with a snapshot for rollback);
// natively (replay) it delegates to a real SQLite database.

import (
	"context"
	dbsql "database/sql"

	"github.com/jdillenkofer/pithos/internal/storage/database"
)

var verifNativeDB func() database.Database

type verifDBT struct{ native database.Database }

func verifNewDB() *verifDBT {
	d := &verifDBT{}
	if verifNative() {
		d.native = verifNativeDB()
	}
	return d
}

func (d *verifDBT) BeginTx(ctx context.Context, opts *dbsql.TxOptions) (*database.TxController, error) {
	if tx, ok := database.TxControllerFromContext(ctx); ok && tx.DBHandle() == d {
		return tx.Child(), nil
	}
	if d.native != nil {
		tx, err := d.native.BeginTx(ctx, opts)
		if err != nil {
			return nil, err
		}
		return database.NewTxController(tx.SqlTx(), d, opts != nil && opts.ReadOnly), nil
	}
	tx := new(dbsql.Tx)
	verifSQLBegin(tx)
	return database.NewTxController(tx, d, opts != nil && opts.ReadOnly), nil
}
func (d *verifDBT) PingContext(ctx context.Context) error { return nil }
func (d *verifDBT) Close() error                          { return nil }
func (d *verifDBT) GetDatabaseType() database.DatabaseType {
	return database.DB_TYPE_SQLITE
}
