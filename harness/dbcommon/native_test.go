package PKGNAME

import (
	"os"
	"path/filepath"

	"github.com/jdillenkofer/pithos/internal/storage/database"
	"github.com/jdillenkofer/pithos/internal/storage/database/sqlite"
)

func init() {
	verifNativeDB = func() database.Database {
		dir, err := os.MkdirTemp("", "verif-db-")
		if err != nil {
			panic(err)
		}
		db, err := sqlite.OpenDatabase(filepath.Join(dir, "p.db"))
		if err != nil {
			panic(err)
		}
		return db
	}
}
