#!/bin/sh
# builds the symbolic executor offline from /verif/engine into /verif/bin/gosmt
set -e
cd "$(dirname "$0")/engine"
export PATH=/opt/veriftools/go1.27.0/bin:$PATH GOTOOLCHAIN=local GOFLAGS=-mod=mod GOPROXY=off GOSUMDB=off
mkdir -p ../bin
go build -o ../bin/gosmt ./cmd/gosmt
