#!/usr/bin/env python3
"""Writes seeded/<seed>/meta.json and seeded/README.md from notes.md and seeded/detection.json."""
import json, os, re, glob
root = os.path.dirname(os.path.dirname(os.path.abspath(__file__)))
det = json.load(open(os.path.join(root, 'seeded/detection.json'))) if os.path.exists(os.path.join(root, 'seeded/detection.json')) else {}
missed = json.load(open(os.path.join(root, 'seeded/missed_reasons.json'))) if os.path.exists(os.path.join(root, 'seeded/missed_reasons.json')) else {}
rows = []
for d in sorted(glob.glob(os.path.join(root, 'seeded/*/'))):
    s = os.path.basename(d.rstrip('/'))
    if not os.path.exists(os.path.join(d, 'patch.diff')):
        continue
    prop = s.split('-')[0]
    notes = open(os.path.join(d, 'notes.md')).read() if os.path.exists(os.path.join(d, 'notes.md')) else ''
    title = notes.splitlines()[0].lstrip('# ').strip() if notes else s
    m = re.search(r'##\s*What (?:manifests|it needs)[^\n]*\n(.*?)(?:\n## |\Z)', notes, re.S | re.I)
    needs = (m.group(1).strip() if m else '\n'.join(notes.splitlines()[1:12]).strip())[:1500]
    files = sorted(set(re.findall(r'^\+\+\+ b/(\S+)', open(os.path.join(d, 'patch.diff')).read(), re.M)))
    r = det.get(s)
    caught_by = []
    if isinstance(r, dict):
        caught_by = [c for c, v in r.items() if isinstance(v, dict) and v.get('exit') == 1 and v.get('violations', 0) > 0]
    meta = {
        'seed': s, 'property': prop, 'title': title, 'changed_files': files,
        'needs_to_manifest': needs,
        'origin': 'written by a sub-agent that was given only the property text and its own git worktree of /repo under /tmp (nothing from /verif)',
        'confirmation': 'confirmed in a scratch worktree by tools/confirm_seed.sh: go build ./... succeeds with the patch, the existing tests of the changed packages pass with the patch, the demonstration test (demo_test.go) passes without and fails with the patch',
        'checked_with': 'tools/seed_matrix.sh: git -C /repo apply patch.diff; ./check <property> quick (and the checks in also.txt); git -C /repo checkout -- .',
        'result': r if r is not None else 'not run yet',
        'caught_by': caught_by,
    }
    if not caught_by and s in missed:
        meta['why_missed'] = missed[s]
    json.dump(meta, open(os.path.join(d, 'meta.json'), 'w'), indent=1)
    rows.append((s, prop, title, caught_by, meta.get('why_missed', '')))
with open(os.path.join(root, 'seeded/README.md'), 'w') as f:
    f.write('# Seeded changes against the checks\n\nEach directory holds one change that breaks its property while compiling and passing the existing tests '
            '(patch.diff, demo_test.go, notes.md, meta.json). Apply with `git -C /repo apply <patch.diff>`, undo with `git -C /repo checkout -- .`. '
            'Regenerate this table with `tools/seed_matrix.sh && python3 tools/seed_meta.py`.\n\n| seed | property | change | caught by (quick tier) | if missed: why |\n|---|---|---|---|---|\n')
    for s, prop, title, cb, why in rows:
        f.write('| %s | %s | %s | %s | %s |\n' % (s, prop, title.replace('|', '/')[:110], ', '.join(cb) if cb else '**not caught**', why.replace('|', '/')))
    n = len(rows); c = sum(1 for r in rows if r[3])
    f.write('\n%d of %d seeded changes are caught by a registered quick check.\n' % (c, n))
print('seeds:', len(rows))
