#!/bin/sh
# usage: confirm_seed.sh <Cxx> <m1|m2> [<stored-as, default the same>] : confirms a sub-agent's mutation in a scratch worktree and stores it under /verif/seeded
p=$1; m=$2; as=${3:-$2}
export PATH=/opt/veriftools/go1.27.0/bin:$PATH GOTOOLCHAIN=local GOFLAGS=-mod=mod GOPROXY=off GOSUMDB=off
src=/tmp/wt-$p/_seed/$m
wt=/tmp/confirm-$p-$m
dir=$(head -8 $src/demo_test.go | grep -o 'internal/[a-zA-Z0-9_/]*' | head -1); dir=${dir%/}
cd /repo && git worktree add -q --detach $wt HEAD || exit 9
cd $wt
cp $src/demo_test.go $dir/zz_seed_demo_test.go
run=$(grep -o 'func Test[A-Za-z0-9_]*' $dir/zz_seed_demo_test.go | sed 's/func //' | paste -sd'|')
timeout 900 go test -vet=off -count=1 -short -run "^($run)\$" ./$dir/ > /tmp/confirm-$p-$m-clean.out 2>&1; clean=$?
git apply $src/patch.diff || { echo "patch failed"; cd /repo; git worktree remove --force $wt; exit 9; }
timeout 600 go build ./... > /tmp/confirm-$p-$m-build.out 2>&1; build=$?
timeout 900 go test -vet=off -count=1 -short -run "^($run)\$" ./$dir/ > /tmp/confirm-$p-$m-mut.out 2>&1; mut=$?
rm $dir/zz_seed_demo_test.go
pkgs=$(git diff --name-only | xargs -n1 dirname | sort -u | sed 's|^|./|' | tr '\n' ' ')
timeout 1500 go test -vet=off -count=1 $pkgs > /tmp/confirm-$p-$m-existing.out 2>&1; existing=$?
echo "$p $m: demo-clean=$clean build=$build demo-mutated=$mut existing-tests=$existing (pkgs: $pkgs)"
cd /repo; git worktree remove --force $wt
if [ $clean = 0 ] && [ $build = 0 ] && [ $mut != 0 ] && [ $existing = 0 ]; then
  d=/verif/seeded/$p-$as; mkdir -p $d; cp $src/patch.diff $src/demo_test.go $src/notes.md $d/
  echo confirmed > $d/.confirmed
fi
