#!/usr/bin/env python3
"""Regenerates /verif/MANIFEST.json from harness/*/spec.json and tools/manifest_meta.json."""
import json, os, glob
root = os.path.dirname(os.path.dirname(os.path.abspath(__file__)))
meta = json.load(open(os.path.join(root, 'tools/manifest_meta.json')))
props = [json.loads(l)['id'] for l in open(os.path.join(root, 'properties.jsonl'))]
checks, na, served = [], [], []
for pid in props:
    spec = os.path.join(root, 'harness', pid, 'spec.json')
    m = meta.get(pid, {})
    if os.path.exists(spec) and not m.get('not_applicable'):
        s = json.load(open(spec))
        served.append(pid)
        checks.append({
            'property_id': pid,
            'quick_cmd': './check %s quick' % pid,
            'thorough_cmd': './check %s thorough' % pid,
            'evidence_file': 'evidence/%s.json' % pid,
            'replay_cmd_template': './check %s --replay {path}' % pid,
            'engine': 'gosmt',
            'level_claimed': {'category': 'model_checking', 'text': m.get('level_text', ''), 'design_ref': 'DESIGN.md section 5 (%s)' % pid},
            'level_note': m.get('level_note', '; '.join(s.get('assumptions', []) + ['outside: ' + ', '.join(s.get('outside', []))])),
            'technique': m.get('technique', 'bounded symbolic execution of the Go SSA of the real functions, every assertion an SMT (z3) obligation; counterexamples replayed natively'),
        })
    else:
        na.append({'property_id': pid, 'reason': m.get('not_applicable', 'no check built yet for this property (work in progress)')})
man = {
    'version': 1,
    'setup_cmd': './setup.sh',
    'hooks': {'guard': 'verif', 'enable': 'none needed: harness files are injected with go/packages Overlay and go test -overlay; /repo carries no hook code', 'baseline_off_cmd': './tools/baseline.sh', 'source_commits': [], 'add_only': True},
    'engines': [{'name': 'gosmt', 'path': 'engine', 'serves_properties': served, 'kind_free_text': 'own Go SSA -> SMT-LIB2 bounded symbolic executor (golang.org/x/tools/go/ssa v0.50.0, z3 5.1.0 over pipes); harnesses are in-package Go functions injected by overlay; sat models are replayed with go test against the real build before a VIOLATION is printed'}],
    'checks': checks,
    'not_applicable': na,
    'notes': 'exit codes of ./check: 0 held (known findings only), 1 reproduced violation, 2 the check itself is broken (unsupported construct, unwinding bound hit, inconclusive solver answer, vacuous harness, counterexample that does not replay). Fixed defects are recorded in known_findings.jsonl.',
}
json.dump(man, open(os.path.join(root, 'MANIFEST.json'), 'w'), indent=1)
print('checks:', len(checks), 'not_applicable:', len(na))
