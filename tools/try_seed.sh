#!/bin/sh
# usage: tools/try_seed.sh <Cxx> <patch.diff> [extra check args]  -- applies the patch to /repo, runs the quick check, reverts
id="$1"; patch="$2"; shift 2
cd /repo || exit 9
git apply --check "$patch" || { echo "patch does not apply"; exit 9; }
git apply "$patch"
cd /verif
timeout 900 ./check "$id" -no-evidence "$@" > /tmp/seed-run.out 2>&1
rc=$?
cd /repo && git checkout -- . 
echo "exit=$rc"; grep -c "^VIOLATION" /tmp/seed-run.out; grep -m3 "violated:" /tmp/seed-run.out | cut -c1-220; grep -m3 "BROKEN" /tmp/seed-run.out | cut -c1-300
