#!/usr/bin/env python3
# Replaces section 0 of DESIGN.md with tools/design_status.md.
import re
d=open('/verif/DESIGN.md').read()
s=open('/verif/tools/design_status.md').read().rstrip()+"\n\n"
a=d.index('## 0. Status')
b=d.index('\n## 1.',a)+1
open('/verif/DESIGN.md','w').write(d[:a]+s+d[b:])
print('section 0:',len(s.splitlines()),'lines')
