#!/opt/veriftools/pyvenv/bin/python3
import json, jsonschema, glob, sys
jsonschema.validate(json.load(open('/verif/MANIFEST.json')), json.load(open('/root/.vp/MANIFEST.schema.json')))
print('MANIFEST ok')
es = json.load(open('/root/.vp/EVIDENCE.schema.json'))
for f in sorted(glob.glob('/verif/evidence/*.json')):
    try:
        jsonschema.validate(json.load(open(f)), es); print('ok', f)
    except Exception as e:
        print('INVALID', f, str(e)[:300]); 
