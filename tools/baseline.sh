#!/bin/sh
# Runs the repository's own test suite (hooks guard off: there are no hook commits) and
# prints the number of passing tests; compare with /root/.vp/BASELINE.json stable_pass.
export PATH=/opt/veriftools/go1.27.0/bin:$PATH GOTOOLCHAIN=local GOFLAGS=-mod=mod GOPROXY=off GOSUMDB=off
cd /repo && go test -json -vet=off -count=1 -timeout 25m ./... > /tmp/verif-baseline.json 2>/tmp/verif-baseline.err
python3 - <<'PY'
import json
stable=set(json.load(open('/root/.vp/BASELINE.json'))['stable_pass'])
res={}
for l in open('/tmp/verif-baseline.json'):
    try: e=json.loads(l)
    except Exception: continue
    if e.get('Test') and e.get('Action') in ('pass','fail','skip'):
        res[e['Package']+'::'+e['Test']]=e['Action']
missing=[t for t in stable if res.get(t)!='pass']
print('stable tests:',len(stable),'passing now:',len(stable)-len(missing))
for t in missing[:40]: print('NOT PASSING:',t,res.get(t))
import sys; sys.exit(1 if missing else 0)
PY
