#!/bin/bash
# Runs the quick (or given) tier of every registered check, one after the other;
# prints one line per check with its exit code and wall time.
# usage: run_all.sh [quick|thorough] [timeout-seconds] [extra check flags...]
cd "$(dirname "$0")/.."
tier=${1:-quick}
to=${2:-3000}
shift; shift
mkdir -p out
for id in $(python3 -c "import json; print(' '.join(c['property_id'] for c in json.load(open('MANIFEST.json'))['checks']))"); do
  s=$(date +%s)
  timeout $to ./check $id $tier "$@" > out/all-$id-$tier.log 2>&1
  rc=$?
  echo "$id $tier exit=$rc $(( $(date +%s) - s ))s $(grep -c '^VIOLATION' out/all-$id-$tier.log) violations $(grep -c '^KNOWN-FINDING' out/all-$id-$tier.log) known $(grep -c '^BROKEN' out/all-$id-$tier.log) broken"
done
