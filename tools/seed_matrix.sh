#!/bin/bash
# Applies every stored seed to /repo in turn (git apply / git checkout -- .), runs the
# quick check of its property (plus extra checks listed in seeded/<seed>/also.txt),
# and records the outcome in seeded/detection.json. Never commits anything in /repo.
# Must not run concurrently with other checks (it changes /repo's working tree).
cd "$(dirname "$0")/.."
out=seeded/detection.json
echo "{" > $out.tmp
first=1
for d in seeded/*/; do
  s=$(basename $d); [ -f $d/patch.diff ] || continue
  only=${1:-}; if [ -n "$only" ] && [ "$only" != "$s" ]; then continue; fi
  prop=${s%%-*}
  checks="$prop"; [ -f $d/also.txt ] && checks="$checks $(cat $d/also.txt)"
  if ! git -C /repo apply --check $PWD/$d/patch.diff 2>/dev/null; then res="\"patch-does-not-apply\""; else
    git -C /repo apply $PWD/$d/patch.diff
    res=""
    for c in $checks; do
      [ -f harness/$c/spec.json ] || { res="$res\"$c\":\"no-check\","; continue; }
      timeout 1500 ./check $c quick -no-evidence > out/seed-$s-$c.log 2>&1; rc=$?
      v=$(grep -c '^VIOLATION' out/seed-$s-$c.log)
      res="$res\"$c\":{\"exit\":$rc,\"violations\":$v},"
    done
    git -C /repo checkout -- .
    res="{${res%,}}"
  fi
  [ $first = 1 ] || echo "," >> $out.tmp; first=0
  echo "\"$s\": $res" >> $out.tmp
  echo "$s $res"
done
echo "}" >> $out.tmp
if [ -z "${1:-}" ]; then mv $out.tmp $out; else rm $out.tmp; fi
