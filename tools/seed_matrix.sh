#!/bin/bash
# Applies stored seeds to /repo in turn (git apply / git checkout -- .), runs the
# quick check of each seed's property (plus extra checks listed in
# seeded/<seed>/also.txt), and records the outcome in seeded/detection.json
# (entries of seeds not run are kept). Never commits anything in /repo.
# Must not run concurrently with other checks (it changes /repo's working tree).
# usage: seed_matrix.sh [seed ...]      (default: every stored seed)
cd "$(dirname "$0")/.."
out=seeded/detection.json
[ -f $out ] || echo "{}" > $out
seeds="$*"
[ -n "$seeds" ] || seeds=$(for d in seeded/*/; do [ -f $d/patch.diff ] && basename $d; done)
for s in $seeds; do
  d=seeded/$s; [ -f $d/patch.diff ] || { echo "$s: no patch"; continue; }
  prop=${s%%-*}
  checks="$prop"; [ -f $d/also.txt ] && checks="$checks $(cat $d/also.txt)"
  if ! git -C /repo apply --check $PWD/$d/patch.diff 2>/dev/null; then res="\"patch-does-not-apply\""; else
    git -C /repo apply $PWD/$d/patch.diff
    res=""
    for c in $checks; do
      [ -f harness/$c/spec.json ] || { res="$res\"$c\":\"no-check\","; continue; }
      timeout 1500 ./check $c quick -no-evidence > out/seed-$s-$c.log 2>&1; rc=$?
      v=$(grep -c '^VIOLATION' out/seed-$s-$c.log)
      res="$res\"$c\":{\"exit\":$rc,\"violations\":$v},"
    done
    git -C /repo checkout -- .
    res="{${res%,}}"
  fi
  python3 - "$out" "$s" "$res" <<'PY'
import json,sys
p,s,res=sys.argv[1:4]
d=json.load(open(p)); d[s]=json.loads(res)
json.dump(dict(sorted(d.items())),open(p,'w'),indent=1)
PY
  echo "$s $res"
done
