package term

import (
	"fmt"
	"math"
)

// IEEE-754 binary64 support. A float64 is carried as the 64-bit vector of its
// bit pattern, so it lives in the ordinary term graph (stores, ite, equality of
// bit patterns); only the arithmetic and the ordered comparisons are
// floating-point operations, printed with SMT-LIB's FloatingPoint theory
// (round-to-nearest-even, which is what Go's float64 arithmetic uses) and z3's
// fp.to_ieee_bv. NaN payloads are not modelled (any NaN pattern may come back).

func fpEval(op Op, a, b uint64) uint64 {
	x, y := math.Float64frombits(a), math.Float64frombits(b)
	b2u := func(v bool) uint64 {
		if v {
			return 1
		}
		return 0
	}
	switch op {
	case OpFMul:
		return math.Float64bits(x * y)
	case OpFAdd:
		return math.Float64bits(x + y)
	case OpFSub:
		return math.Float64bits(x - y)
	case OpFDiv:
		return math.Float64bits(x / y)
	case OpFLt:
		return b2u(x < y)
	case OpFLe:
		return b2u(x <= y)
	case OpFEq:
		return b2u(x == y)
	case OpFFromS:
		return math.Float64bits(float64(int64(a)))
	case OpFToS:
		return FToSConst(x)
	}
	panic("fpEval")
}

// FToSConst is int64(x) with the amd64 result for NaN and out-of-range values.
func FToSConst(x float64) uint64 {
	if x != x || x >= 9223372036854775808.0 || x < -9223372036854775808.0 {
		return 1 << 63
	}
	return uint64(int64(x))
}

func (f *Factory) FBin(op Op, a, b *Term) *Term {
	if a.W != 64 || b.W != 64 {
		panic("term: float operands must be 64-bit patterns")
	}
	w := 64
	if op == OpFLt || op == OpFLe || op == OpFEq {
		w = 0
	}
	if a.Op == OpConst && b.Op == OpConst {
		return f.Const(w, fpEval(op, a.Val, b.Val))
	}
	return f.mk(op, w, 0, "", a, b)
}

func (f *Factory) FFromS(a *Term) *Term {
	if a.W != 64 {
		panic("term: FFromS wants a 64-bit integer")
	}
	if a.Op == OpConst {
		return f.Const(64, fpEval(OpFFromS, a.Val, 0))
	}
	return f.mk(OpFFromS, 64, 0, "", a)
}

func (f *Factory) FToS(a *Term) *Term {
	if a.W != 64 {
		panic("term: FToS wants a 64-bit pattern")
	}
	if a.Op == OpConst {
		return f.Const(64, fpEval(OpFToS, a.Val, 0))
	}
	return f.mk(OpFToS, 64, 0, "", a)
}

const fpSort = "(_ to_fp 11 53)"

func fpSMT(t *Term) string {
	fp := func(x *Term) string { return "(" + fpSort + " " + x.ref() + ")" }
	switch t.Op {
	case OpFMul, OpFAdd, OpFSub, OpFDiv:
		name := map[Op]string{OpFMul: "fp.mul", OpFAdd: "fp.add", OpFSub: "fp.sub", OpFDiv: "fp.div"}[t.Op]
		return fmt.Sprintf("(fp.to_ieee_bv (%s RNE %s %s))", name, fp(t.Args[0]), fp(t.Args[1]))
	case OpFLt:
		return fmt.Sprintf("(fp.lt %s %s)", fp(t.Args[0]), fp(t.Args[1]))
	case OpFLe:
		return fmt.Sprintf("(fp.leq %s %s)", fp(t.Args[0]), fp(t.Args[1]))
	case OpFEq:
		return fmt.Sprintf("(fp.eq %s %s)", fp(t.Args[0]), fp(t.Args[1]))
	case OpFFromS:
		return fmt.Sprintf("(fp.to_ieee_bv (%s RNE %s))", fpSort, t.Args[0].ref())
	case OpFToS:
		x := fp(t.Args[0])
		// 2^63 = exponent 1086, -2^63 likewise with the sign bit
		return fmt.Sprintf("(ite (and (fp.lt %s (fp #b0 #b10000111110 #x0000000000000)) (fp.geq %s (fp #b1 #b10000111110 #x0000000000000))) ((_ fp.to_sbv 64) RTZ %s) #x8000000000000000)", x, x, x)
	}
	panic("fpSMT")
}
