// Package term implements hash-consed SMT terms (Bool and fixed-width
// bit-vectors up to 64 bits, plus mathematical Int) with an eager simplifier,
// so that concrete computations never reach the solver, and an SMT-LIB2 printer
// that emits every shared node once as a zero-ary define-fun.
package term

import (
	"fmt"
	"math/bits"
	"strings"
)

var _ = bits.Len64

type Op uint8

const (
	OpConst Op = iota
	OpVar
	OpNot
	OpAnd
	OpOr
	OpEq
	OpIte
	OpBVNot
	OpBVNeg
	OpBVAnd
	OpBVOr
	OpBVXor
	OpBVAdd
	OpBVSub
	OpBVMul
	OpBVUDiv
	OpBVURem
	OpBVSDiv
	OpBVSRem
	OpBVShl
	OpBVLshr
	OpBVAshr
	OpUlt
	OpUle
	OpSlt
	OpSle
	OpConcat
	OpExtract // Val = hi<<8 | lo
	OpZext
	OpSext
	// mathematical integers (W == IntW)
	OpIAdd
	OpISub
	OpIMul
	OpIDiv // SMT div (floor for positive divisor); callers handle Go truncation
	OpIMod
	OpILt
	OpILe
	OpINeg
	OpUBV2Int
	OpSBV2Int
	// IEEE-754 binary64 carried as its 64 bit pattern (W == 64); see fp.go
	OpFMul
	OpFAdd
	OpFSub
	OpFDiv
	OpFLt // Bool
	OpFLe // Bool
	OpFEq // Bool (IEEE equality: NaN != NaN, +0 == -0)
	OpFFromS // signed 64-bit integer -> float64 bits (round to nearest even)
	OpFToS   // float64 bits -> signed 64-bit integer, truncating; out of range / NaN = 0x8000000000000000 (amd64 CVTTSD2SI)
)

var opNames = map[Op]string{
	OpNot: "not", OpAnd: "and", OpOr: "or", OpEq: "=", OpIte: "ite",
	OpBVNot: "bvnot", OpBVNeg: "bvneg", OpBVAnd: "bvand", OpBVOr: "bvor", OpBVXor: "bvxor",
	OpBVAdd: "bvadd", OpBVSub: "bvsub", OpBVMul: "bvmul", OpBVUDiv: "bvudiv", OpBVURem: "bvurem",
	OpBVSDiv: "bvsdiv", OpBVSRem: "bvsrem", OpBVShl: "bvshl", OpBVLshr: "bvlshr", OpBVAshr: "bvashr",
	OpUlt: "bvult", OpUle: "bvule", OpSlt: "bvslt", OpSle: "bvsle", OpConcat: "concat",
	OpIAdd: "+", OpISub: "-", OpIMul: "*", OpIDiv: "div", OpIMod: "mod", OpILt: "<", OpILe: "<=", OpINeg: "-",
	OpUBV2Int: "ubv_to_int", OpSBV2Int: "sbv_to_int",
	OpFMul: "f64.mul", OpFAdd: "f64.add", OpFSub: "f64.sub", OpFDiv: "f64.div", OpFLt: "f64.lt", OpFLe: "f64.le", OpFEq: "f64.eq",
	OpFFromS: "f64.from_s64", OpFToS: "f64.to_s64",
}

// Width conventions: 0 = Bool, 1..64 = bit-vector, IntW = mathematical Int.
const IntW = -1

type Term struct {
	ID    int
	Op    Op
	W     int
	Args  []*Term
	Val   uint64 // constant value (masked; for Int: two's complement int64), or extract hi/lo
	Name  string // variable name
	emit  int    // emission epoch
	emit2 int    // emission epoch of stand-alone scripts
	lin   *linForm
}

func (t *Term) IsConst() bool { return t.Op == OpConst }
func (t *Term) IsBool() bool  { return t.W == 0 }

// ConstBool returns the value of a Bool constant.
func (t *Term) ConstBool() (bool, bool) {
	if t.Op == OpConst && t.W == 0 {
		return t.Val != 0, true
	}
	return false, false
}

func (t *Term) IsTrue() bool  { return t.Op == OpConst && t.W == 0 && t.Val != 0 }
func (t *Term) IsFalse() bool { return t.Op == OpConst && t.W == 0 && t.Val == 0 }

// Signed returns the constant interpreted as a signed W-bit integer.
func (t *Term) Signed() int64 {
	if t.W == IntW {
		return int64(t.Val)
	}
	return sext64(t.Val, t.W)
}

func sext64(v uint64, w int) int64 {
	if w >= 64 || w <= 0 {
		return int64(v)
	}
	sh := uint(64 - w)
	return int64(v<<sh) >> sh
}

func mask(w int) uint64 {
	if w >= 64 {
		return ^uint64(0)
	}
	return (uint64(1) << uint(w)) - 1
}

type key struct {
	op         Op
	w          int
	val        uint64
	name       string
	a0, a1, a2 int
	n          int
}

type Factory struct {
	tab    map[key]*Term
	nextID int
	True   *Term
	False  *Term
	epoch  int
	epoch2 int
	fresh  bool
	bytes  [256]*Term
	Vars   map[string]*Term
}

func NewFactory() *Factory {
	f := &Factory{tab: map[key]*Term{}, Vars: map[string]*Term{}}
	f.True = f.mk(OpConst, 0, 1, "")
	f.False = f.mk(OpConst, 0, 0, "")
	for i := range f.bytes {
		f.bytes[i] = f.mk(OpConst, 8, uint64(i), "")
	}
	return f
}

func (f *Factory) NumTerms() int { return f.nextID }

func (f *Factory) mk(op Op, w int, val uint64, name string, args ...*Term) *Term {
	k := key{op: op, w: w, val: val, name: name, n: len(args), a0: -1, a1: -1, a2: -1}
	if len(args) > 3 {
		panic("term: too many args")
	}
	if len(args) > 0 {
		k.a0 = args[0].ID
	}
	if len(args) > 1 {
		k.a1 = args[1].ID
	}
	if len(args) > 2 {
		k.a2 = args[2].ID
	}
	if t, ok := f.tab[k]; ok {
		return t
	}
	t := &Term{ID: f.nextID, Op: op, W: w, Val: val, Name: name}
	if len(args) > 0 {
		t.Args = append([]*Term(nil), args...)
	}
	f.nextID++
	f.tab[k] = t
	return t
}

func (f *Factory) Bool(b bool) *Term {
	if b {
		return f.True
	}
	return f.False
}

func (f *Factory) Const(w int, v uint64) *Term {
	if w == 0 {
		return f.Bool(v != 0)
	}
	if w == IntW {
		return f.mk(OpConst, IntW, v, "")
	}
	v &= mask(w)
	if w == 8 {
		return f.bytes[v]
	}
	return f.mk(OpConst, w, v, "")
}

func (f *Factory) Byte(b byte) *Term { return f.bytes[b] }

func (f *Factory) Var(name string, w int) *Term {
	t := f.mk(OpVar, w, 0, name)
	f.Vars[name] = t
	return t
}

// ---------- Boolean ----------

func (f *Factory) Not(a *Term) *Term {
	if a.W != 0 {
		panic("Not: non-bool")
	}
	if a.Op == OpConst {
		return f.Bool(a.Val == 0)
	}
	if a.Op == OpNot {
		return a.Args[0]
	}
	return f.mk(OpNot, 0, 0, "", a)
}

func (f *Factory) And(a, b *Term) *Term {
	if a.IsFalse() || b.IsFalse() {
		return f.False
	}
	if a.IsTrue() {
		return b
	}
	if b.IsTrue() {
		return a
	}
	if a == b {
		return a
	}
	if (a.Op == OpNot && a.Args[0] == b) || (b.Op == OpNot && b.Args[0] == a) {
		return f.False
	}
	if a.ID > b.ID {
		a, b = b, a
	}
	return f.mk(OpAnd, 0, 0, "", a, b)
}

func (f *Factory) Or(a, b *Term) *Term {
	if a.IsTrue() || b.IsTrue() {
		return f.True
	}
	if a.IsFalse() {
		return b
	}
	if b.IsFalse() {
		return a
	}
	if a == b {
		return a
	}
	if (a.Op == OpNot && a.Args[0] == b) || (b.Op == OpNot && b.Args[0] == a) {
		return f.True
	}
	if a.ID > b.ID {
		a, b = b, a
	}
	return f.mk(OpOr, 0, 0, "", a, b)
}

func (f *Factory) Implies(a, b *Term) *Term { return f.Or(f.Not(a), b) }

func (f *Factory) AndN(ts ...*Term) *Term {
	r := f.True
	for _, t := range ts {
		r = f.And(r, t)
	}
	return r
}

func (f *Factory) OrN(ts ...*Term) *Term {
	r := f.False
	for _, t := range ts {
		r = f.Or(r, t)
	}
	return r
}

func (f *Factory) Eq(a, b *Term) *Term {
	if a.W != b.W {
		panic(fmt.Sprintf("Eq: width mismatch %d vs %d", a.W, b.W))
	}
	if a == b {
		return f.True
	}
	if a.Op == OpConst && b.Op == OpConst {
		return f.Bool(a.Val == b.Val)
	}
	if a.W == 0 {
		if a.Op == OpConst {
			a, b = b, a
		}
		if b.IsTrue() {
			return a
		}
		if b.IsFalse() {
			return f.Not(a)
		}
	}
	// eq(ite(c,k1,k2), k) with constants
	if b.Op == OpConst && a.Op == OpIte && a.Args[1].Op == OpConst && a.Args[2].Op == OpConst {
		return f.eqIteConst(a, b)
	}
	if a.Op == OpConst && b.Op == OpIte && b.Args[1].Op == OpConst && b.Args[2].Op == OpConst {
		return f.eqIteConst(b, a)
	}
	// eq(affine form living in a single bit position, const) -> 1-bit equality
	if b.Op == OpConst && a.lin != nil && a.W > 1 {
		m := a.lin.c
		for _, at := range a.lin.a {
			m |= at.k
		}
		if m != 0 && m&(m-1) == 0 {
			p := bits.TrailingZeros64(m)
			if b.Val&^m != 0 {
				return f.False
			}
			return f.Eq(f.Extract(a, p, p), f.Const(1, b.Val>>uint(p)))
		}
	}
	if a.Op == OpConst && b.lin != nil && b.W > 1 {
		return f.Eq(b, a)
	}
	// eq(zext(x), const)
	if b.Op == OpConst && a.Op == OpZext {
		x := a.Args[0]
		if b.Val&^mask(x.W) != 0 {
			return f.False
		}
		return f.Eq(x, f.Const(x.W, b.Val))
	}
	if a.Op == OpConst && b.Op == OpZext {
		return f.Eq(b, a)
	}
	if a.ID > b.ID {
		a, b = b, a
	}
	return f.mk(OpEq, 0, 0, "", a, b)
}

func (f *Factory) eqIteConst(ite, k *Term) *Term {
	c, k1, k2 := ite.Args[0], ite.Args[1], ite.Args[2]
	e1, e2 := k1.Val == k.Val, k2.Val == k.Val
	switch {
	case e1 && e2:
		return f.True
	case e1:
		return c
	case e2:
		return f.Not(c)
	}
	return f.False
}

func (f *Factory) Ite(c, a, b *Term) *Term {
	if c.W != 0 {
		panic("Ite: non-bool cond")
	}
	if a.W != b.W {
		panic(fmt.Sprintf("Ite: width mismatch %d vs %d", a.W, b.W))
	}
	if c.IsTrue() {
		return a
	}
	if c.IsFalse() {
		return b
	}
	if a == b {
		return a
	}
	if a.W == 0 {
		if a.IsTrue() && b.IsFalse() {
			return c
		}
		if a.IsFalse() && b.IsTrue() {
			return f.Not(c)
		}
		if a.IsTrue() {
			return f.Or(c, b)
		}
		if a.IsFalse() {
			return f.And(f.Not(c), b)
		}
		if b.IsTrue() {
			return f.Or(f.Not(c), a)
		}
		if b.IsFalse() {
			return f.And(c, a)
		}
	}
	if c.Op == OpNot {
		return f.Ite(c.Args[0], b, a)
	}
	// ite(c, k1, k2) on constants -> k2 ^ ((k1^k2) & mask(c)) when c is a single bit test
	if a.W > 1 && a.Op == OpConst && b.Op == OpConst {
		if bit, ok := f.asBit(c); ok {
			return f.BVXor(f.BVAnd(f.Sext(bit, a.W), f.Const(a.W, a.Val^b.Val)), b)
		}
	}
	// ite(c, x^k, x) -> x ^ (k & mask(c)) : keeps GF(2) terms linear for the solver
	if a.W > 0 {
		if a.Op == OpBVXor {
			if a.Args[0] == b {
				return f.BVXor(b, f.BVAnd(a.Args[1], f.maskOf(c, a.W)))
			}
			if a.Args[1] == b {
				return f.BVXor(b, f.BVAnd(a.Args[0], f.maskOf(c, a.W)))
			}
		}
		if b.Op == OpBVXor {
			if b.Args[0] == a {
				return f.BVXor(a, f.BVAnd(b.Args[1], f.maskOf(f.Not(c), a.W)))
			}
			if b.Args[1] == a {
				return f.BVXor(a, f.BVAnd(b.Args[0], f.maskOf(f.Not(c), a.W)))
			}
		}
	}
	return f.mk(OpIte, a.W, 0, "", c, a, b)
}

// maskOf returns a W-bit all-ones word if c else zero.
func (f *Factory) maskOf(c *Term, w int) *Term {
	// c of the form extract-bit == 1 gives sign-extension of that bit
	if bit, ok := f.asBit(c); ok {
		return f.Sext(bit, w)
	}
	return f.mk(OpIte, w, 0, "", c, f.Const(w, mask(w)), f.Const(w, 0))
}

// asBit recognises a Bool that is (1-bit term == 1) or its negation of == 0.
func (f *Factory) asBit(c *Term) (*Term, bool) {
	if c.Op == OpEq {
		a, b := c.Args[0], c.Args[1]
		if a.W == 1 {
			if b.Op == OpConst && b.Val == 1 {
				return a, true
			}
			if a.Op == OpConst && a.Val == 1 {
				return b, true
			}
			if b.Op == OpConst && b.Val == 0 {
				return f.BVNot(a), true
			}
			if a.Op == OpConst && a.Val == 0 {
				return f.BVNot(b), true
			}
		}
	}
	if c.Op == OpNot {
		if bt, ok := f.asBit(c.Args[0]); ok {
			return f.BVNot(bt), true
		}
	}
	return nil, false
}

// ---------- Bit-vectors ----------

func (f *Factory) chk2(a, b *Term, what string) {
	if a.W != b.W || a.W <= 0 {
		panic(fmt.Sprintf("%s: bad widths %d %d", what, a.W, b.W))
	}
}

func (f *Factory) BVNot(a *Term) *Term {
	if a.Op == OpConst {
		return f.Const(a.W, ^a.Val)
	}
	if a.Op == OpBVNot {
		return a.Args[0]
	}
	if r := f.tryLinNot(a); r != nil {
		return r
	}
	return f.mk(OpBVNot, a.W, 0, "", a)
}

func (f *Factory) BVNeg(a *Term) *Term {
	if a.Op == OpConst {
		return f.Const(a.W, -a.Val)
	}
	return f.mk(OpBVNeg, a.W, 0, "", a)
}

func (f *Factory) comm(op Op, a, b *Term) *Term {
	if a.Op == OpConst && b.Op != OpConst {
		a, b = b, a
	} else if a.Op != OpConst && b.Op != OpConst && a.ID > b.ID {
		a, b = b, a
	}
	return f.mk(op, a.W, 0, "", a, b)
}

func (f *Factory) BVAnd(a, b *Term) *Term {
	f.chk2(a, b, "bvand")
	if a.Op == OpConst && b.Op == OpConst {
		return f.Const(a.W, a.Val&b.Val)
	}
	if a.Op == OpConst {
		a, b = b, a
	}
	if b.Op == OpConst {
		if b.Val == 0 {
			return b
		}
		if b.Val == mask(a.W) {
			return a
		}
		if r := f.tryLinAndConst(a, b.Val); r != nil {
			return r
		}
		// x & (2^k - 1) -> zext(extract(k-1,0,x))
		if b.Val&(b.Val+1) == 0 {
			k := bits.Len64(b.Val)
			return f.Zext(f.Extract(a, k-1, 0), a.W)
		}
		// single bit masks: x & (1<<k) -> concat form keeps structure regular
		if a.Op == OpBVAnd && a.Args[1].Op == OpConst {
			return f.BVAnd(a.Args[0], f.Const(a.W, a.Args[1].Val&b.Val))
		}
	}
	if a == b {
		return a
	}
	return f.comm(OpBVAnd, a, b)
}

func (f *Factory) BVOr(a, b *Term) *Term {
	f.chk2(a, b, "bvor")
	if a.Op == OpConst && b.Op == OpConst {
		return f.Const(a.W, a.Val|b.Val)
	}
	if a.Op == OpConst {
		a, b = b, a
	}
	if b.Op == OpConst {
		if b.Val == 0 {
			return a
		}
		if b.Val == mask(a.W) {
			return b
		}
	}
	if a == b {
		return a
	}
	return f.comm(OpBVOr, a, b)
}

func (f *Factory) BVXor(a, b *Term) *Term {
	f.chk2(a, b, "bvxor")
	if a.Op == OpConst && b.Op == OpConst {
		return f.Const(a.W, a.Val^b.Val)
	}
	if a.Op == OpConst {
		a, b = b, a
	}
	if b.Op == OpConst {
		if b.Val == 0 {
			return a
		}
		if b.Val == mask(a.W) {
			return f.BVNot(a)
		}
		if a.Op == OpBVXor && a.Args[1].Op == OpConst {
			return f.BVXor(a.Args[0], f.Const(a.W, a.Args[1].Val^b.Val))
		}
	}
	if a == b {
		return f.Const(a.W, 0)
	}
	if r := f.tryLinXor(a, b); r != nil {
		return r
	}
	return f.comm(OpBVXor, a, b)
}

func (f *Factory) BVAdd(a, b *Term) *Term {
	f.chk2(a, b, "bvadd")
	if a.Op == OpConst && b.Op == OpConst {
		return f.Const(a.W, a.Val+b.Val)
	}
	if a.Op == OpConst {
		a, b = b, a
	}
	if b.Op == OpConst {
		if b.Val == 0 {
			return a
		}
		if a.Op == OpBVAdd && a.Args[1].Op == OpConst {
			return f.BVAdd(a.Args[0], f.Const(a.W, a.Args[1].Val+b.Val))
		}
	}
	return f.comm(OpBVAdd, a, b)
}

func (f *Factory) BVSub(a, b *Term) *Term {
	f.chk2(a, b, "bvsub")
	if a.Op == OpConst && b.Op == OpConst {
		return f.Const(a.W, a.Val-b.Val)
	}
	if b.Op == OpConst {
		return f.BVAdd(a, f.Const(a.W, -b.Val))
	}
	if a == b {
		return f.Const(a.W, 0)
	}
	return f.mk(OpBVSub, a.W, 0, "", a, b)
}

func (f *Factory) BVMul(a, b *Term) *Term {
	f.chk2(a, b, "bvmul")
	if a.Op == OpConst && b.Op == OpConst {
		return f.Const(a.W, a.Val*b.Val)
	}
	if a.Op == OpConst {
		a, b = b, a
	}
	if b.Op == OpConst {
		if b.Val == 0 {
			return b
		}
		if b.Val == 1 {
			return a
		}
		if b.Val&(b.Val-1) == 0 {
			return f.BVShl(a, f.Const(a.W, uint64(bits.TrailingZeros64(b.Val))))
		}
	}
	return f.comm(OpBVMul, a, b)
}

func (f *Factory) BVUDiv(a, b *Term) *Term {
	f.chk2(a, b, "bvudiv")
	if a.Op == OpConst && b.Op == OpConst && b.Val != 0 {
		return f.Const(a.W, a.Val/b.Val)
	}
	if b.Op == OpConst {
		if b.Val == 1 {
			return a
		}
		if b.Val != 0 && b.Val&(b.Val-1) == 0 {
			return f.BVLshr(a, f.Const(a.W, uint64(bits.TrailingZeros64(b.Val))))
		}
	}
	return f.mk(OpBVUDiv, a.W, 0, "", a, b)
}

func (f *Factory) BVURem(a, b *Term) *Term {
	f.chk2(a, b, "bvurem")
	if a.Op == OpConst && b.Op == OpConst && b.Val != 0 {
		return f.Const(a.W, a.Val%b.Val)
	}
	if b.Op == OpConst && b.Val != 0 && b.Val&(b.Val-1) == 0 {
		return f.BVAnd(a, f.Const(a.W, b.Val-1))
	}
	return f.mk(OpBVURem, a.W, 0, "", a, b)
}

func (f *Factory) BVSDiv(a, b *Term) *Term {
	f.chk2(a, b, "bvsdiv")
	if a.Op == OpConst && b.Op == OpConst && b.Val != 0 {
		x, y := sext64(a.Val, a.W), sext64(b.Val, b.W)
		if y == -1 {
			return f.Const(a.W, uint64(-x))
		}
		return f.Const(a.W, uint64(x/y))
	}
	if b.Op == OpConst && b.Val == 1 {
		return a
	}
	return f.mk(OpBVSDiv, a.W, 0, "", a, b)
}

func (f *Factory) BVSRem(a, b *Term) *Term {
	f.chk2(a, b, "bvsrem")
	if a.Op == OpConst && b.Op == OpConst && b.Val != 0 {
		x, y := sext64(a.Val, a.W), sext64(b.Val, b.W)
		if y == -1 {
			return f.Const(a.W, 0)
		}
		return f.Const(a.W, uint64(x%y))
	}
	return f.mk(OpBVSRem, a.W, 0, "", a, b)
}

func (f *Factory) BVShl(a, b *Term) *Term {
	f.chk2(a, b, "bvshl")
	if b.Op == OpConst {
		if b.Val == 0 {
			return a
		}
		if b.Val >= uint64(a.W) {
			return f.Const(a.W, 0)
		}
		if a.Op == OpConst {
			return f.Const(a.W, a.Val<<b.Val)
		}
		if a.Op == OpBVShl && a.Args[1].Op == OpConst {
			s := a.Args[1].Val + b.Val
			if s >= uint64(a.W) {
				return f.Const(a.W, 0)
			}
			return f.BVShl(a.Args[0], f.Const(a.W, s))
		}
		// x << k  ==  concat(extract(W-1-k, 0, x), 0_k)
		k := int(b.Val)
		return f.Concat(f.Extract(a, a.W-1-k, 0), f.Const(k, 0))
	}
	if a.Op == OpConst && a.Val == 0 {
		return a
	}
	return f.mk(OpBVShl, a.W, 0, "", a, b)
}

func (f *Factory) BVLshr(a, b *Term) *Term {
	f.chk2(a, b, "bvlshr")
	if b.Op == OpConst {
		if b.Val == 0 {
			return a
		}
		if b.Val >= uint64(a.W) {
			return f.Const(a.W, 0)
		}
		if a.Op == OpConst {
			return f.Const(a.W, a.Val>>b.Val)
		}
		// x >> k == zext(extract(W-1, k, x))
		k := int(b.Val)
		return f.Zext(f.Extract(a, a.W-1, k), a.W)
	}
	if a.Op == OpConst && a.Val == 0 {
		return a
	}
	return f.mk(OpBVLshr, a.W, 0, "", a, b)
}

func (f *Factory) BVAshr(a, b *Term) *Term {
	f.chk2(a, b, "bvashr")
	if b.Op == OpConst {
		if b.Val == 0 {
			return a
		}
		sh := b.Val
		if sh >= uint64(a.W) {
			sh = uint64(a.W - 1)
		}
		if a.Op == OpConst {
			return f.Const(a.W, uint64(sext64(a.Val, a.W)>>sh))
		}
		return f.Sext(f.Extract(a, a.W-1, int(sh)), a.W)
	}
	return f.mk(OpBVAshr, a.W, 0, "", a, b)
}

func (f *Factory) Ult(a, b *Term) *Term {
	f.chk2(a, b, "ult")
	if a.Op == OpConst && b.Op == OpConst {
		return f.Bool(a.Val < b.Val)
	}
	if a == b {
		return f.False
	}
	if b.Op == OpConst && b.Val == 0 {
		return f.False
	}
	if a.Op == OpConst && a.Val == mask(a.W) {
		return f.False
	}
	// zext(x) < const beyond range
	if a.Op == OpZext && b.Op == OpConst && b.Val > mask(a.Args[0].W) {
		return f.True
	}
	if a.Op == OpZext && b.Op == OpZext && a.Args[0].W == b.Args[0].W {
		return f.Ult(a.Args[0], b.Args[0])
	}
	return f.mk(OpUlt, 0, 0, "", a, b)
}

func (f *Factory) Ule(a, b *Term) *Term {
	f.chk2(a, b, "ule")
	if a.Op == OpConst && b.Op == OpConst {
		return f.Bool(a.Val <= b.Val)
	}
	if a == b {
		return f.True
	}
	if a.Op == OpConst && a.Val == 0 {
		return f.True
	}
	if b.Op == OpConst && b.Val == mask(a.W) {
		return f.True
	}
	if a.Op == OpZext && b.Op == OpConst && b.Val >= mask(a.Args[0].W) {
		return f.True
	}
	return f.Not(f.Ult(b, a))
}

func (f *Factory) Slt(a, b *Term) *Term {
	f.chk2(a, b, "slt")
	if a.Op == OpConst && b.Op == OpConst {
		return f.Bool(sext64(a.Val, a.W) < sext64(b.Val, b.W))
	}
	if a == b {
		return f.False
	}
	// zext values are non-negative
	if a.Op == OpZext && a.Args[0].W < a.W && b.Op == OpConst {
		bv := sext64(b.Val, b.W)
		if bv <= 0 {
			return f.False
		}
		if uint64(bv) > mask(a.Args[0].W) {
			return f.True
		}
	}
	if b.Op == OpZext && b.Args[0].W < b.W && a.Op == OpConst {
		av := sext64(a.Val, a.W)
		if av < 0 {
			return f.True
		}
		if uint64(av) >= mask(b.Args[0].W) {
			return f.False
		}
	}
	return f.mk(OpSlt, 0, 0, "", a, b)
}

func (f *Factory) Sle(a, b *Term) *Term {
	f.chk2(a, b, "sle")
	if a.Op == OpConst && b.Op == OpConst {
		return f.Bool(sext64(a.Val, a.W) <= sext64(b.Val, b.W))
	}
	if a == b {
		return f.True
	}
	return f.Not(f.Slt(b, a))
}

func (f *Factory) Concat(hi, lo *Term) *Term {
	if hi.W <= 0 || lo.W <= 0 || hi.W+lo.W > 64 {
		panic(fmt.Sprintf("concat: bad widths %d %d", hi.W, lo.W))
	}
	w := hi.W + lo.W
	if hi.Op == OpConst && lo.Op == OpConst {
		return f.Const(w, hi.Val<<uint(lo.W)|lo.Val)
	}
	if hi.Op == OpConst && hi.Val == 0 {
		return f.Zext(lo, w)
	}
	// concat(extract(h,m+1,x), extract(m,l,x)) -> extract(h,l,x)
	if hi.Op == OpExtract && lo.Op == OpExtract && hi.Args[0] == lo.Args[0] {
		hh, hl := int(hi.Val>>8), int(hi.Val&0xff)
		lh, ll := int(lo.Val>>8), int(lo.Val&0xff)
		if hl == lh+1 {
			return f.Extract(hi.Args[0], hh, ll)
		}
	}
	if hi.lin != nil || lo.lin != nil {
		if r := f.tryLinConcat(hi, lo); r != nil {
			return r
		}
	}
	return f.mk(OpConcat, w, 0, "", hi, lo)
}

func (f *Factory) Extract(a *Term, hi, lo int) *Term {
	if a.W <= 0 || hi >= a.W || lo < 0 || hi < lo {
		panic(fmt.Sprintf("extract: bad range [%d:%d] of width %d", hi, lo, a.W))
	}
	w := hi - lo + 1
	if w == a.W {
		return a
	}
	if a.lin != nil {
		if r := f.tryLinExtract(a, hi, lo); r != nil {
			return r
		}
	}
	switch a.Op {
	case OpConst:
		return f.Const(w, a.Val>>uint(lo))
	case OpExtract:
		l0 := int(a.Val & 0xff)
		return f.Extract(a.Args[0], hi+l0, lo+l0)
	case OpConcat:
		h, l := a.Args[0], a.Args[1]
		if hi < l.W {
			return f.Extract(l, hi, lo)
		}
		if lo >= l.W {
			return f.Extract(h, hi-l.W, lo-l.W)
		}
		return f.Concat(f.Extract(h, hi-l.W, 0), f.Extract(l, l.W-1, lo))
	case OpZext:
		x := a.Args[0]
		if hi < x.W {
			return f.Extract(x, hi, lo)
		}
		if lo >= x.W {
			return f.Const(w, 0)
		}
		return f.Zext(f.Extract(x, x.W-1, lo), w)
	case OpSext:
		x := a.Args[0]
		if hi < x.W {
			return f.Extract(x, hi, lo)
		}
	case OpBVAnd, OpBVOr, OpBVXor:
		// push extraction through bitwise ops when one side is constant (keeps masks small)
		if a.Args[1].Op == OpConst {
			x := f.Extract(a.Args[0], hi, lo)
			k := f.Extract(a.Args[1], hi, lo)
			switch a.Op {
			case OpBVAnd:
				return f.BVAnd(x, k)
			case OpBVOr:
				return f.BVOr(x, k)
			default:
				return f.BVXor(x, k)
			}
		}
	}
	return f.mk(OpExtract, w, uint64(hi)<<8|uint64(lo), "", a)
}

func (f *Factory) Zext(a *Term, w int) *Term {
	if a.W <= 0 || w < a.W {
		panic(fmt.Sprintf("zext: %d -> %d", a.W, w))
	}
	if w == a.W {
		return a
	}
	if a.Op == OpConst {
		return f.Const(w, a.Val)
	}
	if a.Op == OpZext {
		return f.Zext(a.Args[0], w)
	}
	if a.lin != nil {
		if r := f.tryLinZext(a, w); r != nil {
			return r
		}
	}
	return f.mk(OpZext, w, 0, "", a)
}

func (f *Factory) Sext(a *Term, w int) *Term {
	if a.W <= 0 || w < a.W {
		panic(fmt.Sprintf("sext: %d -> %d", a.W, w))
	}
	if w == a.W {
		return a
	}
	if a.Op == OpConst {
		return f.Const(w, uint64(sext64(a.Val, a.W)))
	}
	if a.Op == OpZext && a.Args[0].W < a.W {
		return f.Zext(a.Args[0], w)
	}
	if a.Op == OpSext {
		return f.Sext(a.Args[0], w)
	}
	if r := f.tryLinSextBit(a, w); r != nil {
		return r
	}
	return f.mk(OpSext, w, 0, "", a)
}

// Resize truncates or extends a to width w.
func (f *Factory) Resize(a *Term, w int, signed bool) *Term {
	switch {
	case w == a.W:
		return a
	case w < a.W:
		return f.Extract(a, w-1, 0)
	case signed:
		return f.Sext(a, w)
	}
	return f.Zext(a, w)
}

// ---------- Int ----------

func (f *Factory) IntConst(v int64) *Term { return f.Const(IntW, uint64(v)) }

func (f *Factory) IBin(op Op, a, b *Term) *Term {
	if a.W != IntW || b.W != IntW {
		panic("IBin: non-int")
	}
	if a.Op == OpConst && b.Op == OpConst {
		x, y := int64(a.Val), int64(b.Val)
		switch op {
		case OpIAdd:
			if r := x + y; (r > x) == (y > 0) {
				return f.IntConst(r)
			}
		case OpISub:
			if r := x - y; (r < x) == (y > 0) {
				return f.IntConst(r)
			}
		case OpIMul:
			hi, lo := bits.Mul64(uint64(abs64(x)), uint64(abs64(y)))
			if hi == 0 && lo < 1<<62 {
				return f.IntConst(x * y)
			}
		case OpILt:
			return f.Bool(x < y)
		case OpILe:
			return f.Bool(x <= y)
		case OpIDiv:
			if y > 0 && x >= 0 {
				return f.IntConst(x / y)
			}
		case OpIMod:
			if y > 0 && x >= 0 {
				return f.IntConst(x % y)
			}
		}
	}
	switch op {
	case OpIAdd:
		if a.Op == OpConst && a.Val == 0 {
			return b
		}
		if b.Op == OpConst && b.Val == 0 {
			return a
		}
		if a.Op == OpConst {
			a, b = b, a
		}
		// (x + k1) + k2
		if b.Op == OpConst && a.Op == OpIAdd && a.Args[1].Op == OpConst {
			if k := f.IBin(OpIAdd, a.Args[1], b); k.Op == OpConst {
				return f.IBin(OpIAdd, a.Args[0], k)
			}
		}
	case OpISub:
		if b.Op == OpConst && b.Val == 0 {
			return a
		}
		if a == b {
			return f.IntConst(0)
		}
		if b.Op == OpConst && int64(b.Val) != -1<<63 {
			return f.IBin(OpIAdd, a, f.IntConst(-int64(b.Val)))
		}
	case OpIMul:
		if a.Op == OpConst {
			a, b = b, a
		}
		if b.Op == OpConst {
			if b.Val == 0 {
				return b
			}
			if b.Val == 1 {
				return a
			}
		}
	case OpIDiv:
		if b.Op == OpConst && b.Val == 1 {
			return a
		}
	case OpILt:
		if a == b {
			return f.False
		}
	case OpILe:
		if a == b {
			return f.True
		}
	}
	w := IntW
	if op == OpILt || op == OpILe {
		w = 0
	}
	return f.mk(op, w, 0, "", a, b)
}

func (f *Factory) INeg(a *Term) *Term {
	if a.Op == OpConst && int64(a.Val) != -1<<63 {
		return f.IntConst(-int64(a.Val))
	}
	return f.mk(OpINeg, IntW, 0, "", a)
}

// BV2Int converts a bit-vector to its (signed or unsigned) integer value.
func (f *Factory) BV2Int(a *Term, signed bool) *Term {
	if a.W <= 0 {
		panic("BV2Int: not a bit-vector")
	}
	if a.Op == OpConst {
		if signed {
			return f.IntConst(sext64(a.Val, a.W))
		}
		if a.Val < 1<<63 {
			return f.IntConst(int64(a.Val))
		}
	}
	if a.Op == OpZext {
		return f.BV2Int(a.Args[0], false)
	}
	if signed {
		return f.mk(OpSBV2Int, IntW, 0, "", a)
	}
	return f.mk(OpUBV2Int, IntW, 0, "", a)
}

// IntVar declares a mathematical-integer variable.
func (f *Factory) IntVar(name string) *Term { return f.Var(name, IntW) }

func abs64(x int64) int64 {
	if x < 0 {
		return -x
	}
	return x
}

// ---------- Printing ----------

// NewEpoch invalidates the record of emitted definitions (after a solver reset).
func (f *Factory) NewEpoch() { f.epoch++ }

func sortOf(w int) string {
	switch {
	case w == 0:
		return "Bool"
	case w == IntW:
		return "Int"
	}
	return fmt.Sprintf("(_ BitVec %d)", w)
}

func (t *Term) ref() string {
	switch t.Op {
	case OpConst:
		switch {
		case t.W == 0:
			if t.Val != 0 {
				return "true"
			}
			return "false"
		case t.W == IntW:
			v := int64(t.Val)
			if v < 0 {
				return fmt.Sprintf("(- %d)", uint64(-v))
			}
			return fmt.Sprintf("%d", v)
		case t.W%4 == 0:
			return fmt.Sprintf("#x%0*x", t.W/4, t.Val)
		}
		return fmt.Sprintf("#b%0*b", t.W, t.Val)
	case OpVar:
		return "|" + t.Name + "|"
	}
	return fmt.Sprintf("t%d", t.ID)
}

// Emit writes the declarations/definitions needed for t that have not yet been
// emitted in the current epoch, and returns the reference to use for t.
func (f *Factory) Emit(sb *strings.Builder, t *Term) string {
	f.emitRec(sb, t)
	return t.ref()
}

// BeginFresh starts a stand-alone script: EmitFresh re-emits every definition.
func (f *Factory) BeginFresh() { f.epoch2++ }

// EmitFresh is Emit for a stand-alone script started with BeginFresh.
func (f *Factory) EmitFresh(sb *strings.Builder, t *Term) string {
	f.fresh = true
	f.emitRec(sb, t)
	f.fresh = false
	return t.ref()
}

func (f *Factory) emitRec(sb *strings.Builder, root *Term) {
	if f.fresh {
		f.emitRec2(sb, root)
		return
	}
	mark := f.epoch + 1
	if root.emit == mark || root.Op == OpConst {
		return
	}
	// iterative post-order to survive deep DAGs
	type fr struct {
		t *Term
		i int
	}
	stack := []fr{{root, 0}}
	for len(stack) > 0 {
		top := &stack[len(stack)-1]
		t := top.t
		if t.emit == mark || t.Op == OpConst {
			stack = stack[:len(stack)-1]
			continue
		}
		if top.i < len(t.Args) {
			a := t.Args[top.i]
			top.i++
			if a.emit != mark && a.Op != OpConst {
				stack = append(stack, fr{a, 0})
			}
			continue
		}
		t.emit = mark
		stack = stack[:len(stack)-1]
		if t.Op == OpVar {
			fmt.Fprintf(sb, "(declare-const |%s| %s)\n", t.Name, sortOf(t.W))
			continue
		}
		fmt.Fprintf(sb, "(define-fun t%d () %s ", t.ID, sortOf(t.W))
		switch t.Op {
		case OpExtract:
			fmt.Fprintf(sb, "((_ extract %d %d) %s)", t.Val>>8, t.Val&0xff, t.Args[0].ref())
		case OpZext:
			fmt.Fprintf(sb, "((_ zero_extend %d) %s)", t.W-t.Args[0].W, t.Args[0].ref())
		case OpSext:
			fmt.Fprintf(sb, "((_ sign_extend %d) %s)", t.W-t.Args[0].W, t.Args[0].ref())
		case OpFMul, OpFAdd, OpFSub, OpFDiv, OpFLt, OpFLe, OpFEq, OpFFromS, OpFToS:
			sb.WriteString(fpSMT(t))
		default:
			sb.WriteString("(" + opNames[t.Op])
			for _, a := range t.Args {
				sb.WriteString(" " + a.ref())
			}
			sb.WriteString(")")
		}
		sb.WriteString(")\n")
	}
}

func (f *Factory) emitRec2(sb *strings.Builder, root *Term) {
	mark := f.epoch2
	if root.emit2 == mark || root.Op == OpConst {
		return
	}
	// iterative post-order to survive deep DAGs
	type fr struct {
		t *Term
		i int
	}
	stack := []fr{{root, 0}}
	for len(stack) > 0 {
		top := &stack[len(stack)-1]
		t := top.t
		if t.emit2 == mark || t.Op == OpConst {
			stack = stack[:len(stack)-1]
			continue
		}
		if top.i < len(t.Args) {
			a := t.Args[top.i]
			top.i++
			if a.emit2 != mark && a.Op != OpConst {
				stack = append(stack, fr{a, 0})
			}
			continue
		}
		t.emit2 = mark
		stack = stack[:len(stack)-1]
		if t.Op == OpVar {
			fmt.Fprintf(sb, "(declare-const |%s| %s)\n", t.Name, sortOf(t.W))
			continue
		}
		fmt.Fprintf(sb, "(define-fun t%d () %s ", t.ID, sortOf(t.W))
		switch t.Op {
		case OpExtract:
			fmt.Fprintf(sb, "((_ extract %d %d) %s)", t.Val>>8, t.Val&0xff, t.Args[0].ref())
		case OpZext:
			fmt.Fprintf(sb, "((_ zero_extend %d) %s)", t.W-t.Args[0].W, t.Args[0].ref())
		case OpSext:
			fmt.Fprintf(sb, "((_ sign_extend %d) %s)", t.W-t.Args[0].W, t.Args[0].ref())
		case OpFMul, OpFAdd, OpFSub, OpFDiv, OpFLt, OpFLe, OpFEq, OpFFromS, OpFToS:
			sb.WriteString(fpSMT(t))
		default:
			sb.WriteString("(" + opNames[t.Op])
			for _, a := range t.Args {
				sb.WriteString(" " + a.ref())
			}
			sb.WriteString(")")
		}
		sb.WriteString(")\n")
	}
}

// String renders a term as a (possibly large) s-expression, for diagnostics.
func (t *Term) String() string {
	var sb strings.Builder
	t.str(&sb, 0)
	return sb.String()
}

func (t *Term) str(sb *strings.Builder, depth int) {
	if t.Op == OpConst || t.Op == OpVar {
		sb.WriteString(t.ref())
		return
	}
	if depth > 12 {
		sb.WriteString("…")
		return
	}
	switch t.Op {
	case OpExtract:
		fmt.Fprintf(sb, "((_ extract %d %d) ", t.Val>>8, t.Val&0xff)
	case OpZext:
		fmt.Fprintf(sb, "((_ zero_extend %d) ", t.W-t.Args[0].W)
	case OpSext:
		fmt.Fprintf(sb, "((_ sign_extend %d) ", t.W-t.Args[0].W)
	default:
		sb.WriteString("(" + opNames[t.Op] + " ")
	}
	for i, a := range t.Args {
		if i > 0 {
			sb.WriteString(" ")
		}
		a.str(sb, depth+1)
	}
	sb.WriteString(")")
}

// Eval evaluates t under an assignment of variables (by name). Missing
// variables evaluate to zero.
func (f *Factory) Eval(t *Term, env map[string]uint64, memo map[int]uint64) uint64 {
	if t.Op == OpConst {
		return t.Val
	}
	if v, ok := memo[t.ID]; ok {
		return v
	}
	var a [3]uint64
	for i, x := range t.Args {
		a[i] = f.Eval(x, env, memo)
	}
	w := t.W
	aw := 0
	if len(t.Args) > 0 {
		aw = t.Args[0].W
	}
	b2u := func(b bool) uint64 {
		if b {
			return 1
		}
		return 0
	}
	var r uint64
	switch t.Op {
	case OpVar:
		r = env[t.Name]
	case OpNot:
		r = a[0] ^ 1
	case OpAnd:
		r = a[0] & a[1]
	case OpOr:
		r = a[0] | a[1]
	case OpEq:
		r = b2u(a[0] == a[1])
	case OpIte:
		if a[0] != 0 {
			r = a[1]
		} else {
			r = a[2]
		}
	case OpBVNot:
		r = ^a[0]
	case OpBVNeg:
		r = -a[0]
	case OpBVAnd:
		r = a[0] & a[1]
	case OpBVOr:
		r = a[0] | a[1]
	case OpBVXor:
		r = a[0] ^ a[1]
	case OpBVAdd:
		r = a[0] + a[1]
	case OpBVSub:
		r = a[0] - a[1]
	case OpBVMul:
		r = a[0] * a[1]
	case OpBVUDiv:
		if a[1] == 0 {
			r = mask(w)
		} else {
			r = a[0] / a[1]
		}
	case OpBVURem:
		if a[1] == 0 {
			r = a[0]
		} else {
			r = a[0] % a[1]
		}
	case OpBVSDiv:
		x, y := sext64(a[0], w), sext64(a[1], w)
		switch {
		case y == 0:
			if x < 0 {
				r = 1
			} else {
				r = mask(w)
			}
		case y == -1:
			r = uint64(-x)
		default:
			r = uint64(x / y)
		}
	case OpBVSRem:
		x, y := sext64(a[0], w), sext64(a[1], w)
		switch {
		case y == 0:
			r = uint64(x)
		case y == -1:
			r = 0
		default:
			r = uint64(x % y)
		}
	case OpBVShl:
		if a[1] >= uint64(w) {
			r = 0
		} else {
			r = a[0] << a[1]
		}
	case OpBVLshr:
		if a[1] >= uint64(w) {
			r = 0
		} else {
			r = a[0] >> a[1]
		}
	case OpBVAshr:
		sh := a[1]
		if sh >= uint64(w) {
			sh = uint64(w - 1)
		}
		r = uint64(sext64(a[0], w) >> sh)
	case OpUlt:
		r = b2u(a[0] < a[1])
	case OpUle:
		r = b2u(a[0] <= a[1])
	case OpSlt:
		r = b2u(sext64(a[0], aw) < sext64(a[1], aw))
	case OpSle:
		r = b2u(sext64(a[0], aw) <= sext64(a[1], aw))
	case OpConcat:
		r = a[0]<<uint(t.Args[1].W) | a[1]
	case OpExtract:
		r = a[0] >> (t.Val & 0xff)
	case OpZext:
		r = a[0]
	case OpSext:
		r = uint64(sext64(a[0], aw))
	case OpFMul, OpFAdd, OpFSub, OpFDiv, OpFLt, OpFLe, OpFEq, OpFFromS, OpFToS:
		r = fpEval(t.Op, a[0], a[1])
	default:
		panic("Eval: unsupported op")
	}
	if w > 0 {
		r &= mask(w)
	} else if w == 0 {
		r &= 1
	}
	memo[t.ID] = r
	return r
}

// Rebuild constructs op(args) through the simplifying constructors.
func (f *Factory) Rebuild(t *Term, a []*Term) *Term {
	switch t.Op {
	case OpConst, OpVar:
		return t
	case OpNot:
		return f.Not(a[0])
	case OpAnd:
		return f.And(a[0], a[1])
	case OpOr:
		return f.Or(a[0], a[1])
	case OpEq:
		return f.Eq(a[0], a[1])
	case OpIte:
		return f.Ite(a[0], a[1], a[2])
	case OpBVNot:
		return f.BVNot(a[0])
	case OpBVNeg:
		return f.BVNeg(a[0])
	case OpBVAnd:
		return f.BVAnd(a[0], a[1])
	case OpBVOr:
		return f.BVOr(a[0], a[1])
	case OpBVXor:
		return f.BVXor(a[0], a[1])
	case OpBVAdd:
		return f.BVAdd(a[0], a[1])
	case OpBVSub:
		return f.BVSub(a[0], a[1])
	case OpBVMul:
		return f.BVMul(a[0], a[1])
	case OpBVUDiv:
		return f.BVUDiv(a[0], a[1])
	case OpBVURem:
		return f.BVURem(a[0], a[1])
	case OpBVSDiv:
		return f.BVSDiv(a[0], a[1])
	case OpBVSRem:
		return f.BVSRem(a[0], a[1])
	case OpBVShl:
		return f.BVShl(a[0], a[1])
	case OpBVLshr:
		return f.BVLshr(a[0], a[1])
	case OpBVAshr:
		return f.BVAshr(a[0], a[1])
	case OpUlt:
		return f.Ult(a[0], a[1])
	case OpUle:
		return f.Ule(a[0], a[1])
	case OpSlt:
		return f.Slt(a[0], a[1])
	case OpSle:
		return f.Sle(a[0], a[1])
	case OpConcat:
		return f.Concat(a[0], a[1])
	case OpExtract:
		return f.Extract(a[0], int(t.Val>>8), int(t.Val&0xff))
	case OpZext:
		return f.Zext(a[0], t.W)
	case OpSext:
		return f.Sext(a[0], t.W)
	case OpIAdd, OpISub, OpIMul, OpIDiv, OpIMod, OpILt, OpILe:
		return f.IBin(t.Op, a[0], a[1])
	case OpINeg:
		return f.INeg(a[0])
	case OpUBV2Int:
		return f.BV2Int(a[0], false)
	case OpSBV2Int:
		return f.BV2Int(a[0], true)
	case OpFMul, OpFAdd, OpFSub, OpFDiv, OpFLt, OpFLe, OpFEq:
		return f.FBin(t.Op, a[0], a[1])
	case OpFFromS:
		return f.FFromS(a[0])
	case OpFToS:
		return f.FToS(a[0])
	}
	panic("Rebuild: unknown op")
}

// AssumeZeroBits rewrites t under the assumption that bits hi..lo of x are
// zero: every extract of x that lies inside that range becomes 0. The result
// is equal to t whenever the assumption holds (pure rewriting).
func (f *Factory) AssumeZeroBits(t, x *Term, hi, lo int, memo map[int]*Term) *Term {
	if t.Op == OpConst || t.Op == OpVar {
		return t
	}
	if r, ok := memo[t.ID]; ok {
		return r
	}
	var r *Term
	if t.Op == OpExtract && t.Args[0] == x {
		h, l := int(t.Val>>8), int(t.Val&0xff)
		if l >= lo && h <= hi {
			r = f.Const(t.W, 0)
		}
	}
	if r == nil {
		args := make([]*Term, len(t.Args))
		changed := false
		for i, a := range t.Args {
			args[i] = f.AssumeZeroBits(a, x, hi, lo, memo)
			if args[i] != a {
				changed = true
			}
		}
		if changed {
			r = f.Rebuild(t, args)
		} else {
			r = t
		}
	}
	memo[t.ID] = r
	return r
}

// ZeroBitsFact recognises c as "bits hi..lo of x are zero".
func (f *Factory) ZeroBitsFact(c *Term) (x *Term, hi, lo int, ok bool) {
	if c.Op != OpEq {
		return nil, 0, 0, false
	}
	a, b := c.Args[0], c.Args[1]
	if a.Op == OpConst {
		a, b = b, a
	}
	if b.Op != OpConst || b.Val != 0 || a.W <= 0 {
		return nil, 0, 0, false
	}
	if a.Op == OpExtract {
		return a.Args[0], int(a.Val >> 8), int(a.Val & 0xff), true
	}
	return a, a.W - 1, 0, true
}
