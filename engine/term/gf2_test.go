package term

import "testing"

func TestGF2(t *testing.T) {
	f := NewFactory()
	x := f.Var("x", 64)
	mat := []uint64{0x9a6c9329ac4bc9b5, 1, 2, 4}
	apply := func(v *Term) *Term {
		sum := f.Const(64, 0)
		for k := 0; k < 4; k++ {
			vk := f.BVLshr(v, f.Const(64, uint64(k)))
			c := f.Not(f.Eq(f.BVAnd(vk, f.Const(64, 1)), f.Const(64, 0)))
			sum = f.Ite(c, f.BVXor(sum, f.Const(64, mat[k])), sum)
			t.Log(k, sum.lin != nil, sum.Op)
		}
		return sum
	}
	a := apply(x)
	t.Log(a.String())
	if a.lin == nil {
		t.Fatal("no lin form after first application")
	}
	b := apply(a)
	t.Log(len(b.lin.a), b.String())
}
