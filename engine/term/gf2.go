package term

// GF(2) normal forms. A bit-vector term built only from constants, xor,
// and-with-constant, not, extract, zero-extension, concatenation, constant
// shifts and sign-extension of single bits is an affine form over GF(2) in a
// set of 1-bit atoms:
//
//	c  xor  XOR_i (K_i & sext(atom_i))
//
// The factory keeps such terms in a canonical shape (atoms ordered by id, one
// constant column per atom), so that two different computations of the same
// linear map (e.g. chained CRC matrix applications vs. a single matrix) build
// the *same* term, and unequal ones reach the solver as flat xor forms.

import "sort"

type linAtom struct {
	t *Term // 1-bit atom
	k uint64
}

type linForm struct {
	c uint64
	a []linAtom
}

const maxLinAtoms = 256

func (f *Factory) linOf(t *Term) *linForm {
	if t.lin != nil {
		return t.lin
	}
	if t.W <= 0 {
		return nil
	}
	if t.Op == OpConst {
		return &linForm{c: t.Val}
	}
	if t.W == 1 {
		switch t.Op {
		case OpBVXor, OpBVNot:
			return nil // such terms are always built through the normaliser and carry lin already
		}
		l := &linForm{a: []linAtom{{t, 1}}}
		t.lin = l
		return l
	}
	if (t.Op == OpSext || t.Op == OpZext) && t.Args[0].W == 1 {
		inner := f.linOf(t.Args[0])
		if inner == nil {
			return nil
		}
		full := mask(t.W)
		if t.Op == OpZext {
			full = 1
		}
		l := linMap(inner, func(x uint64) uint64 {
			if x&1 != 0 {
				return full
			}
			return 0
		})
		t.lin = l
		return l
	}
	return nil
}

// fromLin builds (or finds) the canonical term of an affine form of width w.
func (f *Factory) fromLin(w int, l *linForm) *Term {
	l.c &= mask(w)
	if len(l.a) == 0 {
		return f.Const(w, l.c)
	}
	var acc *Term
	for i, at := range l.a {
		var piece *Term
		if w == 1 {
			piece = at.t
		} else {
			piece = f.mk(OpSext, w, 0, "", at.t)
			if at.k != mask(w) {
				piece = f.mk(OpBVAnd, w, 0, "", piece, f.Const(w, at.k))
			}
		}
		if acc == nil {
			acc = piece
		} else {
			acc = f.mk(OpBVXor, w, 0, "", acc, piece)
		}
		if acc.lin == nil && i+1 < len(l.a) || (l.c != 0 && acc.lin == nil) {
			// every prefix of the chain is itself a canonical form
			acc.lin = &linForm{a: l.a[: i+1 : i+1]}
		}
	}
	if l.c != 0 {
		if w == 1 {
			acc = f.mk(OpBVNot, 1, 0, "", acc)
		} else {
			acc = f.mk(OpBVXor, w, 0, "", acc, f.Const(w, l.c))
		}
	}
	if acc.lin == nil {
		acc.lin = l
	}
	return acc
}

func linXor(a, b *linForm, w int) *linForm {
	r := &linForm{c: (a.c ^ b.c) & mask(w), a: make([]linAtom, 0, len(a.a)+len(b.a))}
	i, j := 0, 0
	for i < len(a.a) || j < len(b.a) {
		switch {
		case j >= len(b.a) || (i < len(a.a) && a.a[i].t.ID < b.a[j].t.ID):
			r.a = append(r.a, a.a[i])
			i++
		case i >= len(a.a) || b.a[j].t.ID < a.a[i].t.ID:
			r.a = append(r.a, b.a[j])
			j++
		default:
			if k := a.a[i].k ^ b.a[j].k; k != 0 {
				r.a = append(r.a, linAtom{a.a[i].t, k})
			}
			i++
			j++
		}
	}
	return r
}

func linMap(a *linForm, fn func(uint64) uint64) *linForm {
	r := &linForm{c: fn(a.c), a: make([]linAtom, 0, len(a.a))}
	for _, at := range a.a {
		if k := fn(at.k); k != 0 {
			r.a = append(r.a, linAtom{at.t, k})
		}
	}
	return r
}

// tryLinXor returns the canonical xor if both operands are affine forms.
func (f *Factory) tryLinXor(a, b *Term) *Term {
	la, lb := f.linOf(a), f.linOf(b)
	if la == nil || lb == nil || len(la.a)+len(lb.a) == 0 || len(la.a)+len(lb.a) > maxLinAtoms {
		return nil
	}
	return f.fromLin(a.W, linXor(la, lb, a.W))
}

func (f *Factory) tryLinAndConst(a *Term, k uint64) *Term {
	la := f.linOf(a)
	if la == nil || len(la.a) == 0 {
		return nil
	}
	return f.fromLin(a.W, linMap(la, func(x uint64) uint64 { return x & k }))
}

func (f *Factory) tryLinNot(a *Term) *Term {
	la := f.linOf(a)
	if la == nil || len(la.a) == 0 {
		return nil
	}
	r := &linForm{c: ^la.c & mask(a.W), a: la.a}
	return f.fromLin(a.W, r)
}

func (f *Factory) tryLinExtract(a *Term, hi, lo int) *Term {
	la := f.linOf(a)
	if la == nil || len(la.a) == 0 {
		return nil
	}
	w := hi - lo + 1
	return f.fromLin(w, linMap(la, func(x uint64) uint64 { return (x >> uint(lo)) & mask(w) }))
}

func (f *Factory) tryLinZext(a *Term, w int) *Term {
	la := f.linOf(a)
	if la == nil || len(la.a) == 0 {
		return nil
	}
	return f.fromLin(w, &linForm{c: la.c, a: la.a})
}

func (f *Factory) tryLinSextBit(a *Term, w int) *Term {
	if a.W != 1 {
		return nil
	}
	la := f.linOf(a)
	if la == nil || len(la.a) == 0 {
		return nil
	}
	if len(la.a) == 1 && la.c == 0 {
		return nil // a plain atom: sext(atom) is the primitive building block
	}
	return f.fromLin(w, linMap(la, func(x uint64) uint64 {
		if x&1 != 0 {
			return mask(w)
		}
		return 0
	}))
}

func (f *Factory) tryLinConcat(hi, lo *Term) *Term {
	lh, ll := f.linOf(hi), f.linOf(lo)
	if lh == nil || ll == nil || len(lh.a)+len(ll.a) == 0 || len(lh.a)+len(ll.a) > maxLinAtoms {
		return nil
	}
	w := hi.W + lo.W
	sh := linMap(lh, func(x uint64) uint64 { return x << uint(lo.W) })
	r := linXor(sh, ll, w)
	sort.SliceStable(r.a, func(i, j int) bool { return r.a[i].t.ID < r.a[j].t.ID })
	return f.fromLin(w, r)
}

// LinImplied reports whether d == 0 follows from e == 0 by GF(2) linear algebra
// over the atoms of their affine forms (Gaussian elimination). A false answer
// only means "not shown".
func (f *Factory) LinImplied(e, d *Term) bool {
	le, ld := f.linOf(e), f.linOf(d)
	if le == nil || ld == nil {
		return false
	}
	if len(ld.a) == 0 {
		return ld.c&mask(d.W) == 0
	}
	idx := map[*Term]int{}
	for _, at := range le.a {
		if _, ok := idx[at.t]; !ok {
			idx[at.t] = len(idx)
		}
	}
	for _, at := range ld.a {
		if _, ok := idx[at.t]; !ok {
			return false // d depends on an atom e does not constrain
		}
	}
	n := len(idx)
	words := (n + 1 + 63) / 64 // last column = right-hand side
	row := func(l *linForm, p int) []uint64 {
		r := make([]uint64, words)
		for _, at := range l.a {
			if at.k>>uint(p)&1 != 0 {
				i := idx[at.t]
				r[i/64] ^= 1 << uint(i%64)
			}
		}
		if l.c>>uint(p)&1 != 0 {
			r[n/64] ^= 1 << uint(n%64)
		}
		return r
	}
	lead := func(r []uint64) int {
		for i := 0; i < n; i++ {
			if r[i/64]>>uint(i%64)&1 != 0 {
				return i
			}
		}
		return -1
	}
	xor := func(a, b []uint64) {
		for i := range a {
			a[i] ^= b[i]
		}
	}
	pivots := map[int][]uint64{}
	reduce := func(r []uint64) {
		for {
			l := lead(r)
			if l < 0 {
				return
			}
			p, ok := pivots[l]
			if !ok {
				return
			}
			xor(r, p)
		}
	}
	for p := 0; p < e.W; p++ {
		r := row(le, p)
		reduce(r)
		if l := lead(r); l >= 0 {
			pivots[l] = r
		}
	}
	for q := 0; q < d.W; q++ {
		r := row(ld, q)
		reduce(r)
		for _, wd := range r {
			if wd != 0 {
				return false
			}
		}
	}
	return true
}
