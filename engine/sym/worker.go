package sym

import (
	"fmt"
	"go/types"
	"os"
	"sort"
	"strings"
	"time"

	"gosmt/solver"
	"gosmt/term"

	"golang.org/x/tools/go/ssa"
)

// Program is the read-only part shared by all workers.
type Program struct {
	Prog          *ssa.Program
	Harness       *ssa.Package             // package holding the harness functions
	Redirects     map[string]*ssa.Function // callee name -> replacement in the harness package
	Params        map[string]int64         // verifParam values for this run
	Known         map[string]bool          // open known-finding ids
	Probe         string                   // known-finding id whose region is explored exclusively
	Replay        map[string]uint64        // concrete values for nondets (concrete mode), or nil
	Concrete      bool                     // concrete mode: nondets come from Replay (missing = 0)
	Unwind        int                      // max symbolic decisions per (frame, branch site)
	MaxSteps      int                      // instruction budget per path
	MaxDepth      int
	SolverBin     string
	SolverArg     []string
	TimeoutMS     int
	Logic         string
	Goroutines    bool   // queue `go` statements and run them at blocking points (sequential model)
	SQLSchema     string // file with the CREATE statements of the real database (sqlsym)
	FastTimeoutMS int    // timeout of the incremental solver before the stand-alone retry
	Trace         bool
	MergeOff      bool
}

type Decision struct {
	V uint64
}

type pathAbort struct {
	Kind string // unwind | unsupported | assume | budget | violation | done
	Msg  string
}

type targetPanic struct{ V Value }

// AssertSite aggregates the obligations discharged at one verifAssert call site.
type AssertSite struct {
	Msg        string
	Pos        string
	Trivial    int // condition was concretely true
	Discharged int // solver said unsat for pc && !cond
	Violated   int
	Unknown    int
}

type Violation struct {
	Msg    string            `json:"msg"`
	Pos    string            `json:"pos"`
	Kind   string            `json:"kind"` // assert | panic
	Model  map[string]uint64 `json:"model"`
	Order  []string          `json:"order"`
	Known  string            `json:"known,omitempty"`
	Prefix []Decision        `json:"-"`
	Extra  map[string]string `json:"extra,omitempty"`
}

type PathResult struct {
	Kind       string
	Msg        string
	Alts       [][]Decision
	Violations []Violation
	Sites      map[string]*AssertSite
	Covers     map[string]int
	Observes   []string
	Steps      int
	Decisions  int
	Nondets    int
	Funcs      map[string]int // function -> instructions executed
	GlobalMut  []string
	KnownHit   map[string]bool
	SamplePC   string
	LockViol   []string
}

type Worker struct {
	P            *Program
	TF           *term.Factory
	S            *solver.Solver
	S2           *solver.Solver // stand-alone (non-incremental) fallback
	freshQueries int
	ID           int
	err          error

	globals       map[*ssa.Global]*Obj
	globUndo      []globUndo
	resyncs       int
	timeoutFactor int
	pending       []pendingGo
	inGo          bool
	globSaved     map[*Obj]bool
	restoring     bool
	initDone      map[*ssa.Package]bool
	inInit        int
	objSeq        int
	opaqueID      int

	// per path
	prefix     []Decision
	decisions  []Decision
	pc         []*term.Term
	pcOpen     bool
	vars       []*term.Term
	varSeq     map[string]int
	res        *PathResult
	steps      int
	depth      int
	replaying  bool
	tokenSeq   int
	locks      map[string]int
	hashCalls  []hashCall
	mergeDepth int
	inMerge    int
	eraser     map[string]map[string]bool
	eraserSeq  int
	probeIn    bool
	sql        *sqlDB
	sqlCache   map[string]*sqlStmt
	sqlRows    map[*Obj]*sqlRowsState
	sqlTx      map[*Obj]*sqlTxState
	cur        *frame
}

func NewWorker(p *Program, id int) (*Worker, error) {
	w := &Worker{P: p, ID: id, TF: term.NewFactory(), globals: map[*ssa.Global]*Obj{}, initDone: map[*ssa.Package]bool{}}
	if !p.Concrete {
		fast := p.FastTimeoutMS
		if fast <= 0 || fast > p.TimeoutMS {
			fast = p.TimeoutMS
		}
		s, err := solver.NewLogic(p.SolverBin, p.SolverArg, fast, p.Logic)
		if err != nil {
			return nil, err
		}
		w.S = s
		if os.Getenv("GOSMT_SMTLOG") != "" {
			f, _ := os.Create(fmt.Sprintf("%s.%d.smt2", os.Getenv("GOSMT_SMTLOG"), id))
			s.Log = f
		}
	}
	return w, nil
}

func (w *Worker) Close() {
	if w.S != nil {
		w.S.Close()
	}
	if w.S2 != nil {
		w.S2.Close()
	}
}

// ---------- solver plumbing ----------

func (w *Worker) emitAssert(t *term.Term) {
	var sb strings.Builder
	ref := w.TF.Emit(&sb, t)
	sb.WriteString("(assert " + ref + ")\n")
	w.S.Send(sb.String())
}

func (w *Worker) resetSolverPath() {
	if w.S == nil {
		return
	}
	if w.pcOpen {
		w.S.Send("(pop 1)\n")
	}
	w.S.Send("(push 1)\n")
	w.pcOpen = true
}

func (w *Worker) addPC(t *term.Term) {
	if t.IsTrue() {
		return
	}
	w.pc = append(w.pc, t)
	if w.S != nil {
		w.emitAssert(t)
	}
}

// checkWith asks whether pc && extra is satisfiable.
func (w *Worker) checkWith(extra *term.Term) solver.Result {
	if extra.IsFalse() {
		return solver.Unsat
	}
	if w.S == nil {
		panic(pathAbort{"unsupported", "solver query in concrete mode"})
	}
	w.S.Send("(push 1)\n")
	w.emitAssert(extra)
	errsBefore := w.S.Stats.Errors
	r := w.S.Check()
	w.S.Send("(pop 1)\n")
	if w.S.Dead {
		w.reviveSolver()
		w.S.Stats.Errors-- // a hard timeout is an inconclusive answer, not a solver error
	} else if r == solver.Unknown && w.S.Stats.Errors > errsBefore && strings.Contains(w.S.LastError, "unknown constant") {
		// the process lost definitions this side believes it has sent (seen only
		// on an overloaded machine): start a new process, re-send the path
		// condition and ask again; a second error stays an error
		w.reviveSolver()
		w.S.Stats.Errors--
		w.S.Stats.Unknown--
		w.S.Stats.Queries--
		w.S.Send("(push 1)\n")
		w.emitAssert(extra)
		r = w.S.Check()
		w.S.Send("(pop 1)\n")
		w.resyncs++
	}
	if r == solver.Unknown {
		// z3's incremental core can be far slower than its one-shot tactics
		// (bit-blasting + SAT): retry the query as a stand-alone script
		r, _ = w.checkFresh(extra, false)
		if r == solver.Unknown {
			// last resort (busy machine): once more with three times the budget
			w.timeoutFactor = 3
			r, _ = w.checkFresh(extra, false)
			w.timeoutFactor = 1
		}
		if r != solver.Unknown {
			w.S.Stats.Unknown-- // answered by the stand-alone retry
		}
	}
	return r
}

// reviveSolver restarts the incremental solver after a hard timeout and
// re-establishes the current path condition.
func (w *Worker) reviveSolver() {
	stats := w.S.Stats
	if err := w.S.Restart(); err != nil {
		panic(pathAbort{"unsupported", "solver restart failed: " + err.Error()})
	}
	w.S.Stats = stats
	w.TF.NewEpoch()
	w.pcOpen = false
	w.resetSolverPath()
	for _, c := range w.pc {
		w.emitAssert(c)
	}
}

// checkFresh decides pc && extra in a second solver process without push/pop.
func (w *Worker) checkFresh(extra *term.Term, wantModel bool) (solver.Result, map[string]uint64) {
	if w.S2 == nil {
		s2, err := solver.New(w.P.SolverBin, w.P.SolverArg, w.P.TimeoutMS)
		if err != nil {
			return solver.Unknown, nil
		}
		w.S2 = s2
	}
	w.S2.Send("(reset)\n")
	tf := w.timeoutFactor
	if tf < 1 {
		tf = 1
	}
	w.S2.TimeoutMS = w.P.TimeoutMS * tf
	if w.P.TimeoutMS > 0 {
		w.S2.Send(fmt.Sprintf("(set-option :timeout %d)\n", w.P.TimeoutMS*tf))
	}
	w.TF.BeginFresh()
	var sb strings.Builder
	for _, v := range w.vars {
		w.TF.EmitFresh(&sb, v)
	}
	for _, c := range w.pc {
		ref := w.TF.EmitFresh(&sb, c)
		sb.WriteString("(assert " + ref + ")\n")
	}
	ref := w.TF.EmitFresh(&sb, extra)
	sb.WriteString("(assert " + ref + ")\n")
	if d := os.Getenv("GOSMT_DUMP_FRESH"); d != "" {
		os.WriteFile(fmt.Sprintf("%s/fresh-%d-%d.smt2", d, os.Getpid(), w.freshQueries), []byte(sb.String()+"(check-sat)\n"), 0o644)
	}
	w.S2.Send(sb.String())
	r := w.S2.Check()
	w.freshQueries++
	if w.S2.Dead {
		w.S2.Close()
		w.S2 = nil
		return solver.Unknown, nil
	}
	if r != solver.Sat || !wantModel {
		return r, nil
	}
	refs := make([]string, len(w.vars))
	for i, v := range w.vars {
		refs[i] = "|" + v.Name + "|"
	}
	vals, err := w.S2.GetValues(refs)
	if err != nil {
		return solver.Unknown, nil
	}
	m := map[string]uint64{}
	for i, v := range w.vars {
		m[v.Name] = vals[refs[i]]
	}
	return r, m
}

// model fetches values for all variables declared on this path, under pc && extra.
func (w *Worker) modelWith(extra *term.Term) (map[string]uint64, []string, bool) {
	w.S.Send("(push 1)\n")
	w.emitAssert(extra)
	defer w.S.Send("(pop 1)\n")
	order := make([]string, len(w.vars))
	for i, v := range w.vars {
		order[i] = v.Name
	}
	if r := w.S.Check(); r != solver.Sat {
		if r == solver.Unknown {
			if r2, m := w.checkFresh(extra, true); r2 == solver.Sat {
				w.S.Stats.Unknown--
				return m, order, true
			}
		}
		return nil, nil, false
	}
	refs := make([]string, len(w.vars))
	var decl strings.Builder
	for _, v := range w.vars {
		w.TF.Emit(&decl, v) // variables not yet mentioned in any assertion still need a declaration
	}
	if decl.Len() > 0 {
		w.S.Send(decl.String())
		if w.S.Check() != solver.Sat {
			return nil, nil, false
		}
	}
	for i, v := range w.vars {
		refs[i] = "|" + v.Name + "|"
		order[i] = v.Name
	}
	vals, err := w.S.GetValues(refs)
	if err != nil {
		w.S.LastError = err.Error()
		return nil, nil, false
	}
	m := map[string]uint64{}
	for i, v := range w.vars {
		m[v.Name] = vals[refs[i]]
		_ = i
	}
	return m, order, true
}

// ---------- decisions ----------

func (w *Worker) nextDecision() (Decision, bool) {
	i := len(w.decisions)
	if i < len(w.prefix) {
		d := w.prefix[i]
		w.decisions = append(w.decisions, d)
		if len(w.decisions) >= len(w.prefix) {
			w.replaying = false
		}
		return d, true
	}
	w.replaying = false
	return Decision{}, false
}

func (w *Worker) pushAlt(alt Decision) {
	p := make([]Decision, len(w.decisions)+1)
	copy(p, w.decisions)
	p[len(w.decisions)] = alt
	w.res.Alts = append(w.res.Alts, p)
}

// Branch decides a (possibly symbolic) condition, forking the exploration when
// both outcomes are feasible.
func (w *Worker) Branch(c *term.Term) bool {
	if b, ok := c.ConstBool(); ok {
		return b
	}
	if w.inInit > 0 {
		panic(pathAbort{"unsupported", "symbolic branch during package init"})
	}
	if w.inMerge > 0 {
		panic(mergeFail{"fork inside a merged loop"})
	}
	nc := w.TF.Not(c)
	if d, ok := w.nextDecision(); ok {
		if d.V != 0 {
			w.addPC(c)
			return true
		}
		w.addPC(nc)
		return false
	}
	rt := w.checkWith(c)
	if rt == solver.Unknown {
		w.res.Sites["$branch"].Unknown++
	}
	if rt == solver.Unsat {
		w.decisions = append(w.decisions, Decision{0})
		w.addPC(nc)
		return false
	}
	rf := w.checkWith(nc)
	if rf == solver.Unknown {
		w.res.Sites["$branch"].Unknown++
	}
	if rf == solver.Unsat {
		w.decisions = append(w.decisions, Decision{1})
		w.addPC(c)
		return true
	}
	w.pushAlt(Decision{0})
	w.decisions = append(w.decisions, Decision{1})
	w.addPC(c)
	return true
}

// Concretize splits a symbolic term into its feasible concrete values (at most
// max of them; more is an unwinding failure).
func (w *Worker) Concretize(t *term.Term, what string, max int) uint64 {
	if t.IsConst() {
		return t.Val
	}
	for n := 0; ; n++ {
		if n >= max {
			panic(pathAbort{"unwind", fmt.Sprintf("concretize %s: more than %d values", what, max)})
		}
		var cand uint64
		if d, ok := w.nextDecision(); ok {
			cand = d.V
		} else {
			m, _, ok := w.modelOf(t)
			if !ok {
				panic(pathAbort{"unsupported", "concretize: no model for " + what})
			}
			cand = m
			w.decisions = append(w.decisions, Decision{cand})
		}
		if w.Branch(w.TF.Eq(t, w.TF.Const(t.W, cand))) {
			return cand
		}
	}
}

func (w *Worker) modelOf(t *term.Term) (uint64, string, bool) {
	var sb strings.Builder
	ref := w.TF.Emit(&sb, t)
	w.S.Send(sb.String())
	if w.S.Check() != solver.Sat {
		return 0, "", false
	}
	vals, err := w.S.GetValues([]string{ref})
	if err != nil {
		return 0, "", false
	}
	return vals[ref], ref, true
}

// ---------- path driver ----------

func (w *Worker) site(key, msg, pos string) *AssertSite {
	s := w.res.Sites[key]
	if s == nil {
		s = &AssertSite{Msg: msg, Pos: pos}
		w.res.Sites[key] = s
	}
	return s
}

// RunPath executes entry once following prefix, returning the result and any
// alternative prefixes discovered.
type globUndo struct {
	o *Obj
	v Value
}

func (w *Worker) RunPath(entry *ssa.Function, prefix []Decision) (res *PathResult) {
	// undo the previous path's writes to package-level variables
	w.restoring = true
	for i := len(w.globUndo) - 1; i >= 0; i-- {
		w.store(w.globUndo[i].o, w.globUndo[i].v)
	}
	w.restoring = false
	w.globUndo = w.globUndo[:0]
	w.pending = nil
	w.inGo = false
	w.globSaved = map[*Obj]bool{}
	w.prefix = prefix
	w.decisions = w.decisions[:0]
	w.pc = w.pc[:0]
	w.vars = w.vars[:0]
	w.varSeq = map[string]int{}
	w.steps = 0
	w.depth = 0
	w.tokenSeq = 0
	w.replaying = len(prefix) > 0
	w.locks = map[string]int{}
	w.eraser = map[string]map[string]bool{}
	w.eraserSeq = 0
	w.probeIn = false
	w.sql = nil
	w.sqlRows = map[*Obj]*sqlRowsState{}
	w.sqlTx = map[*Obj]*sqlTxState{}
	if w.sqlCache == nil {
		w.sqlCache = map[string]*sqlStmt{}
	}
	w.cur = nil
	w.hashCalls = w.hashCalls[:0]
	w.res = &PathResult{Sites: map[string]*AssertSite{}, Covers: map[string]int{}, Funcs: map[string]int{}, KnownHit: map[string]bool{}}
	w.res.Sites["$branch"] = &AssertSite{Msg: "branch feasibility"}
	w.res.Sites["$range"] = &AssertSite{Msg: "no-overflow obligations of Int-mode arithmetic"}
	w.res.Sites["$merge"] = &AssertSite{Msg: "ite-collapse side queries of merged loops"}
	w.inMerge = 0
	w.resetSolverPath()
	res = w.res
	defer func() {
		res.Steps = w.steps
		res.Decisions = len(w.decisions)
		res.Nondets = len(w.vars)
		if r := recover(); r != nil {
			switch r := r.(type) {
			case pathAbort:
				res.Kind, res.Msg = r.Kind, r.Msg
				if r.Kind == "unsupported" || r.Kind == "unwind" || r.Kind == "budget" {
					res.Msg += " [at " + w.targetStack() + "]"
				}
			case targetPanic:
				// an uncaught Go panic in the code under test
				res.Kind = "panic"
				res.Msg = "uncaught panic: " + w.panicString(r.V)
				w.reportViolation("panic", res.Msg, "", w.TF.True, "")
			default:
				res.Kind = "internal"
				res.Msg = fmt.Sprintf("engine error: %v\n  target stack: %s\n%s", r, w.targetStack(), shortStack())
			}
		}
		if len(w.pc) > 0 && res.SamplePC == "" {
			res.SamplePC = w.pc[len(w.pc)-1].String()
			if len(res.SamplePC) > 400 {
				res.SamplePC = res.SamplePC[:400] + "…"
			}
		}
	}()
	w.call(nil, entry, nil, nil)
	w.runPending()
	res.Kind = "ok"
	return res
}

func (w *Worker) panicString(v Value) string {
	if iv, ok := v.(IfaceV); ok {
		if iv.T == nil {
			return "nil"
		}
		if s, ok := iv.V.(*StrV); ok {
			if c, ok := s.Concrete(); ok {
				return c
			}
			if s.Opaque != nil {
				return "fmt:" + s.Opaque.Fmt
			}
		}
		if p, ok := iv.V.(PtrV); ok && p.O != nil {
			return fmt.Sprintf("%s %s", iv.T, describe(w.load(p.O)))
		}
		return fmt.Sprintf("%s %s", iv.T, describe(iv.V))
	}
	return describe(v)
}

func (w *Worker) reportViolation(kind, msg, pos string, negCond *term.Term, known string) {
	v := Violation{Msg: msg, Pos: pos, Kind: kind, Known: known, Prefix: append([]Decision(nil), w.decisions...)}
	if w.P.Probe != "" && w.probeIn {
		v.Known = w.P.Probe
	}
	if w.S != nil {
		m, order, ok := w.modelWith(negCond)
		if ok {
			v.Model, v.Order = m, order
		} else {
			v.Extra = map[string]string{"model_error": w.S.LastError}
		}
	} else {
		v.Model = w.P.Replay
	}
	w.res.Violations = append(w.res.Violations, v)
}

func shortStack() string {
	buf := make([]byte, 1<<16)
	n := runtimeStack(buf)
	lines := strings.Split(string(buf[:n]), "\n")
	var out []string
	for i := 0; i+1 < len(lines) && len(out) < 8; i++ {
		l := lines[i]
		if strings.HasPrefix(l, "gosmt/sym.") && !strings.Contains(l, "run.func1") && !strings.Contains(l, "runtimeStack") && !strings.Contains(l, "shortStack") && !strings.Contains(l, "RunPath.func1") {
			out = append(out, "    "+l+" "+strings.TrimSpace(lines[i+1]))
		}
	}
	return strings.Join(out, "\n")
}

// targetStack renders the call stack of the code under test.
func (w *Worker) targetStack() string {
	var parts []string
	for f := w.cur; f != nil && len(parts) < 12; f = f.caller {
		parts = append(parts, f.fn.String())
	}
	return strings.Join(parts, " <- ")
}

// ---------- exploration ----------

type EntryResult struct {
	Func         string
	Paths        int
	PathKinds    map[string]int
	Violations   []Violation
	Sites        map[string]*AssertSite
	Covers       map[string]int
	Steps        int
	MaxDecisions int
	Funcs        map[string]int
	Aborts       []string
	GlobalMut    []string
	KnownHit     map[string]bool
	Solver       solver.Stats
	Wall         time.Duration
	SamplePCs    []string
	Observes     []string
	LockViol     []string
	Terms        int
	StandAlone   int // queries answered by the stand-alone (non-incremental) retry
}

// Explore runs all paths of entry on nworkers parallel workers.
func Explore(p *Program, entry *ssa.Function, nworkers int, maxPaths int) (*EntryResult, error) {
	start := time.Now()
	er := &EntryResult{Func: entry.Name(), PathKinds: map[string]int{}, Sites: map[string]*AssertSite{}, Covers: map[string]int{}, Funcs: map[string]int{}, KnownHit: map[string]bool{}}
	type job struct{ prefix []Decision }
	work := [][]Decision{{}}
	pending := 0
	results := make(chan *PathResult)
	jobs := make(chan []Decision)
	workers := make([]*Worker, 0, nworkers)
	for i := 0; i < nworkers; i++ {
		w, err := NewWorker(p, i)
		if err != nil {
			return nil, err
		}
		workers = append(workers, w)
		go func(w *Worker) {
			for pf := range jobs {
				results <- w.RunPath(entry, pf)
			}
		}(w)
	}
	defer func() {
		close(jobs)
		for _, w := range workers {
			if w.S != nil {
				st := w.S.Stats
				er.Solver.Queries += st.Queries
				er.Solver.Sat += st.Sat
				er.Solver.Unsat += st.Unsat
				er.Solver.Unknown += st.Unknown
				er.Solver.Errors += st.Errors
				er.Solver.Time += st.Time
				if st.MaxQuery > er.Solver.MaxQuery {
					er.Solver.MaxQuery = st.MaxQuery
				}
				if st.Errors > 0 && w.S.LastError != "" {
					er.Aborts = append(er.Aborts, "solver error: "+w.S.LastError)
				}
			}
			if w.S2 != nil {
				st := w.S2.Stats
				er.Solver.Queries += st.Queries
				er.Solver.Sat += st.Sat
				er.Solver.Unsat += st.Unsat
				er.Solver.Time += st.Time
				er.Solver.Errors += st.Errors
				er.StandAlone += st.Queries
				if st.MaxQuery > er.Solver.MaxQuery {
					er.Solver.MaxQuery = st.MaxQuery
				}
			}
			er.Terms += w.TF.NumTerms()
			w.Close()
		}
		er.Wall = time.Since(start)
	}()
	seenViol := map[string]int{}
	for len(work) > 0 || pending > 0 {
		var send chan []Decision
		var next []Decision
		if len(work) > 0 && (maxPaths <= 0 || er.Paths+pending < maxPaths) {
			send = jobs
			next = work[len(work)-1]
		}
		if send == nil && pending == 0 {
			er.Aborts = append(er.Aborts, fmt.Sprintf("path budget %d exhausted with %d prefixes left", maxPaths, len(work)))
			er.PathKinds["budget"]++
			break
		}
		select {
		case send <- next:
			work = work[:len(work)-1]
			pending++
		case r := <-results:
			pending--
			er.Paths++
			er.PathKinds[r.Kind]++
			er.Steps += r.Steps
			if r.Decisions > er.MaxDecisions {
				er.MaxDecisions = r.Decisions
			}
			work = append(work, r.Alts...)
			for k, s := range r.Sites {
				d := er.Sites[k]
				if d == nil {
					d = &AssertSite{Msg: s.Msg, Pos: s.Pos}
					er.Sites[k] = d
				}
				d.Trivial += s.Trivial
				d.Discharged += s.Discharged
				d.Violated += s.Violated
				d.Unknown += s.Unknown
			}
			for k, n := range r.Covers {
				er.Covers[k] += n
			}
			for k, n := range r.Funcs {
				er.Funcs[k] += n
			}
			for k := range r.KnownHit {
				er.KnownHit[k] = true
			}
			for _, v := range r.Violations {
				key := v.Kind + "|" + v.Msg + "|" + v.Known
				seenViol[key]++
				if seenViol[key] <= 3 {
					er.Violations = append(er.Violations, v)
				}
			}
			er.GlobalMut = append(er.GlobalMut, r.GlobalMut...)
			er.LockViol = append(er.LockViol, r.LockViol...)
			if len(er.Observes) < 50 {
				er.Observes = append(er.Observes, r.Observes...)
			}
			switch r.Kind {
			case "ok", "assume", "violation", "panic":
			default:
				if len(er.Aborts) < 20 {
					er.Aborts = append(er.Aborts, r.Kind+": "+r.Msg)
				}
			}
			if r.SamplePC != "" && len(er.SamplePCs) < 3 {
				er.SamplePCs = append(er.SamplePCs, r.SamplePC)
			}
		}
	}
	sort.Strings(er.GlobalMut)
	er.GlobalMut = uniq(er.GlobalMut)
	er.LockViol = uniq(er.LockViol)
	return er, nil
}

func uniq(s []string) []string {
	sort.Strings(s)
	var out []string
	for i, x := range s {
		if i == 0 || x != s[i-1] {
			out = append(out, x)
		}
	}
	return out
}

// ---------- globals and package init ----------

func (w *Worker) global(g *ssa.Global) *Obj {
	if o, ok := w.globals[g]; ok {
		return o
	}
	w.inInit++
	o := w.newObj(deref(g.Type()))
	w.inInit--
	o.Glob = true
	w.globals[g] = o
	w.ensureInit(g.Pkg)
	return o
}

func (w *Worker) ensureInit(pkg *ssa.Package) {
	if pkg == nil || w.initDone[pkg] {
		return
	}
	w.initDone[pkg] = true
	initFn := pkg.Func("init")
	if initFn == nil || initFn.Blocks == nil {
		return
	}
	// make sure every global of the package has storage before init runs
	for _, m := range pkg.Members {
		if g, ok := m.(*ssa.Global); ok {
			if _, ok := w.globals[g]; !ok {
				w.inInit++
				o := w.newObj(deref(g.Type()))
				w.inInit--
				o.Glob = true
				w.globals[g] = o
			}
		}
	}
	w.inInit++
	savedDepth := w.depth
	defer func() {
		w.inInit--
		w.depth = savedDepth
		if r := recover(); r != nil {
			switch r := r.(type) {
			case pathAbort:
				if w.P.Trace {
					fmt.Fprintf(os.Stderr, "init of %s incomplete: %s: %s\n", pkg.Pkg.Path(), r.Kind, r.Msg)
				}
				initWarnings.Store(pkg.Pkg.Path(), r.Kind+": "+r.Msg)
			case targetPanic:
				initWarnings.Store(pkg.Pkg.Path(), "panic: "+w.panicString(r.V))
			default:
				// an engine limitation inside an initialiser: the remaining
				// globals of that package stay zero (reported as a warning)
				initWarnings.Store(pkg.Pkg.Path(), fmt.Sprintf("engine: %v", r))
			}
		}
	}()
	w.call(nil, initFn, nil, nil)
}

var _ = types.Typ
