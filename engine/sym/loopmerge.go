package sym

// Guarded merging of pure loops whose exit test is symbolic (e.g.
// `for vec != 0 { if vec&1 != 0 { sum ^= mat[i] }; vec >>= 1; i++ }`).
//
// Instead of forking once per possible trip count, the loop is executed
// unconditionally until its exit becomes certain; the values that are live at
// the header are snapshotted at every iteration k together with the exit
// condition e_k, and the values seen after the loop are
//
//	ite(e_0, v_0, ite(e_1, v_1, ... v_K))
//
// (first true exit wins, exactly the loop's semantics). The ite-collapse rule
// replaces ite(e_k, v_k, rest) by rest when the side query pc ∧ e_k ∧ v_k ≠ v_K
// is unsat; it is sound for any code and keeps GF(2) terms linear.

import (
	"go/token"

	"gosmt/solver"
	"gosmt/term"

	"golang.org/x/tools/go/ssa"
)

type mergeFail struct{ why string }

type loopInfo struct {
	ok      bool
	blocks  map[*ssa.BasicBlock]bool
	bodyIdx int // index in header.Succs that stays in the loop
}

var loopCache = map[*ssa.BasicBlock]*loopInfo{}
var loopCacheMu = make(chan struct{}, 1)

func analyzeLoop(h *ssa.BasicBlock) *loopInfo {
	loopCacheMu <- struct{}{}
	defer func() { <-loopCacheMu }()
	if li, ok := loopCache[h]; ok {
		return li
	}
	li := &loopInfo{}
	loopCache[h] = li
	if len(h.Succs) != 2 {
		return li
	}
	// natural loop of all back edges into h
	blocks := map[*ssa.BasicBlock]bool{h: true}
	var work []*ssa.BasicBlock
	for _, p := range h.Preds {
		if h.Dominates(p) && p != h {
			if !blocks[p] {
				blocks[p] = true
				work = append(work, p)
			}
		} else if p == h {
			return li // self loop: not handled
		}
	}
	if len(work) == 0 {
		return li
	}
	for len(work) > 0 {
		b := work[len(work)-1]
		work = work[:len(work)-1]
		for _, p := range b.Preds {
			if !blocks[p] {
				blocks[p] = true
				work = append(work, p)
			}
		}
	}
	in0, in1 := blocks[h.Succs[0]], blocks[h.Succs[1]]
	if in0 == in1 {
		return li
	}
	li.bodyIdx = 1
	if in0 {
		li.bodyIdx = 0
	}
	ninstr := 0
	for b := range blocks {
		if b != h {
			for _, s := range b.Succs {
				if !blocks[s] {
					return li // another exit
				}
			}
		}
		for _, in := range b.Instrs {
			ninstr++
			switch in := in.(type) {
			case *ssa.Phi, *ssa.BinOp, *ssa.Convert, *ssa.ChangeType, *ssa.IndexAddr, *ssa.Index,
				*ssa.FieldAddr, *ssa.Field, *ssa.Jump, *ssa.If, *ssa.DebugRef, *ssa.Extract:
			case *ssa.UnOp:
				if in.Op == token.ARROW {
					return li
				}
			default:
				return li
			}
		}
	}
	if ninstr > 80 {
		return li
	}
	li.ok = true
	li.blocks = blocks
	return li
}

type loopSnap struct {
	exit *term.Term
	vals map[ssa.Value]Value
}

// tryMergeLoop is called at a header's If with symbolic condition ct.
func (w *Worker) tryMergeLoop(fr *frame, instr *ssa.If, ct *term.Term) (merged bool) {
	if w.P.MergeOff || w.inMerge > 0 {
		return false
	}
	h := fr.block
	li := analyzeLoop(h)
	if !li.ok {
		return false
	}
	// header-defined values (live-outs)
	var hvals []ssa.Value
	for _, in := range h.Instrs {
		if v, ok := in.(ssa.Value); ok {
			hvals = append(hvals, v)
		}
	}
	savedEnv := make(map[ssa.Value]Value, len(fr.env))
	for k, v := range fr.env {
		savedEnv[k] = v
	}
	savedPrev, savedSteps := fr.prevBlock, w.steps
	restore := func() {
		fr.env = savedEnv
		fr.block, fr.prevBlock = h, savedPrev
		w.steps = savedSteps
	}
	w.inMerge++
	defer func() {
		w.inMerge--
		if r := recover(); r != nil {
			if _, ok := r.(mergeFail); ok {
				restore()
				merged = false
				return
			}
			panic(r)
		}
	}()
	tf := w.TF
	snap := func() map[ssa.Value]Value {
		m := make(map[ssa.Value]Value, len(hvals))
		for _, v := range hvals {
			if x, ok := fr.env[v]; ok {
				m[v] = x
			}
		}
		return m
	}
	var snaps []loopSnap
	guard := tf.True
	exitIdx := 1 - li.bodyIdx
	cond := ct
	// runIter executes one iteration; a failure inside it (something the merge
	// cannot handle) is only fatal if the loop can still be running there.
	runIter := func() (ok bool) {
		defer func() {
			if r := recover(); r != nil {
				if _, isFail := r.(mergeFail); isFail && len(snaps) > 0 && w.checkWithRaw(guard) == solver.Unsat {
					ok = false
					return
				}
				panic(r)
			}
		}()
		fr.prevBlock, fr.block = h, h.Succs[li.bodyIdx]
		for fr.block != h {
			if !li.blocks[fr.block] {
				panic(mergeFail{"left the loop"})
			}
			nonPhis := fr.executePhis()
			for _, in := range nonPhis {
				w.steps++
				fr.nInstr++
				if fr.visit(in) == kReturn {
					panic(mergeFail{"return inside loop"})
				}
			}
		}
		nonPhis := fr.executePhis()
		for _, in := range nonPhis {
			if in == ssa.Instruction(instr) {
				break
			}
			w.steps++
			fr.nInstr++
			fr.visit(in)
		}
		return true
	}
	for iter := 0; ; iter++ {
		if iter > 1024 {
			panic(mergeFail{"too many iterations"})
		}
		exitCond := cond
		if exitIdx == 1 {
			exitCond = tf.Not(cond)
		}
		if exitCond.IsTrue() {
			break
		}
		if !exitCond.IsFalse() {
			guard = tf.And(guard, tf.Not(exitCond))
			if guard.IsFalse() {
				break
			}
			snaps = append(snaps, loopSnap{exitCond, snap()})
		}
		before := snap()
		if !runIter() {
			// the loop cannot reach this iteration: the exit happened earlier
			for k, v := range before {
				fr.env[k] = v
			}
			break
		}
		c, ok := fr.get(instr.Cond).(*term.Term)
		if !ok {
			panic(mergeFail{"non-boolean condition"})
		}
		cond = c
	}
	// merge the live-outs that are used after the loop
	final := snap()
	for _, v := range hvals {
		fv, ok := final[v]
		if !ok {
			continue
		}
		usedOutside := false
		for _, ref := range *v.Referrers() {
			if !li.blocks[ref.Block()] {
				usedOutside = true
			}
		}
		if !usedOutside {
			continue
		}
		ft, scalar := fv.(*term.Term)
		if !scalar {
			for k := range snaps {
				if !sameValue(snaps[k].vals[v], fv) {
					panic(mergeFail{"non-scalar live-out differs"})
				}
			}
			continue
		}
		// ite-collapse by an adjacent-step argument: if leaving at k implies
		// (a) the exit condition still holds at k+1 and (b) the value does not
		// change from k to k+1, then leaving at any k yields the final value.
		vals := make([]*term.Term, len(snaps)+1)
		for k := range snaps {
			st, ok := snaps[k].vals[v].(*term.Term)
			if !ok || st.W != ft.W {
				panic(mergeFail{"live-out kind differs"})
			}
			vals[k] = st
		}
		vals[len(snaps)] = ft
		collapsed := true
		for k := range snaps {
			w.res.Sites["$merge"].Trivial++
			// solver-free step: rewrite both sides under "bits hi..lo of x are zero"
			if x, hi, lo, ok := tf.ZeroBitsFact(snaps[k].exit); ok {
				memo := map[int]*term.Term{}
				same := tf.AssumeZeroBits(vals[k], x, hi, lo, memo) == tf.AssumeZeroBits(vals[k+1], x, hi, lo, memo)
				stays := k+1 >= len(snaps) || tf.AssumeZeroBits(snaps[k+1].exit, x, hi, lo, memo).IsTrue()
				if same && stays {
					w.res.Sites["$merge"].Discharged++
					continue
				}
				// GF(2) linear algebra: e_k: x == 0 implies v_k ^ v_{k+1} == 0 and the next exit condition
				if lo == 0 && hi == x.W-1 && vals[k].W > 0 {
					same = tf.LinImplied(x, tf.BVXor(vals[k], vals[k+1]))
					stays = k+1 >= len(snaps)
					if !stays {
						if x2, hi2, lo2, ok2 := tf.ZeroBitsFact(snaps[k+1].exit); ok2 && lo2 == 0 && hi2 == x2.W-1 {
							stays = tf.LinImplied(x, x2)
						}
					}
					if same && stays {
						w.res.Sites["$merge"].Discharged++
						continue
					}
				}
			}
			if vals[k] != vals[k+1] && w.checkWithRaw(tf.And(snaps[k].exit, tf.Not(tf.Eq(vals[k], vals[k+1])))) != solver.Unsat {
				collapsed = false
				break
			}
			if k+1 < len(snaps) && w.checkWithRaw(tf.And(snaps[k].exit, tf.Not(snaps[k+1].exit))) != solver.Unsat {
				collapsed = false
				break
			}
			w.res.Sites["$merge"].Discharged++
		}
		if collapsed {
			continue
		}
		res := ft
		for k := len(snaps) - 1; k >= 0; k-- {
			st := snaps[k].vals[v].(*term.Term)
			if st == res {
				continue
			}
			if w.checkWithRaw(tf.And(snaps[k].exit, tf.Not(tf.Eq(st, res)))) == solver.Unsat {
				continue
			}
			res = tf.Ite(snaps[k].exit, st, res)
		}
		fr.env[v] = res
	}
	fr.prevBlock, fr.block = h, h.Succs[exitIdx]
	w.res.Covers["$loop-merged"]++
	return true
}

// checkWithRaw is checkWith that also works while replaying a prefix (merge
// side queries are not recorded as decisions, so they are re-asked).
func (w *Worker) checkWithRaw(extra *term.Term) solver.Result {
	if extra.IsFalse() {
		return solver.Unsat
	}
	if w.S == nil {
		panic(mergeFail{"no solver"})
	}
	r := w.checkWith(extra)
	if r == solver.Unknown {
		w.res.Sites["$branch"].Unknown++
	}
	return r
}
