package sym

import (
	"go/token"
	"math"

	"gosmt/solver"
	"gosmt/term"

	"golang.org/x/tools/go/ssa"
)

// SymFloat is a float64 whose IEEE-754 bit pattern is a (symbolic) 64-bit term.
// Concrete floats stay FloatV; a SymFloat appears when a symbolic integer is
// converted to float64 and propagates through arithmetic, comparisons, the
// conversion back to int64 and the math.Pow / math.IsInf summaries below.
// float32 is not modelled symbolically.
type SymFloat struct{ B *term.Term }

func (w *Worker) fbits(v Value) (*term.Term, bool) {
	switch x := v.(type) {
	case SymFloat:
		return x.B, true
	case FloatV:
		return w.TF.Const(64, math.Float64bits(float64(x))), true
	}
	return nil, false
}

// floatBinop handles arithmetic and ordered comparison when at least one
// operand is a SymFloat; ok=false means "not a float operation".
func (w *Worker) floatBinop(op token.Token, x, y Value) (Value, bool) {
	_, sx := x.(SymFloat)
	_, sy := y.(SymFloat)
	if !sx && !sy {
		return nil, false
	}
	a, ok1 := w.fbits(x)
	b, ok2 := w.fbits(y)
	if !ok1 || !ok2 {
		return nil, false
	}
	tf := w.TF
	switch op {
	case token.MUL:
		return SymFloat{tf.FBin(term.OpFMul, a, b)}, true
	case token.ADD:
		return SymFloat{tf.FBin(term.OpFAdd, a, b)}, true
	case token.SUB:
		return SymFloat{tf.FBin(term.OpFSub, a, b)}, true
	case token.QUO:
		return SymFloat{tf.FBin(term.OpFDiv, a, b)}, true
	case token.LSS:
		return tf.FBin(term.OpFLt, a, b), true
	case token.LEQ:
		return tf.FBin(term.OpFLe, a, b), true
	case token.GTR:
		return tf.FBin(term.OpFLt, b, a), true
	case token.GEQ:
		return tf.FBin(term.OpFLe, b, a), true
	case token.EQL:
		return tf.FBin(term.OpFEq, a, b), true
	case token.NEQ:
		return tf.Not(tf.FBin(term.OpFEq, a, b)), true
	}
	return nil, false
}

func init() {
	// math.IsInf(f, sign) on the bit pattern.
	reg(func(w *Worker, _ *frame, _ *ssa.Function, a []Value) Value {
		tf := w.TF
		sign := w.concInt(a[1], "math.IsInf sign")
		bits, ok := w.fbits(a[0])
		if !ok {
			panic(pathAbort{"unsupported", "math.IsInf of a non-float"})
		}
		pos := tf.Eq(bits, tf.Const(64, 0x7ff0000000000000))
		neg := tf.Eq(bits, tf.Const(64, 0xfff0000000000000))
		switch {
		case sign > 0:
			return pos
		case sign < 0:
			return neg
		}
		return tf.Or(pos, neg)
	}, "math.IsInf")
	reg(func(w *Worker, _ *frame, _ *ssa.Function, a []Value) Value {
		bits, ok := w.fbits(a[0])
		if !ok {
			panic(pathAbort{"unsupported", "math.IsNaN of a non-float"})
		}
		return w.TF.Not(w.TF.FBin(term.OpFEq, bits, bits))
	}, "math.IsNaN")
	// math.Pow: concrete arguments are computed; otherwise only the base 2 with
	// an exponent that is (provably, per path) integer-valued in [-1022, ...] is
	// summarised exactly: 2^n is the float with biased exponent n+1023 and a
	// zero fraction for n <= 1023 and +Inf above, which is what math.Pow
	// returns (Pow(2, n) is exact for integral n). Everything else aborts the
	// path as unsupported, so no unsound summary is ever used silently.
	reg(func(w *Worker, _ *frame, _ *ssa.Function, a []Value) Value {
		if x, ok := a[0].(FloatV); ok {
			if y, ok := a[1].(FloatV); ok {
				return FloatV(math.Pow(float64(x), float64(y)))
			}
		}
		x, ok := a[0].(FloatV)
		if !ok || float64(x) != 2 {
			panic(pathAbort{"unsupported", "math.Pow with a symbolic base or a base other than 2"})
		}
		yb, _ := w.fbits(a[1])
		tf := w.TF
		var n *term.Term
		if yb.Op == term.OpFFromS {
			// y = float64(k) for a 64-bit signed k: integer-valued by
			// construction; rounding (|k| > 2^53) is monotone and cannot cross
			// 1023, below which the conversion is exact, so k decides the result
			n = yb.Args[0]
			if !w.mustHold(tf.Sle(tf.Const(64, uint64(0xfffffffffffffc02)), n)) {
				panic(pathAbort{"unsupported", "math.Pow(2, float64(k)): k not provably >= -1022 on this path (subnormal results are not modelled)"})
			}
		} else {
			n = tf.FToS(yb)
			integral := tf.FBin(term.OpFEq, tf.FFromS(n), yb)
			lo := tf.Sle(tf.Const(64, uint64(0xfffffffffffffc02)), n) // -1022 <= n
			inRange := tf.And(integral, tf.And(lo, tf.Not(tf.Eq(n, tf.Const(64, 1<<63)))))
			if !w.mustHold(inRange) {
				panic(pathAbort{"unsupported", "math.Pow(2, y): y not provably an integer >= -1022 on this path"})
			}
		}
		big := tf.Slt(tf.Const(64, 1023), n)
		pat := tf.BVShl(tf.BVAdd(n, tf.Const(64, 1023)), tf.Const(64, 52))
		return SymFloat{tf.Ite(big, tf.Const(64, 0x7ff0000000000000), pat)}
	}, "math.Pow")
}

// mustHold reports whether pc => c, asking the solver when c is not constant.
func (w *Worker) mustHold(c *term.Term) bool {
	if c.IsTrue() {
		return true
	}
	if c.IsFalse() || w.P.Concrete {
		return false
	}
	if w.replaying {
		return true
	}
	return w.checkWith(w.TF.Not(c)) == solver.Unsat
}
