package sym

import (
	"fmt"
	"go/types"
	"strings"

	"gosmt/term"

	"golang.org/x/tools/go/ssa"
)

func nop(w *Worker, caller *frame, fn *ssa.Function, args []Value) Value {
	return w.zeroResults(fn)
}

func (w *Worker) bytesOf(v Value) []*term.Term {
	switch v := v.(type) {
	case *StrV:
		w.needStr(v)
		return v.B
	case SliceV:
		b := make([]*term.Term, v.Len)
		for i := range b {
			t, ok := w.load(w.kid(v.Arr, v.Off+i)).(*term.Term)
			if !ok {
				panic(pathAbort{"unsupported", "poisoned byte"})
			}
			b[i] = t
		}
		return b
	}
	panic(pathAbort{"unsupported", fmt.Sprintf("bytesOf %T", v)})
}

func (w *Worker) i64(v int) *term.Term { return w.TF.Const(64, uint64(int64(v))) }

// indexByte: first i with b[i]==c, as an ite chain (no forking).
func (w *Worker) indexByte(b []*term.Term, c *term.Term) *term.Term {
	tf := w.TF
	res := w.i64(-1)
	for i := len(b) - 1; i >= 0; i-- {
		res = tf.Ite(tf.Eq(b[i], c), w.i64(i), res)
	}
	return res
}

func (w *Worker) bytesEq(a, b []*term.Term) *term.Term {
	if len(a) != len(b) {
		return w.TF.False
	}
	r := w.TF.True
	for i := range a {
		r = w.TF.And(r, w.TF.Eq(a[i], b[i]))
	}
	return r
}

func init() {
	reg(func(w *Worker, _ *frame, _ *ssa.Function, a []Value) Value {
		return w.indexByte(w.bytesOf(a[0]), a[1].(*term.Term))
	}, "internal/bytealg.IndexByte", "internal/bytealg.IndexByteString")

	reg(func(w *Worker, _ *frame, _ *ssa.Function, a []Value) Value {
		tf := w.TF
		b, c := w.bytesOf(a[0]), a[1].(*term.Term)
		res := w.i64(-1)
		for i := 0; i < len(b); i++ {
			res = tf.Ite(tf.Eq(b[i], c), w.i64(i), res)
		}
		return res
	}, "internal/bytealg.LastIndexByte", "internal/bytealg.LastIndexByteString")

	reg(func(w *Worker, _ *frame, _ *ssa.Function, a []Value) Value {
		tf := w.TF
		b, c := w.bytesOf(a[0]), a[1].(*term.Term)
		res := tf.Const(64, 0)
		for i := range b {
			res = tf.BVAdd(res, tf.Ite(tf.Eq(b[i], c), tf.Const(64, 1), tf.Const(64, 0)))
		}
		return res
	}, "internal/bytealg.Count", "internal/bytealg.CountString")

	reg(func(w *Worker, _ *frame, _ *ssa.Function, a []Value) Value {
		return w.bytesEq(w.bytesOf(a[0]), w.bytesOf(a[1]))
	}, "internal/bytealg.Equal", "bytes.Equal")

	reg(func(w *Worker, _ *frame, _ *ssa.Function, a []Value) Value {
		tf := w.TF
		x, y := &StrV{B: w.bytesOf(a[0])}, &StrV{B: w.bytesOf(a[1])}
		lt := w.strLess(x, y, false)
		eq := w.strEq(x, y)
		return tf.Ite(lt, w.i64(-1), tf.Ite(eq, w.i64(0), w.i64(1)))
	}, "internal/bytealg.Compare", "internal/bytealg.CompareString", "bytes.Compare", "strings.Compare", "runtime.cmpstring")

	// Index of substring: ite chain over positions
	reg(func(w *Worker, _ *frame, _ *ssa.Function, a []Value) Value {
		tf := w.TF
		s, sub := w.bytesOf(a[0]), w.bytesOf(a[1])
		res := w.i64(-1)
		for i := len(s) - len(sub); i >= 0; i-- {
			res = tf.Ite(w.bytesEq(s[i:i+len(sub)], sub), w.i64(i), res)
		}
		return res
	}, "internal/bytealg.Index", "internal/bytealg.IndexString", "strings.Index", "bytes.Index")

	reg(func(w *Worker, _ *frame, _ *ssa.Function, a []Value) Value {
		s, p := w.bytesOf(a[0]), w.bytesOf(a[1])
		if len(p) > len(s) {
			return w.TF.False
		}
		return w.bytesEq(s[:len(p)], p)
	}, "strings.HasPrefix", "bytes.HasPrefix")

	reg(func(w *Worker, _ *frame, _ *ssa.Function, a []Value) Value {
		s, p := w.bytesOf(a[0]), w.bytesOf(a[1])
		if len(p) > len(s) {
			return w.TF.False
		}
		return w.bytesEq(s[len(s)-len(p):], p)
	}, "strings.HasSuffix", "bytes.HasSuffix")

	reg(func(w *Worker, _ *frame, _ *ssa.Function, a []Value) Value {
		n := int(w.Concretize(a[0].(*term.Term), "MakeNoZero", 8))
		arr := w.newArrayObj(types.Typ[types.Uint8], n)
		return SliceV{Arr: arr, Len: n, Cap: n}
	}, "internal/bytealg.MakeNoZero")

	reg(func(w *Worker, _ *frame, _ *ssa.Function, a []Value) Value { return a[0] },
		"internal/abi.NoEscape", "internal/abi.Escape")

	// ---- strings.Builder (avoids unsafe tricks) is executed from source; only
	// its copy check is neutralised
	reg(nop, "(*strings.Builder).copyCheck")

	// ---- sync ----
	reg(func(w *Worker, _ *frame, _ *ssa.Function, a []Value) Value {
		if p := a[0].(PtrV); p.O != nil {
			w.locks[lockKey(p.O)]++
		}
		return nil
	}, "(*sync.Mutex).Lock", "(*sync.RWMutex).Lock", "(*sync.RWMutex).RLock")
	reg(func(w *Worker, _ *frame, _ *ssa.Function, a []Value) Value {
		if p := a[0].(PtrV); p.O != nil {
			k := lockKey(p.O)
			if w.locks[k] <= 0 {
				panic(targetPanic{IfaceV{T: runtimeErrorType, V: w.mkStr("sync: unlock of unlocked mutex")}})
			}
			w.locks[k]--
		}
		return nil
	}, "(*sync.Mutex).Unlock", "(*sync.RWMutex).Unlock", "(*sync.RWMutex).RUnlock")
	reg(func(w *Worker, _ *frame, _ *ssa.Function, a []Value) Value {
		if p := a[0].(PtrV); p.O != nil {
			k := lockKey(p.O)
			if w.locks[k] > 0 {
				return w.TF.False
			}
			w.locks[k]++
		}
		return w.TF.True
	}, "(*sync.Mutex).TryLock", "(*sync.RWMutex).TryLock")
	reg(nop, "(*sync.WaitGroup).Add", "(*sync.WaitGroup).Done", "(*sync.WaitGroup).Wait",
		"(*sync.Cond).Broadcast", "(*sync.Cond).Signal", "(*sync.Pool).Put",
		"runtime.KeepAlive", "runtime.SetFinalizer", "runtime.Gosched", "runtime.GC",
		"sync.runtime_registerPoolCleanup", "sync.runtime_procPin", "sync.runtime_procUnpin",
		"internal/race.Acquire", "internal/race.Release", "internal/race.ReleaseMerge", "internal/race.Disable", "internal/race.Enable",
		"internal/race.Read", "internal/race.Write", "internal/race.ReadRange", "internal/race.WriteRange",
		"runtime.AddCleanup", "internal/godebug.(*Setting).IncNonDefault", "(*internal/godebug.Setting).IncNonDefault", "runtime.SetCrashOutput")
	reg(func(w *Worker, caller *frame, _ *ssa.Function, a []Value) Value {
		// (*sync.Once).Do(f): field "done" is the first field (atomic.Uint32 / uint32)
		p := a[0].(PtrV)
		flag := w.onceFlag(p.O)
		if t := flag.V.(*term.Term); t.IsConst() && t.Val != 0 {
			return nil
		}
		flag.V = w.TF.Const(flag.V.(*term.Term).W, 1)
		w.callValue(caller, a[1], nil)
		return nil
	}, "(*sync.Once).Do")
	reg(func(w *Worker, caller *frame, _ *ssa.Function, a []Value) Value {
		// (*sync.Pool).Get: always call New
		p := a[0].(PtrV)
		st := p.O.Typ.Underlying().(*types.Struct)
		for i := 0; i < st.NumFields(); i++ {
			if st.Field(i).Name() == "New" {
				nf := w.load(w.kid(p.O, i))
				if _, isNil := nf.(NilFunc); isNil {
					return IfaceV{}
				}
				return w.callValue(caller, nf, nil)
			}
		}
		return IfaceV{}
	}, "(*sync.Pool).Get")

	// ---- sync/atomic ----
	load := func(w *Worker, _ *frame, _ *ssa.Function, a []Value) Value { return w.loadPtr(a[0]) }
	store := func(w *Worker, _ *frame, _ *ssa.Function, a []Value) Value { w.storePtr(a[0], a[1]); return nil }
	add := func(w *Worker, _ *frame, _ *ssa.Function, a []Value) Value {
		v := w.TF.BVAdd(w.loadPtr(a[0]).(*term.Term), a[1].(*term.Term))
		w.storePtr(a[0], v)
		return v
	}
	swap := func(w *Worker, _ *frame, _ *ssa.Function, a []Value) Value {
		old := w.loadPtr(a[0])
		w.storePtr(a[0], a[1])
		return old
	}
	cas := func(w *Worker, _ *frame, _ *ssa.Function, a []Value) Value {
		old := w.loadPtr(a[0])
		if w.Branch(w.eqValues(old, a[1])) {
			w.storePtr(a[0], a[2])
			return w.TF.True
		}
		return w.TF.False
	}
	and := func(w *Worker, _ *frame, _ *ssa.Function, a []Value) Value {
		old := w.loadPtr(a[0]).(*term.Term)
		w.storePtr(a[0], w.TF.BVAnd(old, a[1].(*term.Term)))
		return old
	}
	or := func(w *Worker, _ *frame, _ *ssa.Function, a []Value) Value {
		old := w.loadPtr(a[0]).(*term.Term)
		w.storePtr(a[0], w.TF.BVOr(old, a[1].(*term.Term)))
		return old
	}
	for _, t := range []string{"Int32", "Int64", "Uint32", "Uint64", "Uintptr", "Pointer"} {
		reg(load, "sync/atomic.Load"+t)
		reg(store, "sync/atomic.Store"+t)
		reg(swap, "sync/atomic.Swap"+t)
		reg(cas, "sync/atomic.CompareAndSwap"+t)
		if t != "Pointer" {
			reg(add, "sync/atomic.Add"+t)
			reg(and, "sync/atomic.And"+t)
			reg(or, "sync/atomic.Or"+t)
		}
	}
	reg(load, "internal/runtime/atomic.Load", "internal/runtime/atomic.Load64", "internal/runtime/atomic.Loadp")

	// ---- logging / tracing / metrics: empty bodies ----
	reg(nop, "log/slog.Info", "log/slog.Warn", "log/slog.Error", "log/slog.Debug",
		"log/slog.InfoContext", "log/slog.WarnContext", "log/slog.ErrorContext", "log/slog.DebugContext",
		"(*log/slog.Logger).Info", "(*log/slog.Logger).Warn", "(*log/slog.Logger).Error", "(*log/slog.Logger).Debug",
		"(*log/slog.Logger).InfoContext", "(*log/slog.Logger).WarnContext", "(*log/slog.Logger).ErrorContext", "(*log/slog.Logger).DebugContext",
		"(*log/slog.Logger).Log", "log/slog.Log",
		"log.Printf", "log.Println", "log.Print", "(*log.Logger).Printf", "(*log.Logger).Println",
		"fmt.Printf", "fmt.Println", "fmt.Print", "fmt.Fprintf", "fmt.Fprintln", "fmt.Fprint")
	reg(func(w *Worker, _ *frame, fn *ssa.Function, a []Value) Value {
		return IfaceV{T: stubType, V: stubVal{}}
	}, "go.opentelemetry.io/otel.Tracer", "go.opentelemetry.io/otel.Meter", "go.opentelemetry.io/otel.GetTracerProvider",
		"go.opentelemetry.io/otel/trace.SpanFromContext")
	reg(func(w *Worker, _ *frame, fn *ssa.Function, a []Value) Value {
		return StructV{F: structZero(w, fn.Signature.Results().At(0).Type())}
	}, "log/slog.String", "log/slog.Int", "log/slog.Int64", "log/slog.Any", "log/slog.Bool", "log/slog.Duration", "log/slog.Uint64", "log/slog.Time", "log/slog.Group",
		"go.opentelemetry.io/otel/attribute.String", "go.opentelemetry.io/otel/attribute.Int", "go.opentelemetry.io/otel/attribute.Int64", "go.opentelemetry.io/otel/attribute.Bool")

	// ---- fmt ----
	reg(func(w *Worker, caller *frame, fn *ssa.Function, a []Value) Value {
		return w.sprintf(caller, w.fmtStr(a[0]), w.sliceVals(a[1]))
	}, "fmt.Sprintf")
	reg(func(w *Worker, caller *frame, fn *ssa.Function, a []Value) Value {
		vals := w.sliceVals(a[0])
		f := strings.TrimSpace(strings.Repeat("%v ", len(vals)))
		if fn.Name() == "Sprint" {
			f = strings.Repeat("%v", len(vals))
		}
		r := w.sprintf(caller, f, vals)
		if fn.Name() == "Sprintln" {
			if s, ok := r.(*StrV); ok && s.Opaque == nil {
				return &StrV{B: append(append([]*term.Term(nil), s.B...), w.TF.Byte('\n'))}
			}
		}
		return r
	}, "fmt.Sprint", "fmt.Sprintln")
	reg(func(w *Worker, caller *frame, fn *ssa.Function, a []Value) Value {
		format := w.fmtStr(a[0])
		vals := w.sliceVals(a[1])
		msg := w.sprintf(caller, format, vals)
		// find %w operands
		var wrapped []Value
		argi := 0
		for i := 0; i < len(format); i++ {
			if format[i] != '%' {
				continue
			}
			i++
			for i < len(format) && strings.IndexByte("+-# 0123456789.*", format[i]) >= 0 {
				i++
			}
			if i >= len(format) {
				break
			}
			if format[i] == '%' {
				continue
			}
			if format[i] == 'w' && argi < len(vals) {
				wrapped = append(wrapped, vals[argi])
			}
			argi++
		}
		fmtPkg := w.P.Prog.ImportedPackage("fmt")
		if len(wrapped) == 1 && fmtPkg != nil {
			if iv, ok := wrapped[0].(IfaceV); ok && iv.T != nil {
				wt := fmtPkg.Type("wrapError").Type()
				o := w.newObj(wt)
				w.store(w.kid(o, 0), msg)
				w.store(w.kid(o, 1), iv)
				return IfaceV{T: types.NewPointer(wt), V: PtrV{O: o}}
			}
		}
		if len(wrapped) > 1 {
			panic(pathAbort{"unsupported", "fmt.Errorf with several %w"})
		}
		errNew := w.P.Prog.ImportedPackage("errors").Func("New")
		return w.call(caller, errNew, []Value{msg}, nil)
	}, "fmt.Errorf")

	// ---- misc runtime-linked ----
	reg(func(w *Worker, _ *frame, fn *ssa.Function, a []Value) Value {
		panic(pathAbort{"unsupported", "time.Now (no redirect configured)"})
	}, "time.Now", "time.now", "time.runtimeNano", "time.Since", "time.Until")
	reg(nop, "time.Sleep")
	reg(func(w *Worker, _ *frame, fn *ssa.Function, a []Value) Value {
		return w.TF.Const(64, 8)
	}, "runtime.GOMAXPROCS", "runtime.NumCPU")
	reg(func(w *Worker, _ *frame, fn *ssa.Function, a []Value) Value {
		return w.mkStr("")
	}, "os.Getenv", "syscall.Getenv", "internal/godebug.(*Setting).Value", "(*internal/godebug.Setting).Value")
	reg(func(w *Worker, _ *frame, fn *ssa.Function, a []Value) Value {
		return w.TF.False
	}, "internal/godebug.(*Setting).Undocumented", "(*internal/godebug.Setting).Undocumented")
	reg(func(w *Worker, caller *frame, fn *ssa.Function, a []Value) Value {
		// errors.Is/As go through reflectlite for comparability; model directly
		return w.errorsIs(caller, a[0], a[1])
	}, "errors.Is")
	reg(func(w *Worker, _ *frame, fn *ssa.Function, a []Value) Value {
		iv := a[0].(IfaceV)
		return IfaceV{T: stubType, V: rtypeVal{iv.T}}
	}, "internal/reflectlite.TypeOf")
}

type rtypeVal struct{ T types.Type }

// RTypeMethod is a method of the reflectlite type descriptor stand-in.
type RTypeMethod struct {
	Name string
	T    types.Type
}

var stubType = types.NewNamed(types.NewTypeName(0, nil, "verifStubObject", nil), types.NewStruct(nil, nil), nil)

type stubVal struct{}

func structZero(w *Worker, t types.Type) []Value {
	if sv, ok := w.zero(t).(StructV); ok {
		return sv.F
	}
	return nil
}

func (w *Worker) onceFlag(o *Obj) *Obj {
	// find the first integer leaf (the "done" word) in declaration order
	var find func(o *Obj) *Obj
	find = func(o *Obj) *Obj {
		if o.Leaf {
			if t, ok := o.V.(*term.Term); ok && t.W > 0 {
				return o
			}
			return nil
		}
		for i := 0; i < o.N; i++ {
			if r := find(w.kid(o, i)); r != nil {
				return r
			}
		}
		return nil
	}
	if r := find(o); r != nil {
		return r
	}
	panic(pathAbort{"unsupported", "sync.Once layout"})
}

func (w *Worker) fmtStr(v Value) string { return w.concStr(v, "format string") }

func (w *Worker) sliceVals(v Value) []Value {
	s, ok := v.(SliceV)
	if !ok {
		return nil
	}
	out := make([]Value, s.Len)
	for i := range out {
		out[i] = w.load(w.kid(s.Arr, s.Off+i))
	}
	return out
}

// sprintf formats concretely when every operand is concrete and simple;
// otherwise the result is an opaque string that remembers its operands.
func (w *Worker) sprintf(caller *frame, format string, vals []Value) Value {
	native := make([]any, len(vals))
	ok := true
	for i, v := range vals {
		n, good := w.toNative(caller, v)
		if !good {
			ok = false
			break
		}
		native[i] = n
	}
	if ok {
		f := strings.ReplaceAll(format, "%w", "%v")
		return w.mkStr(fmt.Sprintf(f, native...))
	}
	w.opaqueID++
	return &StrV{Opaque: &Opaque{ID: w.opaqueID, Fmt: format, Args: vals}}
}

type nativeErr struct{ s string }

func (e nativeErr) Error() string { return e.s }

func (w *Worker) toNative(caller *frame, v Value) (any, bool) {
	iv, ok := v.(IfaceV)
	if !ok {
		return nil, false
	}
	if iv.T == nil {
		return nil, true
	}
	switch x := iv.V.(type) {
	case *term.Term:
		if !x.IsConst() {
			return nil, false
		}
		bw, signed, _ := intInfo(iv.T)
		if bw == 0 {
			return x.Val != 0, true
		}
		// Stringer / error on named integer types is ignored unless defined
		if m := w.findMethod(iv.T, "String"); m != nil {
			return w.callStringer(caller, m, iv.V)
		}
		switch {
		case signed && bw == 64:
			return x.Signed(), true
		case signed && bw == 32:
			return int32(x.Signed()), true
		case signed:
			return int(x.Signed()), true
		case bw == 8:
			return uint8(x.Val), true
		case bw == 32:
			return uint32(x.Val), true
		}
		return x.Val, true
	case *StrV:
		if m := w.findMethod(iv.T, "Error"); m != nil {
			return w.callStringer(caller, m, iv.V)
		}
		if m := w.findMethod(iv.T, "String"); m != nil {
			return w.callStringer(caller, m, iv.V)
		}
		s, ok := x.Concrete()
		return s, ok
	case FloatV:
		return float64(x), true
	case SliceV:
		if sl, ok := iv.T.Underlying().(*types.Slice); ok {
			if b, ok := sl.Elem().Underlying().(*types.Basic); ok && b.Kind() == types.Uint8 {
				s, ok := w.bytesToStr(x).Concrete()
				return []byte(s), ok
			}
		}
		return nil, false
	default:
		if m := w.findMethod(iv.T, "Error"); m != nil {
			return w.callStringer(caller, m, iv.V)
		}
		if m := w.findMethod(iv.T, "String"); m != nil {
			return w.callStringer(caller, m, iv.V)
		}
	}
	return nil, false
}

func (w *Worker) findMethod(t types.Type, name string) *ssa.Function {
	ms := w.P.Prog.MethodSets.MethodSet(t)
	for i := 0; i < ms.Len(); i++ {
		sel := ms.At(i)
		if sel.Obj().Name() == name {
			sig := sel.Type().(*types.Signature)
			if sig.Params().Len() == 0 && sig.Results().Len() == 1 && isString(sig.Results().At(0).Type()) {
				return w.P.Prog.MethodValue(sel)
			}
		}
	}
	return nil
}

func (w *Worker) callStringer(caller *frame, m *ssa.Function, recv Value) (any, bool) {
	r := w.call(caller, m, []Value{recv}, nil)
	s, ok := r.(*StrV)
	if !ok {
		return nil, false
	}
	c, ok := s.Concrete()
	if !ok {
		return nil, false
	}
	return nativeErr{c}, true
}

// errorsIs implements errors.Is without reflection: walk the Unwrap chain,
// compare with ==, honour Is methods.
func (w *Worker) errorsIs(caller *frame, errv, targetv Value) Value {
	tf := w.TF
	err, _ := errv.(IfaceV)
	target, _ := targetv.(IfaceV)
	if err.T == nil || target.T == nil {
		return tf.Bool(err.T == nil && target.T == nil)
	}
	comparable := types.Comparable(target.T)
	var walk func(e IfaceV, depth int) bool
	walk = func(e IfaceV, depth int) bool {
		if depth > 16 {
			panic(pathAbort{"unsupported", "errors.Is: chain too deep"})
		}
		for e.T != nil {
			if comparable && types.Identical(e.T, target.T) {
				if w.Branch(w.eqValues(e.V, target.V)) {
					return true
				}
			}
			if m := w.lookupMethodNamed(e.T, "Is"); m != nil && m.Signature.Params().Len() == 1 {
				r := w.call(caller, m, []Value{e.V, target}, nil)
				if w.Branch(r.(*term.Term)) {
					return true
				}
			}
			m := w.lookupMethodNamed(e.T, "Unwrap")
			if m == nil {
				return false
			}
			r := w.call(caller, m, []Value{e.V}, nil)
			switch r := r.(type) {
			case IfaceV:
				e = r
			case SliceV:
				for i := 0; i < r.Len; i++ {
					sub, _ := w.load(w.kid(r.Arr, r.Off+i)).(IfaceV)
					if sub.T != nil && walk(sub, depth+1) {
						return true
					}
				}
				return false
			default:
				return false
			}
		}
		return false
	}
	return tf.Bool(walk(err, 0))
}

func (w *Worker) lookupMethodNamed(t types.Type, name string) *ssa.Function {
	ms := w.P.Prog.MethodSets.MethodSet(t)
	for i := 0; i < ms.Len(); i++ {
		if ms.At(i).Obj().Name() == name {
			return w.P.Prog.MethodValue(ms.At(i))
		}
	}
	return nil
}

// StubMethod is a method of the generic stub object (tracers, spans, meters).
type StubMethod struct{ Sig *types.Signature }

func (w *Worker) stubResults(sig *types.Signature, args []Value) Value {
	res := sig.Results()
	out := make(TupleV, res.Len())
	for i := range out {
		rt := res.At(i).Type()
		switch {
		case rt.String() == "context.Context":
			out[i] = IfaceV{}
			for _, a := range args {
				if iv, ok := a.(IfaceV); ok && iv.T != nil && iv.T != stubType {
					if types.Implements(iv.T, rt.Underlying().(*types.Interface)) {
						out[i] = iv
						break
					}
				}
			}
		case types.IsInterface(rt) && rt.String() != "error":
			out[i] = IfaceV{T: stubType, V: stubVal{}}
		default:
			out[i] = w.zero(rt)
		}
	}
	switch len(out) {
	case 0:
		return nil
	case 1:
		return out[0]
	}
	return out
}

func init() {
	// sort.Slice / sort.SliceStable use reflection to swap; do a stable insertion
	// sort through the interpreter instead (less is the caller's closure).
	reg(func(w *Worker, caller *frame, fn *ssa.Function, a []Value) Value {
		iv, ok := a[0].(IfaceV)
		if !ok {
			panic(pathAbort{"unsupported", "sort.Slice on non-interface"})
		}
		s, ok := iv.V.(SliceV)
		if !ok {
			panic(pathAbort{"unsupported", "sort.Slice on non-slice"})
		}
		less := func(i, j int) bool {
			r := w.callValue(caller, a[1], []Value{w.i64(i), w.i64(j)})
			return w.Branch(r.(*term.Term))
		}
		for i := 1; i < s.Len; i++ {
			for j := i; j > 0 && less(j, j-1); j-- {
				x := w.kid(s.Arr, s.Off+j)
				y := w.kid(s.Arr, s.Off+j-1)
				vx, vy := w.load(x), w.load(y)
				w.store(x, vy)
				w.store(y, vx)
			}
		}
		return nil
	}, "sort.Slice", "sort.SliceStable")
}

func init() {
	// errors.As without reflection: walk the Unwrap chain, assign when the
	// dynamic type is assignable to the target's element type.
	reg(func(w *Worker, caller *frame, fn *ssa.Function, a []Value) Value {
		err, _ := a[0].(IfaceV)
		tgt, _ := a[1].(IfaceV)
		if tgt.T == nil {
			w.rtPanic("errors: target cannot be nil")
		}
		tp, ok := tgt.V.(PtrV)
		if !ok || tp.O == nil {
			w.rtPanic("errors: target must be a non-nil pointer")
		}
		et := deref(tgt.T)
		var walk func(e IfaceV, depth int) bool
		walk = func(e IfaceV, depth int) bool {
			for e.T != nil && depth < 16 {
				if it, isI := et.Underlying().(*types.Interface); isI {
					if types.Implements(e.T, it) {
						w.store(tp.O, e)
						return true
					}
				} else if types.Identical(e.T, et) {
					w.store(tp.O, e.V)
					return true
				}
				if m := w.lookupMethodNamed(e.T, "As"); m != nil && m.Signature.Params().Len() == 1 {
					r := w.call(caller, m, []Value{e.V, tgt}, nil)
					if w.Branch(r.(*term.Term)) {
						return true
					}
				}
				m := w.lookupMethodNamed(e.T, "Unwrap")
				if m == nil {
					return false
				}
				switch r := w.call(caller, m, []Value{e.V}, nil).(type) {
				case IfaceV:
					e = r
					depth++
				case SliceV:
					for i := 0; i < r.Len; i++ {
						sub, _ := w.load(w.kid(r.Arr, r.Off+i)).(IfaceV)
						if sub.T != nil && walk(sub, depth+1) {
							return true
						}
					}
					return false
				default:
					return false
				}
			}
			return false
		}
		return w.TF.Bool(walk(err, 0))
	}, "errors.As")
}

func init() {
	// ulid.Parse is written `return id, parse(v, false, &id)`: the gc compiler reads
	// the named result after the call, go/ssa before it (evaluation order of a
	// variable operand relative to a call is unspecified). Follow the compiler.
	parse := func(strict bool) intrinsic {
		return func(w *Worker, caller *frame, fn *ssa.Function, a []Value) Value {
			p := fn.Pkg.Func("parse")
			if p == nil {
				panic(pathAbort{"unsupported", "ulid.parse not found"})
			}
			idT := fn.Signature.Results().At(0).Type()
			o := w.newObj(idT)
			s := a[0].(*StrV)
			err := w.call(caller, p, []Value{w.strToBytes(s, types.Typ[types.Uint8]), w.TF.Bool(strict), PtrV{O: o}}, nil)
			return TupleV{w.load(o), err}
		}
	}
	reg(parse(false), "github.com/oklog/ulid/v2.Parse")
	reg(parse(true), "github.com/oklog/ulid/v2.ParseStrict")
}

func init() {
	// maps.clone is implemented in the runtime (linkname): shallow copy
	reg(func(w *Worker, caller *frame, fn *ssa.Function, a []Value) Value {
		iv, ok := a[0].(IfaceV)
		if !ok {
			panic(pathAbort{"unsupported", "maps.clone of non-interface"})
		}
		m, ok := iv.V.(*MapV)
		if !ok || m == nil {
			return iv
		}
		w.objSeq++
		c := &MapV{Keys: append([]Value(nil), m.Keys...), Vals: append([]Value(nil), m.Vals...), KT: m.KT, VT: m.VT, ID: w.objSeq, Glob: w.inInit > 0}
		return IfaceV{T: iv.T, V: c}
	}, "maps.clone")
}

func init() {
	// compiler intrinsic: 1 for true, 0 for false
	reg(func(w *Worker, _ *frame, _ *ssa.Function, a []Value) Value {
		b := a[0].(*term.Term)
		return w.TF.Ite(b, w.TF.Const(8, 1), w.TF.Const(8, 0))
	}, "crypto/internal/constanttime.boolToUint8")
}
