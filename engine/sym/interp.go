package sym

import (
	"fmt"
	"go/constant"
	"go/token"
	"go/types"
	"os"
	"runtime"
	"slices"
	"sync"

	"gosmt/term"

	"golang.org/x/tools/go/ssa"
)

var initWarnings sync.Map

func InitWarnings() map[string]string {
	m := map[string]string{}
	initWarnings.Range(func(k, v any) bool { m[k.(string)] = v.(string); return true })
	return m
}

func runtimeStack(buf []byte) int { return runtime.Stack(buf, false) }

type deferred struct {
	fn   Value
	args []Value
	pos  token.Pos
	tail *deferred
}

type frame struct {
	w                *Worker
	caller           *frame
	fn               *ssa.Function
	block, prevBlock *ssa.BasicBlock
	env              map[ssa.Value]Value
	defers           *deferred
	result           Value
	panicking        bool
	panic            any
	symIter          map[*ssa.BasicBlock]int
	nInstr           int
	depth            int
	skipPhis         bool
}

func (fr *frame) get(key ssa.Value) Value {
	switch key := key.(type) {
	case nil:
		return nil
	case *ssa.Function:
		return key
	case *ssa.Builtin:
		return key
	case *ssa.Const:
		return fr.w.constValue(key)
	case *ssa.Global:
		return PtrV{O: fr.w.global(key)}
	}
	if r, ok := fr.env[key]; ok {
		return r
	}
	panic(fmt.Sprintf("get: no value for %T: %v in %s", key, key.Name(), fr.fn))
}

func (w *Worker) constValue(c *ssa.Const) Value {
	t := c.Type()
	if c.Value == nil {
		return w.zero(t)
	}
	if tp, ok := t.(*types.TypeParam); ok {
		_ = tp
		return Poison{"const of type param"}
	}
	u := t.Underlying()
	if b, ok := u.(*types.Basic); ok {
		if bw, _, ok := intInfo(b); ok {
			if bw == 0 {
				return w.TF.Bool(constant.BoolVal(c.Value))
			}
			if i, exact := constant.Int64Val(constant.ToInt(c.Value)); exact {
				return w.TF.Const(bw, uint64(i))
			}
			if u, exact := constant.Uint64Val(constant.ToInt(c.Value)); exact {
				return w.TF.Const(bw, u)
			}
			return Poison{"big constant"}
		}
		switch {
		case b.Info()&types.IsString != 0:
			return w.mkStr(constant.StringVal(c.Value))
		case b.Info()&types.IsFloat != 0:
			f, _ := constant.Float64Val(c.Value)
			return FloatV(f)
		case b.Info()&types.IsComplex != 0:
			return Poison{"complex constant"}
		}
	}
	return Poison{"constant of type " + t.String()}
}

// ---------- calls ----------

func (fr *frame) prepareCall(call *ssa.CallCommon) (fn Value, args []Value) {
	v := fr.get(call.Value)
	if call.Method == nil {
		fn = v
	} else {
		recv, ok := v.(IfaceV)
		if !ok {
			if p, isP := v.(Poison); isP {
				panic(pathAbort{"unsupported", "method call on " + p.String()})
			}
			panic(fmt.Sprintf("invoke on %T", v))
		}
		if recv.T == nil {
			fr.w.rtPanic("invalid memory address or nil pointer dereference (method " + call.Method.Name() + " on nil interface)")
		}
		if rv, ok := recv.V.(sqlResultVal); ok {
			return sqlResultMethod{call.Method.Name(), rv.n}, nil
		}
		if rt, ok := recv.V.(rtypeVal); ok {
			return RTypeMethod{call.Method.Name(), rt.T}, nil
		}
		if recv.T == stubType {
			for _, a := range call.Args {
				args = append(args, fr.get(a))
			}
			return StubMethod{call.Method.Type().(*types.Signature)}, args
		}
		f := fr.w.P.Prog.LookupMethod(recv.T, call.Method.Pkg(), call.Method.Name())
		if f == nil {
			panic(fmt.Sprintf("method set of %v lacks %s", recv.T, call.Method))
		}
		fn = f
		args = append(args, recv.V)
	}
	for _, a := range call.Args {
		args = append(args, fr.get(a))
	}
	return
}

func (w *Worker) callValue(caller *frame, fn Value, args []Value) (result Value) {
	if w.inInit > 0 && caller != nil && caller.fn.Name() == "init" && caller.fn.Synthetic != "" {
		// a package initialiser keeps going when one of its initialising calls
		// cannot be modelled: that global becomes poison, the others are still set
		depth, cur := w.depth, w.cur
		defer func() {
			if r := recover(); r != nil {
				if _, isTarget := r.(targetPanic); isTarget {
					panic(r)
				}
				w.depth, w.cur = depth, cur
				initWarnings.Store(caller.fn.Pkg.Pkg.Path()+" (partial)", fmt.Sprint(r))
				result = Poison{"initialiser not modelled"}
			}
		}()
	}
	switch fn := fn.(type) {
	case *ssa.Function:
		return w.call(caller, fn, args, nil)
	case *Closure:
		return w.call(caller, fn.Fn, args, fn.Env)
	case *ssa.Builtin:
		return w.callBuiltin(caller, fn, args)
	case sqlResultMethod:
		return TupleV{w.TF.Const(64, uint64(fn.n)), IfaceV{}}
	case StubMethod:
		return w.stubResults(fn.Sig, args)
	case RTypeMethod:
		switch fn.Name {
		case "Comparable":
			return w.TF.Bool(fn.T != nil && types.Comparable(fn.T))
		case "String":
			if fn.T == nil {
				return w.mkStr("<nil>")
			}
			return w.mkStr(fn.T.String())
		}
		panic(pathAbort{"unsupported", "reflect type method " + fn.Name})
	case NilFunc:
		w.rtPanic("invalid memory address or nil pointer dereference (call of nil func)")
	case Poison:
		panic(pathAbort{"unsupported", "call of " + fn.String()})
	}
	panic(fmt.Sprintf("cannot call %T", fn))
}

func (w *Worker) call(caller *frame, fn *ssa.Function, args []Value, env []Value) Value {
	name := fn.String()
	if fn.Parent() == nil {
		if w.inInit > 0 && fn.Name() == "init" && fn.Signature.Recv() == nil && len(args) == 0 && caller != nil && fn.Synthetic != "" {
			// dependency initialisers run lazily, on first use of their globals
			return nil
		}
		if r, ok := w.P.Redirects[name]; ok && (caller == nil || caller.fn.Pkg != w.P.Harness || !isStubFunc(caller.fn)) {
			return w.call(caller, r, args, nil)
		}
		if in, ok := intrinsics[name]; ok {
			return in(w, caller, fn, args)
		}
		if o := fn.Origin(); o != nil && o != fn {
			if in, ok := intrinsics[o.String()]; ok {
				return in(w, caller, fn, args)
			}
		}
		if in := w.harnessIntrinsic(fn); in != nil {
			return in(w, caller, fn, args)
		}
	}
	if fn.Blocks == nil {
		panic(pathAbort{"unsupported", "no body for " + name})
	}
	if fn.TypeParams().Len() > 0 && len(fn.TypeArgs()) == 0 {
		panic(pathAbort{"unsupported", "uninstantiated generic " + name})
	}
	w.depth++
	if w.depth > w.P.MaxDepth {
		panic(pathAbort{"budget", "call depth exceeded at " + name})
	}
	fr := &frame{w: w, caller: caller, fn: fn, depth: w.depth}
	fr.env = make(map[ssa.Value]Value, 16)
	fr.block = fn.Blocks[0]
	for _, l := range fn.Locals {
		o := w.newObj(deref(l.Type()))
		fr.env[l] = PtrV{O: o}
	}
	if len(args) != len(fn.Params) {
		panic(fmt.Sprintf("call %s: %d args for %d params", name, len(args), len(fn.Params)))
	}
	for i, p := range fn.Params {
		fr.env[p] = args[i]
	}
	for i, fv := range fn.FreeVars {
		fr.env[fv] = env[i]
	}
	if w.P.Trace {
		fmt.Fprintf(os.Stderr, "%*s-> %s\n", w.depth, "", name)
	}
	w.cur = fr
	for fr.block != nil {
		fr.run()
	}
	w.cur = caller
	w.depth = fr.depth - 1
	if w.inInit == 0 {
		w.res.Funcs[name] += fr.nInstr
	}
	return fr.result
}

func isStubFunc(fn *ssa.Function) bool {
	n := fn.Name()
	return len(n) > 9 && n[:9] == "verifStub"
}

func (fr *frame) run() {
	defer func() {
		if fr.block == nil {
			return
		}
		r := recover()
		if _, isAbort := r.(pathAbort); isAbort {
			panic(r)
		}
		if _, isTarget := r.(targetPanic); !isTarget {
			panic(r) // engine bug
		}
		fr.panicking = true
		fr.panic = r
		fr.runDefers()
		fr.block = fr.fn.Recover
		fr.w.depth = fr.depth
		fr.w.cur = fr
		if fr.block == nil {
			// recovered, no named results: return zero values
			fr.result = fr.w.zeroResults(fr.fn)
		}
	}()
	for {
		nonPhis := fr.executePhis()
		for _, instr := range nonPhis {
			fr.w.steps++
			fr.nInstr++
			if fr.w.steps > fr.w.P.MaxSteps && fr.w.inInit == 0 {
				panic(pathAbort{"budget", fmt.Sprintf("instruction budget %d exceeded in %s", fr.w.P.MaxSteps, fr.fn)})
			}
			if fr.visit(instr) == kReturn {
				return
			}
		}
	}
}

func (w *Worker) zeroResults(fn *ssa.Function) Value {
	res := fn.Signature.Results()
	switch res.Len() {
	case 0:
		return nil
	case 1:
		return w.zero(res.At(0).Type())
	}
	return w.zero(res)
}

func (fr *frame) executePhis() []ssa.Instruction {
	first := 0
	if fr.skipPhis {
		fr.skipPhis = false
		for first < len(fr.block.Instrs) {
			if _, ok := fr.block.Instrs[first].(*ssa.Phi); !ok {
				break
			}
			first++
		}
		return fr.block.Instrs[first:]
	}
	for first < len(fr.block.Instrs) {
		if _, ok := fr.block.Instrs[first].(*ssa.Phi); !ok {
			break
		}
		first++
	}
	if first > 0 {
		pred := slices.Index(fr.block.Preds, fr.prevBlock)
		tmp := make([]Value, first)
		for i := 0; i < first; i++ {
			tmp[i] = fr.get(fr.block.Instrs[i].(*ssa.Phi).Edges[pred])
		}
		for i := 0; i < first; i++ {
			fr.env[fr.block.Instrs[i].(*ssa.Phi)] = tmp[i]
		}
	}
	return fr.block.Instrs[first:]
}

func (fr *frame) runDefer(d *deferred) {
	ok := false
	defer func() {
		if !ok {
			r := recover()
			if _, isAbort := r.(pathAbort); isAbort {
				panic(r)
			}
			if _, isTarget := r.(targetPanic); !isTarget {
				panic(r)
			}
			fr.panicking = true
			fr.panic = r
			fr.w.depth = fr.depth
			fr.w.cur = fr
		}
	}()
	fr.w.callValue(fr, d.fn, d.args)
	ok = true
}

func (fr *frame) runDefers() {
	for d := fr.defers; d != nil; d = d.tail {
		fr.runDefer(d)
	}
	fr.defers = nil
	if fr.panicking {
		panic(fr.panic)
	}
}

func (w *Worker) doRecover(caller *frame) Value {
	if caller != nil && !caller.panicking && caller.caller != nil && caller.caller.panicking {
		caller.caller.panicking = false
		p := caller.caller.panic
		caller.caller.panic = nil
		if tp, ok := p.(targetPanic); ok {
			return tp.V
		}
		panic(fmt.Sprintf("unexpected panic value %T", p))
	}
	return IfaceV{}
}

// rtPanic raises a Go runtime panic in the code under test.
func (w *Worker) rtPanic(msg string) {
	panic(targetPanic{IfaceV{T: runtimeErrorType, V: w.mkStr("runtime error: " + msg)}})
}

var runtimeErrorType = types.NewNamed(types.NewTypeName(token.NoPos, nil, "runtimeError", nil), types.Typ[types.String], nil)

type continuation int

const (
	kNext continuation = iota
	kReturn
	kJump
)

func (fr *frame) visit(instr ssa.Instruction) continuation {
	w := fr.w
	switch instr := instr.(type) {
	case *ssa.DebugRef:
	case *ssa.UnOp:
		fr.env[instr] = w.unop(instr, fr.get(instr.X))
	case *ssa.BinOp:
		fr.env[instr] = w.binop(instr.Op, instr.X.Type(), instr.Y.Type(), fr.get(instr.X), fr.get(instr.Y))
	case *ssa.Call:
		fn, args := fr.prepareCall(&instr.Call)
		fr.env[instr] = w.callValue(fr, fn, args)
	case *ssa.ChangeInterface:
		fr.env[instr] = fr.get(instr.X)
	case *ssa.ChangeType:
		fr.env[instr] = fr.get(instr.X)
	case *ssa.Convert:
		fr.env[instr] = w.conv(instr.Type(), instr.X.Type(), fr.get(instr.X))
	case *ssa.MultiConvert:
		fr.env[instr] = w.conv(instr.Type(), instr.X.Type(), fr.get(instr.X))
	case *ssa.SliceToArrayPointer:
		s := fr.get(instr.X).(SliceV)
		n := int(deref(instr.Type()).Underlying().(*types.Array).Len())
		if s.Len < n {
			w.rtPanic("cannot convert slice to array pointer: length too short")
		}
		if s.Arr == nil {
			fr.env[instr] = PtrV{}
		} else {
			fr.env[instr] = PtrV{O: w.subArray(s.Arr, s.Off, n)}
		}
	case *ssa.MakeInterface:
		fr.env[instr] = IfaceV{T: instr.X.Type(), V: fr.get(instr.X)}
	case *ssa.Extract:
		t := fr.get(instr.Tuple)
		if p, ok := t.(Poison); ok {
			fr.env[instr] = p
		} else {
			fr.env[instr] = t.(TupleV)[instr.Index]
		}
	case *ssa.Slice:
		fr.env[instr] = w.sliceOp(instr, fr.get(instr.X), fr.get(instr.Low), fr.get(instr.High), fr.get(instr.Max))
	case *ssa.Return:
		switch len(instr.Results) {
		case 0:
		case 1:
			fr.result = fr.get(instr.Results[0])
		default:
			res := make(TupleV, len(instr.Results))
			for i, r := range instr.Results {
				res[i] = fr.get(r)
			}
			fr.result = res
		}
		fr.block = nil
		return kReturn
	case *ssa.RunDefers:
		fr.runDefers()
	case *ssa.Panic:
		panic(targetPanic{fr.get(instr.X)})
	case *ssa.Send:
		w.chanSend(fr.get(instr.Chan), fr.get(instr.X))
	case *ssa.Store:
		w.storePtr(fr.get(instr.Addr), fr.get(instr.Val))
	case *ssa.If:
		c := fr.get(instr.Cond)
		ct, ok := c.(*term.Term)
		if !ok {
			panic(pathAbort{"unsupported", fmt.Sprintf("branch on %s in %s", describe(c), fr.fn)})
		}
		succ := 1
		if !ct.IsConst() {
			if w.tryMergeLoop(fr, instr, ct) {
				return kJump
			}
			if w.tryMerge(fr, instr, ct) {
				return kJump
			}
			if w.inMerge > 0 {
				panic(mergeFail{"symbolic branch inside a merged loop"})
			}
			if fr.symIter == nil {
				fr.symIter = map[*ssa.BasicBlock]int{}
			}
			fr.symIter[fr.block]++
			if fr.symIter[fr.block] > w.P.Unwind {
				panic(pathAbort{"unwind", fmt.Sprintf("more than %d symbolic iterations at %s (%s)", w.P.Unwind, w.P.Prog.Fset.Position(instr.Pos()), fr.fn)})
			}
		}
		if w.Branch(ct) {
			succ = 0
		}
		fr.prevBlock, fr.block = fr.block, fr.block.Succs[succ]
		return kJump
	case *ssa.Jump:
		fr.prevBlock, fr.block = fr.block, fr.block.Succs[0]
		return kJump
	case *ssa.Defer:
		fn, args := fr.prepareCall(&instr.Call)
		if instr.DeferStack != nil {
			panic(pathAbort{"unsupported", "defer stack (range-over-func)"})
		}
		fr.defers = &deferred{fn: fn, args: args, pos: instr.Pos(), tail: fr.defers}
	case *ssa.Go:
		w.goStmt(fr, instr)
	case *ssa.MakeChan:
		n := w.Concretize(fr.get(instr.Size).(*term.Term), "chan size", 4)
		w.objSeq++
		fr.env[instr] = &ChanV{Cap: int(n), ET: instr.Type().Underlying().(*types.Chan).Elem(), ID: w.objSeq}
	case *ssa.Alloc:
		if instr.Heap {
			fr.env[instr] = PtrV{O: w.newObj(deref(instr.Type()))}
		} else {
			// local: storage was created at frame entry; re-zero on each execution
			p := fr.env[instr].(PtrV)
			no := w.newObj(deref(instr.Type()))
			*p.O = *no
		}
	case *ssa.MakeSlice:
		ln := int(w.Concretize(fr.get(instr.Len).(*term.Term), "make len", 64))
		cp := int(w.Concretize(fr.get(instr.Cap).(*term.Term), "make cap", 64))
		if ln < 0 || cp < ln {
			w.rtPanic("makeslice: len out of range")
		}
		if cp > 1<<30 {
			panic(pathAbort{"unsupported", fmt.Sprintf("make of %d elements", cp)})
		}
		elem := instr.Type().Underlying().(*types.Slice).Elem()
		fr.env[instr] = SliceV{Arr: w.newArrayObj(elem, cp), Len: ln, Cap: cp}
	case *ssa.MakeMap:
		mt := instr.Type().Underlying().(*types.Map)
		w.objSeq++
		fr.env[instr] = &MapV{KT: mt.Key(), VT: mt.Elem(), ID: w.objSeq, Glob: w.inInit > 0}
	case *ssa.Range:
		fr.env[instr] = w.rangeIter(fr.get(instr.X))
	case *ssa.Next:
		fr.env[instr] = w.iterNext(fr.get(instr.Iter).(*IterV), instr)
	case *ssa.FieldAddr:
		p, ok := fr.get(instr.X).(PtrV)
		if !ok {
			panic(pathAbort{"unsupported", "FieldAddr of " + describe(fr.get(instr.X))})
		}
		if p.O == nil {
			if p.Arr != nil {
				panic(pathAbort{"unsupported", "field of symbolically indexed element"})
			}
			w.rtPanic("invalid memory address or nil pointer dereference")
		}
		fr.env[instr] = PtrV{O: w.kid(p.O, instr.Field)}
	case *ssa.Field:
		x := fr.get(instr.X)
		if p, ok := x.(Poison); ok {
			fr.env[instr] = p
		} else {
			fr.env[instr] = x.(StructV).F[instr.Field]
		}
	case *ssa.IndexAddr:
		fr.env[instr] = w.indexAddr(fr.get(instr.X), fr.get(instr.Index), instr.Index.Type())
	case *ssa.Index:
		fr.env[instr] = w.index(fr.get(instr.X), fr.get(instr.Index), instr.Index.Type())
	case *ssa.Lookup:
		fr.env[instr] = w.lookup(instr, fr.get(instr.X), fr.get(instr.Index))
	case *ssa.MapUpdate:
		w.mapUpdate(fr.get(instr.Map), fr.get(instr.Key), fr.get(instr.Value))
	case *ssa.TypeAssert:
		fr.env[instr] = w.typeAssert(instr, fr.get(instr.X))
	case *ssa.MakeClosure:
		b := make([]Value, len(instr.Bindings))
		for i, x := range instr.Bindings {
			b[i] = fr.get(x)
		}
		fr.env[instr] = &Closure{instr.Fn.(*ssa.Function), b}
	case *ssa.Select:
		fr.env[instr] = w.selectStmt(fr, instr)
	default:
		panic(pathAbort{"unsupported", fmt.Sprintf("instruction %T", instr)})
	}
	return kNext
}

// subArray returns an array object aliasing n elements of arr starting at off.
func (w *Worker) subArray(arr *Obj, off, n int) *Obj {
	if off == 0 && n == arr.N {
		return arr
	}
	if arr.Sparse != nil {
		panic(pathAbort{"unsupported", "sub-array of a very large array"})
	}
	for i := 0; i < n; i++ {
		w.kid(arr, off+i)
	}
	w.objSeq++
	return &Obj{Typ: types.NewArray(arr.elemType(0), int64(n)), N: n, Kids: arr.Kids[off : off+n : off+n], ID: w.objSeq, Glob: arr.Glob}
}

// ---------- memory ----------

func (w *Worker) loadPtr(pv Value) Value {
	p, ok := pv.(PtrV)
	if !ok {
		if po, isP := pv.(Poison); isP {
			return po
		}
		panic(fmt.Sprintf("load through %T", pv))
	}
	if p.O != nil {
		w.noteAccess(p.O, false)
		return w.load(p.O)
	}
	if p.Arr == nil {
		w.rtPanic("invalid memory address or nil pointer dereference")
	}
	// symbolic element: ite chain
	var res *term.Term
	for i := p.Len - 1; i >= 0; i-- {
		ev, ok := w.load(w.kid(p.Arr, p.Off+i)).(*term.Term)
		if !ok {
			panic(pathAbort{"unsupported", "symbolic index into non-scalar elements"})
		}
		if res == nil {
			res = ev
		} else {
			res = w.TF.Ite(w.TF.Eq(p.Idx, w.TF.Const(p.Idx.W, uint64(i))), ev, res)
		}
	}
	return res
}

func (w *Worker) storePtr(pv Value, v Value) {
	p, ok := pv.(PtrV)
	if !ok {
		if _, isP := pv.(Poison); isP {
			panic(pathAbort{"unsupported", "store through poison pointer"})
		}
		panic(fmt.Sprintf("store through %T", pv))
	}
	if p.O != nil {
		if p.O.Glob && w.inInit == 0 {
			w.noteGlobalMut(p.O)
		}
		w.noteAccess(p.O, true)
		w.store(p.O, v)
		return
	}
	if p.Arr == nil {
		w.rtPanic("invalid memory address or nil pointer dereference")
	}
	nv, ok := v.(*term.Term)
	if !ok {
		panic(pathAbort{"unsupported", "symbolic-index store of non-scalar"})
	}
	for i := 0; i < p.Len; i++ {
		k := w.kid(p.Arr, p.Off+i)
		old := w.load(k).(*term.Term)
		w.store(k, w.TF.Ite(w.TF.Eq(p.Idx, w.TF.Const(p.Idx.W, uint64(i))), nv, old))
	}
}

func (w *Worker) noteGlobalMut(o *Obj) {
	if len(w.res.GlobalMut) < 8 {
		w.res.GlobalMut = append(w.res.GlobalMut, o.Typ.String())
	}
}

const maxSymIndex = 512

// boundsCheck forks on idx in [0,n) and panics on the out-of-range side.
func (w *Worker) boundsCheck(idx *term.Term, n int, inclusive bool) {
	lim := uint64(n)
	var ok *term.Term
	if inclusive {
		ok = w.TF.Ule(idx, w.TF.Const(idx.W, lim))
	} else {
		ok = w.TF.Ult(idx, w.TF.Const(idx.W, lim))
	}
	if !w.Branch(ok) {
		w.rtPanic(fmt.Sprintf("index out of range [%s] with length %d", idxStr(idx), n))
	}
}

func idxStr(t *term.Term) string {
	if t.IsConst() {
		return fmt.Sprint(t.Signed())
	}
	return "sym"
}

func (w *Worker) idx64(v Value, typ types.Type) *term.Term {
	t, ok := v.(*term.Term)
	if !ok {
		panic(pathAbort{"unsupported", "index is " + describe(v)})
	}
	if isIntT(t) {
		// a mathematical integer used as an index or length: split into its concrete values
		return w.TF.Const(64, w.Concretize(t, "integer used as index", 64))
	}
	if t.W < 64 {
		// index operands may be of any integer type; negative values are caught as huge unsigned
		if _, signed, ok := intInfo(typ); ok && !signed {
			return w.TF.Zext(t, 64)
		}
		return w.TF.Sext(t, 64)
	}
	return t
}

func (w *Worker) indexAddr(x Value, idxv Value, it types.Type) Value {
	idx := w.idx64(idxv, it)
	switch x := x.(type) {
	case SliceV:
		w.boundsCheck(idx, x.Len, false)
		if idx.IsConst() {
			return PtrV{O: w.kid(x.Arr, x.Off+int(idx.Val))}
		}
		if x.Len == 1 {
			return PtrV{O: w.kid(x.Arr, x.Off)}
		}
		if x.Len > maxSymIndex || !scalarElem(x.Arr) {
			i := w.Concretize(idx, "index", 64)
			return PtrV{O: w.kid(x.Arr, x.Off+int(i))}
		}
		return PtrV{Arr: x.Arr, Off: x.Off, Len: x.Len, Idx: idx}
	case PtrV: // *array
		if x.O == nil {
			w.rtPanic("invalid memory address or nil pointer dereference")
		}
		w.boundsCheck(idx, x.O.N, false)
		if idx.IsConst() {
			return PtrV{O: w.kid(x.O, int(idx.Val))}
		}
		if x.O.N > maxSymIndex || !scalarElem(x.O) {
			i := w.Concretize(idx, "index", 64)
			return PtrV{O: w.kid(x.O, int(i))}
		}
		return PtrV{Arr: x.O, Off: 0, Len: x.O.N, Idx: idx}
	case Poison:
		return x
	}
	panic(fmt.Sprintf("IndexAddr on %T", x))
}

func (w *Worker) index(x Value, idxv Value, it types.Type) Value {
	idx := w.idx64(idxv, it)
	switch x := x.(type) {
	case ArrayV:
		w.boundsCheck(idx, len(x.E), false)
		if idx.IsConst() {
			return x.E[idx.Val]
		}
		var res *term.Term
		for i := len(x.E) - 1; i >= 0; i-- {
			ev, ok := x.E[i].(*term.Term)
			if !ok {
				panic(pathAbort{"unsupported", "symbolic index into non-scalar array"})
			}
			if res == nil {
				res = ev
			} else {
				res = w.TF.Ite(w.TF.Eq(idx, w.TF.Const(64, uint64(i))), ev, res)
			}
		}
		return res
	case *StrV:
		w.needStr(x)
		w.boundsCheck(idx, len(x.B), false)
		if idx.IsConst() {
			return x.B[idx.Val]
		}
		var res *term.Term
		for i := len(x.B) - 1; i >= 0; i-- {
			if res == nil {
				res = x.B[i]
			} else {
				res = w.TF.Ite(w.TF.Eq(idx, w.TF.Const(64, uint64(i))), x.B[i], res)
			}
		}
		return res
	case Poison:
		return x
	}
	panic(fmt.Sprintf("Index on %T", x))
}

func (w *Worker) needStr(s *StrV) {
	if s.Opaque != nil {
		panic(pathAbort{"unsupported", fmt.Sprintf("content of formatted string %q inspected", s.Opaque.Fmt)})
	}
}

func (w *Worker) sliceOp(instr *ssa.Slice, x, lo, hi, max Value) Value {
	conc := func(v Value, def int, what string) int {
		if v == nil {
			return def
		}
		t := w.idx64(v, types.Typ[types.Int])
		return int(int64(w.Concretize(t, "slice "+what, 64)))
	}
	switch x := x.(type) {
	case *StrV:
		w.needStr(x)
		l := conc(lo, 0, "low")
		h := conc(hi, len(x.B), "high")
		if l < 0 || h < l || h > len(x.B) {
			w.rtPanic(fmt.Sprintf("slice bounds out of range [%d:%d] with length %d", l, h, len(x.B)))
		}
		return &StrV{B: x.B[l:h:h]}
	case SliceV:
		l := conc(lo, 0, "low")
		h := conc(hi, x.Len, "high")
		m := conc(max, x.Cap, "max")
		if l < 0 || h < l || m < h || m > x.Cap {
			w.rtPanic(fmt.Sprintf("slice bounds out of range [%d:%d:%d] with capacity %d", l, h, m, x.Cap))
		}
		if x.Arr == nil {
			return SliceV{}
		}
		return SliceV{Arr: x.Arr, Off: x.Off + l, Len: h - l, Cap: m - l}
	case PtrV: // *array
		if x.O == nil {
			w.rtPanic("invalid memory address or nil pointer dereference")
		}
		n := x.O.N
		l := conc(lo, 0, "low")
		h := conc(hi, n, "high")
		m := conc(max, n, "max")
		if l < 0 || h < l || m < h || m > n {
			w.rtPanic(fmt.Sprintf("slice bounds out of range [%d:%d:%d] with capacity %d", l, h, m, n))
		}
		return SliceV{Arr: x.O, Off: l, Len: h - l, Cap: m - l}
	case Poison:
		return x
	}
	panic(fmt.Sprintf("Slice on %T", x))
}

// ---------- type assertions ----------

func (w *Worker) typeAssert(instr *ssa.TypeAssert, xv Value) Value {
	x, ok := xv.(IfaceV)
	if !ok {
		if p, isP := xv.(Poison); isP {
			panic(pathAbort{"unsupported", "type assertion on " + p.String()})
		}
		panic(fmt.Sprintf("TypeAssert on %T", xv))
	}
	var v Value
	okv := false
	if x.T != nil {
		if it, isI := instr.AssertedType.Underlying().(*types.Interface); isI {
			if types.Implements(x.T, it) {
				v, okv = x, true
			}
		} else if types.Identical(x.T, instr.AssertedType) {
			v, okv = x.V, true
		}
	}
	if instr.CommaOk {
		if !okv {
			v = w.zero(instr.AssertedType)
		}
		return TupleV{v, w.TF.Bool(okv)}
	}
	if !okv {
		from := "nil"
		if x.T != nil {
			from = x.T.String()
		}
		w.rtPanic(fmt.Sprintf("interface conversion: interface is %s, not %s", from, instr.AssertedType))
	}
	return v
}

// scalarElem reports whether the elements of an array object are bool/integer
// leaves (the only ones a symbolic element pointer can merge with ite).
func scalarElem(arr *Obj) bool {
	if arr == nil || arr.N == 0 {
		return false
	}
	_, _, ok := intInfo(arr.elemType(0))
	return ok
}
