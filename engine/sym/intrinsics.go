package sym

import (
	"fmt"
	"go/types"
	"strings"

	"gosmt/solver"
	"gosmt/term"

	"golang.org/x/tools/go/ssa"
)

type intrinsic func(w *Worker, caller *frame, fn *ssa.Function, args []Value) Value

var intrinsics = map[string]intrinsic{}

func reg(f intrinsic, names ...string) {
	for _, n := range names {
		intrinsics[n] = f
	}
}

func (w *Worker) concStr(v Value, what string) string {
	s, ok := v.(*StrV)
	if !ok {
		panic(pathAbort{"unsupported", what + ": not a string"})
	}
	c, ok := s.Concrete()
	if !ok {
		panic(pathAbort{"unsupported", what + ": string must be concrete"})
	}
	return c
}

func (w *Worker) concInt(v Value, what string) int64 {
	t, ok := v.(*term.Term)
	if !ok || !t.IsConst() {
		panic(pathAbort{"unsupported", what + ": must be a concrete integer"})
	}
	return t.Signed()
}

// freshVar declares a new symbolic variable for this path. Names are made
// unique per path by an occurrence counter so re-execution is deterministic.
func (w *Worker) freshVar(name string, width int) *term.Term {
	n := w.varSeq[name]
	w.varSeq[name] = n + 1
	if n > 0 {
		name = fmt.Sprintf("%s#%d", name, n)
	}
	if w.P.Concrete {
		return w.TF.Const(width, w.P.Replay[name])
	}
	v := w.TF.Var(name, width)
	w.vars = append(w.vars, v)
	return v
}

// harnessIntrinsic recognises the verif* runtime of the harness package.
func (w *Worker) harnessIntrinsic(fn *ssa.Function) intrinsic {
	if fn.Pkg == nil || !strings.HasPrefix(fn.Name(), "verif") {
		return nil
	}
	if in, ok := harnessIntrinsics[fn.Name()]; ok {
		return in
	}
	if in, ok := harnessIntrinsicsExtra[fn.Name()]; ok {
		return in
	}
	return nil
}

var harnessIntrinsics map[string]intrinsic
var harnessIntrinsicsExtra = map[string]intrinsic{}

func nondetInt(width int) intrinsic {
	return func(w *Worker, _ *frame, _ *ssa.Function, a []Value) Value {
		return w.freshVar(w.concStr(a[0], "nondet name"), width)
	}
}

func init() {
	harnessIntrinsics = map[string]intrinsic{
		"verifInt64":  nondetInt(64),
		"verifInt":    nondetInt(64),
		"verifUint64": nondetInt(64),
		"verifInt32":  nondetInt(32),
		"verifUint32": nondetInt(32),
		"verifUint16": nondetInt(16),
		"verifByte":   nondetInt(8),
		"verifMathInt64": func(w *Worker, _ *frame, fn *ssa.Function, a []Value) Value {
			name := w.concStr(a[0], "nondet name")
			if w.P.Concrete {
				return w.freshVar(name, 64)
			}
			v := w.freshVar(name, term.IntW)
			lo, hi := w.typeRange(types.Typ[types.Int64])
			w.addPC(w.TF.And(w.TF.IBin(term.OpILe, lo, v), w.TF.IBin(term.OpILe, v, hi)))
			return v
		},
		"verifBool": func(w *Worker, _ *frame, _ *ssa.Function, a []Value) Value {
			name := w.concStr(a[0], "nondet name")
			if w.P.Concrete {
				return w.freshVar(name, 0)
			}
			return w.freshVar(name, 0)
		},
		"verifBytes": func(w *Worker, _ *frame, fn *ssa.Function, a []Value) Value {
			name := w.concStr(a[0], "nondet name")
			n := int(w.concInt(a[1], "verifBytes length"))
			arr := w.newArrayObj(types.Typ[types.Uint8], n)
			for i := 0; i < n; i++ {
				w.kid(arr, i).V = w.freshVar(fmt.Sprintf("%s[%d]", name, i), 8)
			}
			return SliceV{Arr: arr, Len: n, Cap: n}
		},
		"verifString": func(w *Worker, _ *frame, fn *ssa.Function, a []Value) Value {
			name := w.concStr(a[0], "nondet name")
			n := int(w.concInt(a[1], "verifString length"))
			b := make([]*term.Term, n)
			for i := range b {
				b[i] = w.freshVar(fmt.Sprintf("%s[%d]", name, i), 8)
			}
			return &StrV{B: b}
		},
		"verifAssume": func(w *Worker, _ *frame, _ *ssa.Function, a []Value) Value {
			c := a[0].(*term.Term)
			if c.IsTrue() {
				return nil
			}
			if c.IsFalse() {
				panic(pathAbort{"assume", "assumption false"})
			}
			if w.replaying {
				w.addPC(c)
				return nil
			}
			switch w.checkWith(c) {
			case solver.Unsat:
				panic(pathAbort{"assume", "assumption infeasible"})
			case solver.Unknown:
				w.res.Sites["$branch"].Unknown++
			}
			w.addPC(c)
			return nil
		},
		"verifAssert": func(w *Worker, caller *frame, _ *ssa.Function, a []Value) Value {
			w.assert(caller, a[0].(*term.Term), w.concStr(a[1], "assert message"), "")
			return nil
		},
		"verifCover": func(w *Worker, _ *frame, _ *ssa.Function, a []Value) Value {
			w.res.Covers[w.concStr(a[0], "cover label")]++
			return nil
		},
		"verifParam": func(w *Worker, _ *frame, _ *ssa.Function, a []Value) Value {
			name := w.concStr(a[0], "param name")
			if v, ok := w.P.Params[name]; ok {
				return w.TF.Const(64, uint64(v))
			}
			return a[1]
		},
		"verifPick": func(w *Worker, _ *frame, _ *ssa.Function, a []Value) Value {
			name := w.concStr(a[0], "pick name")
			lo, hi := w.concInt(a[1], "pick lo"), w.concInt(a[2], "pick hi")
			v := w.freshVar(name, 64)
			if w.P.Concrete {
				return v
			}
			tf := w.TF
			inRange := tf.And(tf.Sle(tf.Const(64, uint64(lo)), v), tf.Sle(v, tf.Const(64, uint64(hi))))
			if w.replaying {
				w.addPC(inRange)
			} else {
				if w.checkWith(inRange) == solver.Unsat {
					panic(pathAbort{"assume", "empty pick range"})
				}
				w.addPC(inRange)
			}
			for x := lo; x < hi; x++ {
				if w.Branch(tf.Eq(v, tf.Const(64, uint64(x)))) {
					return tf.Const(64, uint64(x))
				}
			}
			w.addPC(tf.Eq(v, tf.Const(64, uint64(hi))))
			return tf.Const(64, uint64(hi))
		},
		"verifKnown": func(w *Worker, caller *frame, _ *ssa.Function, a []Value) Value {
			id := w.concStr(a[0], "known-finding id")
			c := a[1].(*term.Term)
			if w.P.Probe == id {
				// probe mode: nothing is excluded; remember whether execution is
				// inside the finding's region so that a violation found next is
				// attributed to it
				in := false
				if c.IsTrue() {
					in = true
				} else if !c.IsFalse() {
					in = w.Branch(c)
				}
				w.probeIn = in
				if in {
					w.res.KnownHit[id] = true
				}
				return w.TF.False
			}
			if !w.P.Known[id] {
				return w.TF.False
			}
			// the finding is listed as open: split on its region. Inside the
			// region the harness is told so (and must not assert the broken
			// claim); the engine records that the region is reachable.
			if w.Branch(c) {
				w.res.KnownHit[id] = true
				return w.TF.True
			}
			return w.TF.False
		},
		"verifObserve": func(w *Worker, _ *frame, _ *ssa.Function, a []Value) Value {
			name := w.concStr(a[0], "observe name")
			if t, ok := a[1].(*term.Term); ok && t.IsConst() {
				w.res.Observes = append(w.res.Observes, fmt.Sprintf("%s=%d", name, t.Signed()))
			} else {
				w.res.Observes = append(w.res.Observes, fmt.Sprintf("%s=<sym>", name))
			}
			return nil
		},
		"verifConcrete": func(w *Worker, _ *frame, _ *ssa.Function, a []Value) Value {
			return w.TF.Bool(w.P.Concrete)
		},
		"verifNative": func(w *Worker, _ *frame, _ *ssa.Function, a []Value) Value {
			return w.TF.False
		},
		// verifYield runs the goroutines queued by the sequential goroutine model
		// (used by stubs of blocking primitives, e.g. a pipe read on an empty
		// buffer); reports whether any ran
		"verifYield": func(w *Worker, _ *frame, _ *ssa.Function, a []Value) Value {
			return w.TF.Bool(w.runPending())
		},
		"verifHashBytes": func(w *Worker, _ *frame, fn *ssa.Function, a []Value) Value {
			// injective-function stub: verifHashBytes(fnName string, outLen int, in []byte) []byte
			name := w.concStr(a[0], "hash name")
			n := int(w.concInt(a[1], "hash out length"))
			in := a[2].(SliceV)
			inb := make([]*term.Term, in.Len)
			for i := range inb {
				inb[i] = w.load(w.kid(in.Arr, in.Off+i)).(*term.Term)
			}
			out := w.hashStub(name, n, inb)
			arr := w.newArrayObj(types.Typ[types.Uint8], n)
			for i := 0; i < n; i++ {
				w.kid(arr, i).V = out[i]
			}
			return SliceV{Arr: arr, Len: n, Cap: n}
		},
		"verifFmtArg": func(w *Worker, _ *frame, _ *ssa.Function, a []Value) Value {
			s := a[0].(*StrV)
			i := int(w.concInt(a[1], "verifFmtArg index"))
			if s.Opaque == nil {
				c, ok := s.Concrete()
				if !ok {
					panic(pathAbort{"unsupported", "verifFmtArg on symbolic string"})
				}
				return w.TF.Const(64, uint64(nativeFmtArg(c, i)))
			}
			k := 0
			for _, arg := range s.Opaque.Args {
				iv, ok := arg.(IfaceV)
				if !ok {
					continue
				}
				t, ok := iv.V.(*term.Term)
				if !ok || t.W <= 0 {
					continue
				}
				if k == i {
					_, signed, _ := intInfo(iv.T)
					return w.TF.Resize(t, 64, signed)
				}
				k++
			}
			panic(pathAbort{"unsupported", "verifFmtArg: operand not found"})
		},
		"verifAnd": func(w *Worker, _ *frame, _ *ssa.Function, a []Value) Value {
			return w.TF.And(a[0].(*term.Term), a[1].(*term.Term))
		},
		"verifOr": func(w *Worker, _ *frame, _ *ssa.Function, a []Value) Value {
			return w.TF.Or(a[0].(*term.Term), a[1].(*term.Term))
		},
		"verifInSet": func(w *Worker, _ *frame, _ *ssa.Function, a []Value) Value {
			c := a[0].(*term.Term)
			set := w.concStr(a[1], "verifInSet set")
			r := w.TF.False
			for i := 0; i < len(set); i++ {
				r = w.TF.Or(r, w.TF.Eq(c, w.TF.Byte(set[i])))
			}
			return r
		},
		"verifIteInt": func(w *Worker, _ *frame, _ *ssa.Function, a []Value) Value {
			return w.TF.Ite(a[0].(*term.Term), a[1].(*term.Term), a[2].(*term.Term))
		},
		"verifStrEq": func(w *Worker, _ *frame, _ *ssa.Function, a []Value) Value {
			return w.strEq(a[0].(*StrV), a[1].(*StrV))
		},
		"verifGuardedBy": func(w *Worker, _ *frame, _ *ssa.Function, a []Value) Value {
			// verifGuardedBy(ptrToData any, ptrToMutex any): every later access to the data object
			// must happen while the mutex is held (lock-set monitor)
			d, ok1 := a[0].(IfaceV)
			m, ok2 := a[1].(IfaceV)
			if !ok1 || !ok2 {
				panic(pathAbort{"unsupported", "verifGuardedBy arguments"})
			}
			dp, ok1 := d.V.(PtrV)
			if !ok1 || dp.O == nil {
				panic(pathAbort{"unsupported", "verifGuardedBy needs a non-nil data pointer"})
			}
			if m.T == nil {
				// no particular mutex named: Eraser-style candidate set (some lock must be
				// held consistently on every access)
				w.eraserSeq++
				markGuard(dp.O, fmt.Sprintf("eraser#%d", w.eraserSeq))
				return nil
			}
			mp, ok2 := m.V.(PtrV)
			if !ok2 || mp.O == nil {
				panic(pathAbort{"unsupported", "verifGuardedBy needs a non-nil mutex pointer"})
			}
			markGuard(dp.O, lockKey(mp.O))
			return nil
		},
		"verifLockHeld": func(w *Worker, _ *frame, _ *ssa.Function, a []Value) Value {
			p := a[0].(PtrV)
			if p.O == nil {
				return w.TF.False
			}
			return w.TF.Bool(w.locks[lockKey(p.O)] > 0)
		},
	}
}

type hashCall struct {
	name string
	in   []*term.Term
	out  []*term.Term
}

// hashStub models a deterministic injective function on byte strings: the
// result bytes are fresh symbolic values constrained, against every earlier
// application on this path, by (inputs equal) <=> (outputs equal).
func (w *Worker) hashStub(name string, n int, in []*term.Term) []*term.Term {
	tf := w.TF
	for _, h := range w.hashCalls {
		if h.name == name && len(h.in) == len(in) {
			same := true
			for i := range in {
				if in[i] != h.in[i] {
					same = false
					break
				}
			}
			if same {
				return h.out
			}
		}
	}
	out := make([]*term.Term, n)
	allConst := true
	for _, b := range in {
		if !b.IsConst() {
			allConst = false
			break
		}
	}
	if w.P.Concrete || allConst {
		// concrete inputs: a deterministic mixing function stands in for the hash
		// (128-bit state; an accidental collision is as unlikely as for a real one).
		// Symbolic applications are still related to these by the constraints below.
		var acc uint64 = 1469598103934665603
		for _, c := range []byte(name) {
			acc = (acc ^ uint64(c)) * 1099511628211
		}
		acc2 := uint64(len(in))*0x9E3779B97F4A7C15 + 7
		for _, b := range in {
			acc2 = (acc2 + b.Val + (acc2 << 6) + (acc2 >> 2)) * 0xff51afd7ed558ccd
		}
		acc ^= acc2
		for _, b := range in {
			acc = (acc ^ b.Val) * 1099511628211
		}
		for i := range out {
			acc = acc*6364136223846793005 + 1442695040888963407
			out[i] = tf.Byte(byte(acc >> 56))
		}
	} else {
		for i := range out {
			out[i] = w.freshVar(fmt.Sprintf("$%s.%d[%d]", name, len(w.hashCalls), i), 8)
		}
		for _, h := range w.hashCalls {
			if h.name != name || len(h.out) != n {
				continue
			}
			outEq := tf.True
			for i := range out {
				outEq = tf.And(outEq, tf.Eq(out[i], h.out[i]))
			}
			if len(h.in) != len(in) {
				w.addPC(tf.Not(outEq))
				continue
			}
			inEq := tf.True
			for i := range in {
				inEq = tf.And(inEq, tf.Eq(in[i], h.in[i]))
			}
			w.addPC(tf.Eq(inEq, outEq))
		}
	}
	w.hashCalls = append(w.hashCalls, hashCall{name, in, out})
	return out
}

// assert discharges one obligation: pc ⇒ cond.
func (w *Worker) assert(caller *frame, c *term.Term, msg, known string) {
	pos := ""
	if caller != nil {
		pos = w.callerPos(caller)
	}
	s := w.site(msg, msg, pos)
	if c.IsTrue() {
		s.Trivial++
		return
	}
	if w.P.Concrete {
		if c.IsFalse() {
			s.Violated++
			w.reportViolation("assert", msg, pos, w.TF.True, known)
			panic(pathAbort{"violation", msg})
		}
		panic(pathAbort{"unsupported", "symbolic assertion in concrete mode"})
	}
	nc := w.TF.Not(c)
	switch w.checkWith(nc) {
	case solver.Unsat:
		s.Discharged++
		w.addPC(c)
	case solver.Sat:
		s.Violated++
		w.reportViolation("assert", msg, pos, nc, known)
		panic(pathAbort{"violation", msg})
	default:
		s.Unknown++
		w.addPC(c)
	}
}

func (w *Worker) callerPos(fr *frame) string {
	// position of the call instruction currently executing in fr is not
	// tracked; report the function instead
	return fr.fn.String()
}

func lockKey(o *Obj) string { return fmt.Sprintf("lock#%d", o.ID) }

// noteAccess is the lock-set monitor hook.
func (w *Worker) noteAccess(o *Obj, write bool) {
	if o.Guard == "" || w.inInit > 0 {
		return
	}
	if strings.HasPrefix(o.Guard, "eraser#") {
		held := map[string]bool{}
		for k, n := range w.locks {
			if n > 0 {
				held[k] = true
			}
		}
		cand, seen := w.eraser[o.Guard]
		if !seen {
			w.eraser[o.Guard] = held
			cand = held
		} else {
			for k := range cand {
				if !held[k] {
					delete(cand, k)
				}
			}
		}
		if len(cand) > 0 {
			return
		}
	} else if w.locks[o.Guard] > 0 {
		return
	}
	kind := "read"
	if write {
		kind = "write"
	}
	msg := fmt.Sprintf("lock discipline: %s of a guarded %s while its mutex is not held [in %s]", kind, o.Typ, w.targetStack())
	if len(w.res.LockViol) < 16 {
		w.res.LockViol = append(w.res.LockViol, msg)
	}
	w.site("$lockset", "lock-set monitor", "").Violated++
	w.reportViolation("lockset", msg, "", w.TF.True, "")
	panic(pathAbort{"violation", msg})
}

func markGuard(o *Obj, g string) {
	o.Guard = g
	for _, k := range o.Kids {
		if k != nil {
			markGuard(k, g)
		}
	}
}

func nativeFmtArg(s string, i int) int64 {
	idx := 0
	for p := 0; p < len(s); {
		c := s[p]
		if c >= '0' && c <= '9' || (c == '-' && p+1 < len(s) && s[p+1] >= '0' && s[p+1] <= '9' && (p == 0 || s[p-1] == ' ' || s[p-1] == '=')) {
			q := p + 1
			for q < len(s) && s[q] >= '0' && s[q] <= '9' {
				q++
			}
			if idx == i {
				var v int64
				neg := false
				for k := p; k < q; k++ {
					if s[k] == '-' {
						neg = true
						continue
					}
					v = v*10 + int64(s[k]-'0')
				}
				if neg {
					v = -v
				}
				return v
			}
			idx++
			p = q
			continue
		}
		p++
	}
	panic(pathAbort{"unsupported", "verifFmtArg: operand not found in " + s})
}
