package sym

// sqlsym: a small relational interpreter that gives database/sql a semantics
// inside the symbolic executor. Tables have a concrete number of rows; cell
// values are symbolic (strings with concrete length, 64-bit integers,
// timestamps) or NULL. Statements are taken from the text that reaches
// (*sql.Tx).ExecContext/QueryContext/QueryRowContext, parsed, and evaluated row
// by row; a WHERE clause whose value depends on symbolic cells forks the
// exploration per row. LIKE follows the SQLite manual ('%', '_', ASCII
// case-insensitive); text comparison and ORDER BY use BINARY collation;
// parameters "$n" bind by first textual occurrence, exactly as SQLite does.
// Anything outside the fragment aborts the path as "unsupported".

import (
	"fmt"
	"go/types"
	"os"
	"sort"
	"strconv"
	"strings"

	"gosmt/term"

	"golang.org/x/tools/go/ssa"
)

type sqlTime struct{ ns *term.Term }

type sqlVal struct {
	null bool
	v    Value // *term.Term (BV64) | *StrV | sqlTime
}

type sqlRow struct {
	cells map[string]sqlVal
	id    int
}

type sqlUnique struct {
	table string
	cols  []string
	where sqlExpr
	name  string
}

type sqlFK struct {
	table, col, refTable, refCol string
	cascade                      bool
}

type sqlColDef struct {
	name     string
	typ      string
	notNull  bool
	def      *sqlVal
	hasDeflt bool
}

type sqlTable struct {
	name string
	cols []sqlColDef
	rows []*sqlRow
}

type sqlDB struct {
	tables  map[string]*sqlTable
	uniques []sqlUnique
	fks     []sqlFK
	rowSeq  int
	stmts   map[string]int
}

type sqlRowsState struct {
	rows [][]sqlVal
	pos  int
	err  Value
}

// ---------- lexer ----------

type sqlTok struct {
	kind string // id, num, str, par, op, end
	s    string
}

func sqlLex(src string) []sqlTok {
	var out []sqlTok
	i := 0
	for i < len(src) {
		c := src[i]
		switch {
		case c == ' ' || c == '\n' || c == '\t' || c == '\r':
			i++
		case c == '-' && i+1 < len(src) && src[i+1] == '-':
			for i < len(src) && src[i] != '\n' {
				i++
			}
		case c == '\'':
			j := i + 1
			var sb strings.Builder
			for j < len(src) {
				if src[j] == '\'' {
					if j+1 < len(src) && src[j+1] == '\'' {
						sb.WriteByte('\'')
						j += 2
						continue
					}
					break
				}
				sb.WriteByte(src[j])
				j++
			}
			out = append(out, sqlTok{"str", sb.String()})
			i = j + 1
		case c == '"':
			j := strings.IndexByte(src[i+1:], '"')
			out = append(out, sqlTok{"id", strings.ToLower(src[i+1 : i+1+j])})
			i += j + 2
		case c == '$' || c == '?':
			j := i + 1
			for j < len(src) && (src[j] >= '0' && src[j] <= '9') {
				j++
			}
			out = append(out, sqlTok{"par", src[i:j]})
			i = j
		case c >= '0' && c <= '9':
			j := i
			for j < len(src) && src[j] >= '0' && src[j] <= '9' {
				j++
			}
			out = append(out, sqlTok{"num", src[i:j]})
			i = j
		case c == '_' || (c|0x20 >= 'a' && c|0x20 <= 'z'):
			j := i
			for j < len(src) && (src[j] == '_' || (src[j]|0x20 >= 'a' && src[j]|0x20 <= 'z') || (src[j] >= '0' && src[j] <= '9')) {
				j++
			}
			out = append(out, sqlTok{"id", strings.ToLower(src[i:j])})
			i = j
		default:
			for _, op := range []string{"||", "<>", "!=", "<=", ">=", "==", "(", ")", ",", "=", "<", ">", "+", "-", "*", ".", ";"} {
				if strings.HasPrefix(src[i:], op) {
					out = append(out, sqlTok{"op", op})
					i += len(op)
					goto next
				}
			}
			panic(pathAbort{"unsupported", fmt.Sprintf("sql: unexpected character %q in %q", c, src)})
		next:
		}
	}
	return append(out, sqlTok{"end", ""})
}

// ---------- AST ----------

type sqlExpr interface{}

type (
	sqlCol   struct{ table, name string }
	sqlParam struct{ idx int }
	sqlLit   struct{ v sqlVal }
	sqlBin   struct {
		op   string
		l, r sqlExpr
	}
	sqlNot    struct{ e sqlExpr }
	sqlIsNull struct {
		e   sqlExpr
		not bool
	}
	sqlCall struct {
		fn       string
		args     []sqlExpr
		star     bool
		distinct bool // COUNT(DISTINCT e)
	}
	// [NOT] EXISTS (SELECT ... FROM t [alias] WHERE ...), correlated with the outer row
	sqlExists struct{ st *sqlStmt }
	sqlIn struct {
		e    sqlExpr
		list []sqlExpr
		not  bool
	}
)

type sqlOrder struct {
	e    sqlExpr
	desc bool
}

type sqlStmt struct {
	kind      string // select insert update delete
	table     string
	alias     string
	cols      []sqlExpr // select list
	insCols   []string
	insVals   []sqlExpr
	onConfl   string // "", nothing, replace
	sets      []sqlSet
	where     sqlExpr
	order     []sqlOrder
	limit     sqlExpr
	returning []sqlExpr
	nparams   int
	// select ... FROM table alias [INNER] JOIN joinTable joinAlias ON joinOn
	joinTable string
	joinAlias string
	joinOn    sqlExpr
	joinLeft  bool
	distinct  bool
	groupBy   []sqlExpr
}

type sqlSet struct {
	col string
	e   sqlExpr
}

type sqlParser struct {
	toks   []sqlTok
	pos    int
	src    string
	params map[string]int // first-occurrence numbering
}

func (p *sqlParser) peek() sqlTok { return p.toks[p.pos] }
func (p *sqlParser) next() sqlTok { t := p.toks[p.pos]; p.pos++; return t }
func (p *sqlParser) fail(msg string) {
	panic(pathAbort{"unsupported", fmt.Sprintf("sql outside the supported fragment (%s near token %d): %s", msg, p.pos, p.src)})
}
func (p *sqlParser) isKw(k string) bool { t := p.peek(); return t.kind == "id" && t.s == k }
func (p *sqlParser) kw(k string) bool {
	if p.isKw(k) {
		p.pos++
		return true
	}
	return false
}
func (p *sqlParser) want(k string) {
	if !p.kw(k) {
		p.fail("expected " + k)
	}
}
func (p *sqlParser) isOp(o string) bool { t := p.peek(); return t.kind == "op" && t.s == o }
func (p *sqlParser) op(o string) bool {
	if p.isOp(o) {
		p.pos++
		return true
	}
	return false
}
func (p *sqlParser) wantOp(o string) {
	if !p.op(o) {
		p.fail("expected " + o)
	}
}
func (p *sqlParser) ident() string {
	t := p.next()
	if t.kind != "id" {
		p.fail("expected identifier")
	}
	return t.s
}

func sqlParse(src string) *sqlStmt {
	p := &sqlParser{toks: sqlLex(src), src: src, params: map[string]int{}}
	return p.stmt()
}

func (p *sqlParser) stmt() *sqlStmt {
	st := &sqlStmt{}
	switch {
	case p.kw("select"):
		st.kind = "select"
		if p.kw("distinct") {
			st.distinct = true
		}
		for {
			st.cols = append(st.cols, p.expr())
			if p.kw("as") {
				p.ident()
			}
			if !p.op(",") {
				break
			}
		}
		p.want("from")
		st.table = p.ident()
		if t := p.peek(); t.kind == "id" && !sqlReserved[t.s] {
			st.alias = p.ident()
		}
		if p.kw("inner") {
			if !p.isKw("join") {
				p.fail("inner")
			}
		} else if p.kw("left") {
			p.kw("outer")
			if !p.isKw("join") {
				p.fail("left")
			}
			st.joinLeft = true
		}
		if p.kw("join") {
			st.joinTable = p.ident()
			if t := p.peek(); t.kind == "id" && !sqlReserved[t.s] {
				st.joinAlias = p.ident()
			}
			p.want("on")
			st.joinOn = p.expr()
		}
		for _, bad := range []string{"join", "inner", "left", "union"} {
			if p.isKw(bad) {
				p.fail(bad)
			}
		}
	case p.kw("insert"):
		st.kind = "insert"
		if p.kw("or") {
			switch {
			case p.kw("ignore"):
				st.onConfl = "nothing"
			case p.kw("replace"):
				st.onConfl = "replace"
			default:
				p.fail("insert or")
			}
		}
		p.want("into")
		st.table = p.ident()
		p.wantOp("(")
		for {
			st.insCols = append(st.insCols, p.ident())
			if !p.op(",") {
				break
			}
		}
		p.wantOp(")")
		if !p.kw("values") {
			p.fail("insert ... select")
		}
		p.wantOp("(")
		for {
			st.insVals = append(st.insVals, p.expr())
			if !p.op(",") {
				break
			}
		}
		p.wantOp(")")
		if p.kw("on") {
			p.want("conflict")
			if p.op("(") {
				for !p.op(")") {
					p.next()
				}
			}
			p.want("do")
			if !p.kw("nothing") {
				p.fail("on conflict do update")
			}
			st.onConfl = "nothing"
		}
	case p.kw("update"):
		st.kind = "update"
		st.table = p.ident()
		p.want("set")
		for {
			c := p.ident()
			p.wantOp("=")
			st.sets = append(st.sets, sqlSet{c, p.expr()})
			if !p.op(",") {
				break
			}
		}
	case p.kw("delete"):
		st.kind = "delete"
		p.want("from")
		st.table = p.ident()
	default:
		p.fail("statement kind")
	}
	if p.kw("where") {
		st.where = p.expr()
	}
	if p.kw("group") {
		if st.kind != "select" {
			p.fail("group by outside select")
		}
		p.want("by")
		for {
			st.groupBy = append(st.groupBy, p.expr())
			if !p.op(",") {
				break
			}
		}
		if p.isKw("having") || p.isKw("order") {
			p.fail("having / order by after group by")
		}
	}
	if p.kw("order") {
		p.want("by")
		for {
			o := sqlOrder{e: p.expr()}
			if p.kw("desc") {
				o.desc = true
			} else {
				p.kw("asc")
			}
			st.order = append(st.order, o)
			if !p.op(",") {
				break
			}
		}
	}
	if p.kw("limit") {
		st.limit = p.expr()
	}
	if p.kw("returning") {
		for {
			st.returning = append(st.returning, p.expr())
			if !p.op(",") {
				break
			}
		}
	}
	p.op(";")
	if p.peek().kind != "end" {
		p.fail("trailing tokens")
	}
	st.nparams = len(p.params)
	return st
}

var sqlReserved = map[string]bool{"where": true, "order": true, "limit": true, "group": true, "join": true, "inner": true, "left": true, "on": true, "union": true, "returning": true, "set": true}

func (p *sqlParser) expr() sqlExpr { return p.orExpr() }

func (p *sqlParser) orExpr() sqlExpr {
	l := p.andExpr()
	for p.kw("or") {
		l = sqlBin{"or", l, p.andExpr()}
	}
	return l
}

func (p *sqlParser) andExpr() sqlExpr {
	l := p.notExpr()
	for p.kw("and") {
		l = sqlBin{"and", l, p.notExpr()}
	}
	return l
}

func (p *sqlParser) notExpr() sqlExpr {
	if p.kw("not") {
		return sqlNot{p.notExpr()}
	}
	return p.cmpExpr()
}

func (p *sqlParser) cmpExpr() sqlExpr {
	l := p.addExpr()
	for {
		switch {
		case p.op("="), p.op("=="):
			l = sqlBin{"=", l, p.addExpr()}
		case p.op("<>"), p.op("!="):
			l = sqlBin{"<>", l, p.addExpr()}
		case p.op("<="):
			l = sqlBin{"<=", l, p.addExpr()}
		case p.op(">="):
			l = sqlBin{">=", l, p.addExpr()}
		case p.op("<"):
			l = sqlBin{"<", l, p.addExpr()}
		case p.op(">"):
			l = sqlBin{">", l, p.addExpr()}
		case p.kw("like"):
			pat := p.addExpr()
			if p.kw("escape") {
				l = sqlCall{fn: "like-escape", args: []sqlExpr{l, pat, p.addExpr()}}
			} else {
				l = sqlBin{"like", l, pat}
			}
		case p.kw("is"):
			not := p.kw("not")
			if !p.kw("null") {
				p.fail("IS <expr>")
			}
			l = sqlIsNull{l, not}
		case p.isKw("not") && p.toks[p.pos+1].kind == "id" && p.toks[p.pos+1].s == "in":
			p.pos += 2
			l = p.inList(l, true)
		case p.kw("in"):
			l = p.inList(l, false)
		default:
			return l
		}
	}
}

func (p *sqlParser) inList(l sqlExpr, not bool) sqlExpr {
	p.wantOp("(")
	in := sqlIn{e: l, not: not}
	for {
		if p.isKw("select") {
			p.fail("sub-select")
		}
		in.list = append(in.list, p.expr())
		if !p.op(",") {
			break
		}
	}
	p.wantOp(")")
	return in
}

func (p *sqlParser) addExpr() sqlExpr {
	l := p.primary()
	for {
		switch {
		case p.op("+"):
			l = sqlBin{"+", l, p.primary()}
		case p.op("-"):
			l = sqlBin{"-", l, p.primary()}
		case p.op("||"):
			l = sqlBin{"||", l, p.primary()}
		default:
			return l
		}
	}
}

func (p *sqlParser) primary() sqlExpr {
	t := p.next()
	switch t.kind {
	case "num":
		n, _ := strconv.ParseInt(t.s, 10, 64)
		return sqlLit{sqlVal{v: int64(n)}}
	case "str":
		return sqlLit{sqlVal{v: t.s}}
	case "par":
		if t.s == "?" {
			p.params[fmt.Sprintf("?%d", len(p.params))] = len(p.params)
			return sqlParam{len(p.params) - 1}
		}
		idx, ok := p.params[t.s]
		if !ok {
			idx = len(p.params)
			p.params[t.s] = idx
		}
		return sqlParam{idx}
	case "op":
		if t.s == "(" {
			e := p.expr()
			p.wantOp(")")
			return e
		}
		if t.s == "*" {
			return sqlCall{fn: "*", star: true}
		}
	case "id":
		if t.s == "null" {
			return sqlLit{sqlVal{null: true}}
		}
		if t.s == "exists" && p.isOp("(") {
			// sub-select over the tokens up to the matching parenthesis
			p.next()
			depth, start := 1, p.pos
			for depth > 0 {
				switch tk := p.next(); {
				case tk.kind == "end":
					p.fail("unterminated exists")
				case tk.kind == "op" && tk.s == "(":
					depth++
				case tk.kind == "op" && tk.s == ")":
					depth--
				}
			}
			toks := append(append([]sqlTok(nil), p.toks[start:p.pos-1]...), sqlTok{kind: "end"})
			sub := &sqlParser{toks: toks, src: p.src, params: p.params}
			st := sub.stmt()
			if st.kind != "select" || st.joinTable != "" || len(st.groupBy) > 0 || len(st.order) > 0 || st.limit != nil {
				p.fail("exists sub-select shape")
			}
			return sqlExists{st}
		}
		if p.op("(") {
			c := sqlCall{fn: t.s}
			if p.kw("distinct") {
				c.distinct = true
			}
			if p.op("*") {
				c.star = true
			} else if !p.isOp(")") {
				for {
					c.args = append(c.args, p.expr())
					if !p.op(",") {
						break
					}
				}
			}
			p.wantOp(")")
			return c
		}
		if p.op(".") {
			return sqlCol{t.s, p.ident()}
		}
		return sqlCol{"", t.s}
	}
	p.fail("expression")
	return nil
}

// ---------- schema ----------

func (w *Worker) sqlLoadSchema() *sqlDB {
	db := &sqlDB{tables: map[string]*sqlTable{}, stmts: map[string]int{}}
	path := w.P.SQLSchema
	if path == "" {
		panic(pathAbort{"unsupported", "database/sql used but no schema was provided (spec.sql_schema)"})
	}
	data, err := os.ReadFile(path)
	if err != nil {
		panic(pathAbort{"unsupported", "sql schema: " + err.Error()})
	}
	for _, stmt := range strings.Split(string(data), "-- next") {
		stmt = strings.TrimSpace(stmt)
		if stmt == "" {
			continue
		}
		w.sqlSchemaStmt(db, stmt)
	}
	return db
}

func (w *Worker) sqlSchemaStmt(db *sqlDB, src string) {
	p := &sqlParser{toks: sqlLex(src), src: src, params: map[string]int{}}
	p.want("create")
	unique := p.kw("unique")
	switch {
	case p.kw("index"):
		name := p.ident()
		p.want("on")
		tbl := p.ident()
		p.wantOp("(")
		var cols []string
		for {
			cols = append(cols, p.ident())
			p.kw("asc")
			p.kw("desc")
			if !p.op(",") {
				break
			}
		}
		p.wantOp(")")
		var where sqlExpr
		if p.kw("where") {
			where = p.expr()
		}
		if unique {
			db.uniques = append(db.uniques, sqlUnique{tbl, cols, where, name})
		}
	case p.kw("table"):
		name := p.ident()
		t := &sqlTable{name: name}
		db.tables[name] = t
		p.wantOp("(")
		for {
			switch {
			case p.kw("primary"):
				p.want("key")
				db.uniques = append(db.uniques, sqlUnique{name, p.identList(), nil, name + "_pk"})
			case p.kw("unique"):
				db.uniques = append(db.uniques, sqlUnique{name, p.identList(), nil, name + "_unique"})
			case p.kw("foreign"):
				p.want("key")
				cols := p.identList()
				p.want("references")
				rt := p.ident()
				rcols := p.identList()
				fk := sqlFK{table: name, col: cols[0], refTable: rt, refCol: rcols[0]}
				for p.kw("on") {
					if p.kw("delete") && p.kw("cascade") {
						fk.cascade = true
					} else {
						p.next()
					}
				}
				db.fks = append(db.fks, fk)
			case p.kw("constraint"):
				p.ident()
				continue
			default:
				cd := sqlColDef{name: p.ident()}
				if t := p.peek(); t.kind == "id" && !sqlColKw[t.s] {
					cd.typ = p.ident()
					if p.op("(") {
						for !p.op(")") {
							p.next()
						}
					}
				}
				for {
					switch {
					case p.kw("not"):
						p.want("null")
						cd.notNull = true
					case p.kw("null"):
					case p.kw("primary"):
						p.want("key")
						db.uniques = append(db.uniques, sqlUnique{name, []string{cd.name}, nil, name + "_pk"})
					case p.kw("unique"):
						db.uniques = append(db.uniques, sqlUnique{name, []string{cd.name}, nil, name + "_" + cd.name + "_unique"})
					case p.kw("default"):
						e := p.primary()
						if l, ok := e.(sqlLit); ok {
							v := l.v
							cd.def, cd.hasDeflt = &v, true
						}
					case p.kw("references"):
						p.ident()
						if p.isOp("(") {
							p.identList()
						}
						for p.kw("on") {
							p.next()
							p.next()
						}
					default:
						goto colDone
					}
				}
			colDone:
				t.cols = append(t.cols, cd)
			}
			if !p.op(",") {
				break
			}
		}
		p.wantOp(")")
	default:
		// views / triggers are not used
	}
}

var sqlColKw = map[string]bool{"not": true, "null": true, "primary": true, "unique": true, "default": true, "references": true}

func (p *sqlParser) identList() []string {
	p.wantOp("(")
	var out []string
	for {
		out = append(out, p.ident())
		if !p.op(",") {
			break
		}
	}
	p.wantOp(")")
	return out
}

// ---------- values ----------

func (w *Worker) sqlFromGo(v Value, t types.Type) sqlVal {
	switch x := v.(type) {
	case IfaceV:
		if x.T == nil {
			return sqlVal{null: true}
		}
		return w.sqlFromGo(x.V, x.T)
	case PtrV:
		if isNilPtr(x) {
			return sqlVal{null: true}
		}
		if x.O == nil {
			break
		}
		return w.sqlFromGo(w.load(x.O), deref(t))
	case *term.Term:
		if x.W == 0 {
			return sqlVal{v: w.TF.Ite(x, w.TF.Const(64, 1), w.TF.Const(64, 0))}
		}
		_, signed, _ := intInfo(t)
		return sqlVal{v: w.TF.Resize(x, 64, signed)}
	case *StrV:
		w.needStr(x)
		return sqlVal{v: x}
	case SliceV:
		if x.Arr == nil {
			return sqlVal{null: true}
		}
		return sqlVal{v: w.bytesToStr(x)}
	case StructV:
		if t.String() == "time.Time" {
			tp := w.P.Prog.ImportedPackage("time")
			m := w.P.Prog.LookupMethod(t, tp.Pkg, "UnixNano")
			ns := w.call(w.cur, m, []Value{x}, nil).(*term.Term)
			return sqlVal{v: sqlTime{ns}}
		}
	}
	panic(pathAbort{"unsupported", fmt.Sprintf("sql: argument of type %s (%T)", t, v)})
}

func (w *Worker) sqlLitVal(v sqlVal) sqlVal {
	switch x := v.v.(type) {
	case int64:
		return sqlVal{v: w.TF.Const(64, uint64(x))}
	case string:
		return sqlVal{v: w.mkStr(x)}
	}
	return v
}

// three-valued truth: (known, value)
type sqlBool struct {
	null bool
	t    *term.Term
}

func (w *Worker) sqlCmp(op string, a, b sqlVal) sqlBool {
	if a.null || b.null {
		return sqlBool{null: true}
	}
	tf := w.TF
	var eq, lt *term.Term
	switch x := a.v.(type) {
	case *term.Term:
		y, ok := b.v.(*term.Term)
		if !ok {
			// SQLite: INTEGER sorts before TEXT; never equal
			return sqlBool{t: tf.Bool(op == "<>" || op == "<" || op == "<=")}
		}
		eq, lt = tf.Eq(x, y), tf.Slt(x, y)
	case *StrV:
		y, ok := b.v.(*StrV)
		if !ok {
			return sqlBool{t: tf.Bool(op == "<>" || op == ">" || op == ">=")}
		}
		eq, lt = w.strEq(x, y), w.strLess(x, y, false)
	case sqlTime:
		y, ok := b.v.(sqlTime)
		if !ok {
			panic(pathAbort{"unsupported", "sql: time compared with non-time"})
		}
		eq, lt = tf.Eq(x.ns, y.ns), tf.Slt(x.ns, y.ns)
	}
	switch op {
	case "=":
		return sqlBool{t: eq}
	case "<>":
		return sqlBool{t: tf.Not(eq)}
	case "<":
		return sqlBool{t: lt}
	case "<=":
		return sqlBool{t: tf.Or(lt, eq)}
	case ">":
		return sqlBool{t: tf.Not(tf.Or(lt, eq))}
	case ">=":
		return sqlBool{t: tf.Not(lt)}
	}
	panic("sqlCmp")
}

// sqlLike implements SQLite's default LIKE: % and _ wildcards, ASCII case-insensitive.
func (w *Worker) sqlLike(text, pat *StrV) *term.Term { return w.sqlLikeEsc(text, pat, nil) }

// sqlLikeEsc: SQLite LIKE (ASCII case-insensitive, % and _ wildcards) with an
// optional ESCAPE character: the character after it is matched literally.
func (w *Worker) sqlLikeEsc(text, pat *StrV, esc *term.Term) *term.Term {
	tf := w.TF
	n, m := len(text.B), len(pat.B)
	lower := func(b *term.Term) *term.Term {
		isUp := tf.And(tf.Ule(tf.Byte('A'), b), tf.Ule(b, tf.Byte('Z')))
		return tf.Ite(isUp, tf.BVOr(b, tf.Byte(0x20)), b)
	}
	memo := map[[2]int]*term.Term{}
	var match func(i, j int) *term.Term
	match = func(i, j int) *term.Term {
		if r, ok := memo[[2]int{i, j}]; ok {
			return r
		}
		var r *term.Term
		if j == m {
			r = tf.Bool(i == n)
		} else {
			pc := pat.B[j]
			isPct := tf.Eq(pc, tf.Byte('%'))
			isUnd := tf.Eq(pc, tf.Byte('_'))
			// '%': skip it, or consume one text byte and stay
			pctCase := match(i, j+1)
			if i < n {
				pctCase = tf.Or(pctCase, match(i+1, j))
			}
			other := tf.False
			if i < n {
				other = tf.And(tf.Or(isUnd, tf.Eq(lower(text.B[i]), lower(pc))), match(i+1, j+1))
			}
			r = tf.Ite(isPct, pctCase, other)
			if esc != nil && j+1 < m {
				lit := tf.False
				if i < n {
					lit = tf.And(tf.Eq(lower(text.B[i]), lower(pat.B[j+1])), match(i+1, j+2))
				}
				r = tf.Ite(tf.Eq(pc, esc), lit, r)
			}
		}
		memo[[2]int{i, j}] = r
		return r
	}
	return match(0, 0)
}

type sqlEnv struct {
	row   *sqlRow
	args  []sqlVal
	table string
	alias string
}

func (w *Worker) sqlEval(e sqlExpr, env *sqlEnv) sqlVal {
	tf := w.TF
	switch e := e.(type) {
	case sqlLit:
		return w.sqlLitVal(e.v)
	case sqlParam:
		if e.idx >= len(env.args) {
			panic(pathAbort{"unsupported", "sql: missing argument"})
		}
		return env.args[e.idx]
	case sqlCol:
		if env.row == nil {
			panic(pathAbort{"unsupported", "sql: column reference outside a row context: " + e.name})
		}
		if e.table != "" {
			if v, ok := env.row.cells[e.table+"."+e.name]; ok {
				return v
			}
		}
		v, ok := env.row.cells[e.name]
		if !ok {
			panic(pathAbort{"unsupported", "sql: unknown column " + e.name})
		}
		return v
	case sqlBin:
		switch e.op {
		case "and", "or", "=", "<>", "<", "<=", ">", ">=", "like":
			b := w.sqlTruth(e, env)
			if b.null {
				return sqlVal{null: true}
			}
			return sqlVal{v: tf.Ite(b.t, tf.Const(64, 1), tf.Const(64, 0))}
		}
		l, r := w.sqlEval(e.l, env), w.sqlEval(e.r, env)
		if l.null || r.null {
			return sqlVal{null: true}
		}
		switch e.op {
		case "+":
			return sqlVal{v: tf.BVAdd(l.v.(*term.Term), r.v.(*term.Term))}
		case "-":
			return sqlVal{v: tf.BVSub(l.v.(*term.Term), r.v.(*term.Term))}
		case "||":
			ls, ok1 := l.v.(*StrV)
			rs, ok2 := r.v.(*StrV)
			if !ok1 || !ok2 {
				panic(pathAbort{"unsupported", "sql: || on non-text"})
			}
			return sqlVal{v: &StrV{B: append(append([]*term.Term(nil), ls.B...), rs.B...)}}
		}
	case sqlNot, sqlIsNull, sqlIn, sqlExists:
		b := w.sqlTruth(e, env)
		if b.null {
			return sqlVal{null: true}
		}
		return sqlVal{v: tf.Ite(b.t, tf.Const(64, 1), tf.Const(64, 0))}
	case sqlCall:
		switch e.fn {
		case "coalesce":
			for _, a := range e.args {
				if v := w.sqlEval(a, env); !v.null {
					return v
				}
			}
			return sqlVal{null: true}
		case "nullif":
			a, b := w.sqlEval(e.args[0], env), w.sqlEval(e.args[1], env)
			c := w.sqlCmp("=", a, b)
			if !c.null && w.Branch(c.t) {
				return sqlVal{null: true}
			}
			return a
		case "length":
			a := w.sqlEval(e.args[0], env)
			if a.null {
				return a
			}
			s, ok := a.v.(*StrV)
			if !ok {
				panic(pathAbort{"unsupported", "sql: length of non-text"})
			}
			// characters = bytes for ASCII text (the harnesses' alphabets); stated bound
			return sqlVal{v: tf.Const(64, uint64(len(s.B)))}
		case "substr":
			a := w.sqlEval(e.args[0], env)
			if a.null {
				return a
			}
			s, ok := a.v.(*StrV)
			if !ok || len(e.args) != 3 {
				panic(pathAbort{"unsupported", "sql: substr form"})
			}
			st, okS := w.sqlEval(e.args[1], env).v.(*term.Term)
			ln, okL := w.sqlEval(e.args[2], env).v.(*term.Term)
			if !okS || !okL || !st.IsConst() || !ln.IsConst() || st.Signed() < 1 || ln.Signed() < 0 {
				panic(pathAbort{"unsupported", "sql: substr with non-constant or non-positive bounds"})
			}
			lo := int(st.Signed()) - 1
			hi := lo + int(ln.Signed())
			if lo > len(s.B) {
				lo = len(s.B)
			}
			if hi > len(s.B) {
				hi = len(s.B)
			}
			return sqlVal{v: &StrV{B: s.B[lo:hi:hi]}}
		case "lower", "upper":
			a := w.sqlEval(e.args[0], env)
			if a.null {
				return a
			}
			s := a.v.(*StrV)
			out := make([]*term.Term, len(s.B))
			for i, b := range s.B {
				if e.fn == "lower" {
					isUp := tf.And(tf.Ule(tf.Byte('A'), b), tf.Ule(b, tf.Byte('Z')))
					out[i] = tf.Ite(isUp, tf.BVOr(b, tf.Byte(0x20)), b)
				} else {
					isLo := tf.And(tf.Ule(tf.Byte('a'), b), tf.Ule(b, tf.Byte('z')))
					out[i] = tf.Ite(isLo, tf.BVAnd(b, tf.Byte(0xDF)), b)
				}
			}
			return sqlVal{v: &StrV{B: out}}
		}
	}
	panic(pathAbort{"unsupported", fmt.Sprintf("sql: expression %T %v", e, e)})
}

func (w *Worker) sqlTruth(e sqlExpr, env *sqlEnv) sqlBool {
	tf := w.TF
	if c, ok := e.(sqlCall); ok && c.fn == "like-escape" {
		l, r, x := w.sqlEval(c.args[0], env), w.sqlEval(c.args[1], env), w.sqlEval(c.args[2], env)
		if l.null || r.null || x.null {
			return sqlBool{null: true}
		}
		ls, ok1 := l.v.(*StrV)
		rs, ok2 := r.v.(*StrV)
		xs, ok3 := x.v.(*StrV)
		if !ok1 || !ok2 || !ok3 || len(xs.B) != 1 {
			panic(pathAbort{"unsupported", "sql: LIKE ... ESCAPE operands"})
		}
		return sqlBool{t: w.sqlLikeEsc(ls, rs, xs.B[0])}
	}
	switch e := e.(type) {
	case sqlBin:
		switch e.op {
		case "and":
			l, r := w.sqlTruth(e.l, env), w.sqlTruth(e.r, env)
			switch {
			case !l.null && !r.null:
				return sqlBool{t: tf.And(l.t, r.t)}
			case l.null && r.null:
				return sqlBool{null: true}
			case l.null:
				// NULL AND x: false if x is false, else NULL (both reject the row in WHERE)
				return sqlBool{t: tf.False}
			default:
				return sqlBool{t: tf.False}
			}
		case "or":
			l, r := w.sqlTruth(e.l, env), w.sqlTruth(e.r, env)
			switch {
			case !l.null && !r.null:
				return sqlBool{t: tf.Or(l.t, r.t)}
			case l.null && r.null:
				return sqlBool{null: true}
			case l.null:
				return r // NULL OR x: true iff x (NULL otherwise, which rejects)
			default:
				return l
			}
		case "like":
			l, r := w.sqlEval(e.l, env), w.sqlEval(e.r, env)
			if l.null || r.null {
				return sqlBool{null: true}
			}
			ls, ok1 := l.v.(*StrV)
			rs, ok2 := r.v.(*StrV)
			if !ok1 || !ok2 {
				panic(pathAbort{"unsupported", "sql: LIKE on non-text"})
			}
			return sqlBool{t: w.sqlLike(ls, rs)}
		case "=", "<>", "<", "<=", ">", ">=":
			return w.sqlCmp(e.op, w.sqlEval(e.l, env), w.sqlEval(e.r, env))
		}
	case sqlNot:
		b := w.sqlTruth(e.e, env)
		if b.null {
			return b
		}
		return sqlBool{t: tf.Not(b.t)}
	case sqlIsNull:
		v := w.sqlEval(e.e, env)
		return sqlBool{t: tf.Bool(v.null != e.not)}
	case sqlExists:
		// correlated sub-select: the inner row shadows the outer one; both are
		// reachable through their table name or alias
		db := w.sqlState()
		t2 := w.sqlTableOf(db, e.st.table)
		inner := e.st.alias
		if inner == "" {
			inner = e.st.table
		}
		r := tf.False
		for _, r2 := range t2.rows {
			j := &sqlRow{cells: map[string]sqlVal{}, id: r2.id}
			if env.row != nil {
				for k, v := range env.row.cells {
					j.cells[k] = v
					if outer := env.alias; outer != "" && !strings.Contains(k, ".") {
						j.cells[outer+"."+k] = v
					}
				}
			}
			for k, v := range r2.cells {
				j.cells[k] = v
				j.cells[inner+"."+k] = v
			}
			b := sqlBool{t: tf.True}
			if e.st.where != nil {
				b = w.sqlTruth(e.st.where, &sqlEnv{row: j, args: env.args, alias: inner})
			}
			if !b.null {
				r = tf.Or(r, b.t)
			}
		}
		return sqlBool{t: r}
	case sqlIn:
		v := w.sqlEval(e.e, env)
		if v.null {
			return sqlBool{null: true}
		}
		r := tf.False
		for _, it := range e.list {
			c := w.sqlCmp("=", v, w.sqlEval(it, env))
			if !c.null {
				r = tf.Or(r, c.t)
			}
		}
		if e.not {
			r = tf.Not(r)
		}
		return sqlBool{t: r}
	}
	v := w.sqlEval(e, env)
	if v.null {
		return sqlBool{null: true}
	}
	if t, ok := v.v.(*term.Term); ok {
		return sqlBool{t: tf.Not(tf.Eq(t, tf.Const(64, 0)))}
	}
	panic(pathAbort{"unsupported", "sql: non-boolean condition"})
}

// sqlMatch decides (forking if needed) whether the row satisfies cond.
func (w *Worker) sqlMatch(cond sqlExpr, env *sqlEnv) bool {
	if cond == nil {
		return true
	}
	b := w.sqlTruth(cond, env)
	if b.null {
		return false
	}
	return w.Branch(b.t)
}

// ---------- execution ----------

func (w *Worker) sqlState() *sqlDB {
	if w.sql == nil {
		w.sql = w.sqlLoadSchema()
	}
	return w.sql
}

func (w *Worker) sqlTableOf(db *sqlDB, name string) *sqlTable {
	t, ok := db.tables[name]
	if !ok {
		panic(pathAbort{"unsupported", "sql: unknown table " + name})
	}
	return t
}

// sqlConflict reports whether row (not yet / already in the table) collides with
// another row on a unique index; forks on symbolic equality.
func (w *Worker) sqlConflict(db *sqlDB, t *sqlTable, row *sqlRow) (*sqlRow, *sqlUnique) {
	for ui := range db.uniques {
		u := &db.uniques[ui]
		if u.table != t.name {
			continue
		}
		if !w.sqlMatch(u.where, &sqlEnv{row: row}) {
			continue
		}
		hasNull := false
		for _, c := range u.cols {
			if row.cells[c].null {
				hasNull = true
			}
		}
		if hasNull {
			continue // NULLs are distinct in unique indexes
		}
		for _, other := range t.rows {
			if other == row {
				continue
			}
			if !w.sqlMatch(u.where, &sqlEnv{row: other}) {
				continue
			}
			eq := w.TF.True
			skip := false
			for _, c := range u.cols {
				if other.cells[c].null {
					skip = true
					break
				}
				cb := w.sqlCmp("=", row.cells[c], other.cells[c])
				eq = w.TF.And(eq, cb.t)
			}
			if skip {
				continue
			}
			if w.Branch(eq) {
				return other, u
			}
		}
	}
	return nil, nil
}

func (w *Worker) sqlUniqueErr(u *sqlUnique) Value {
	// sqlite3.Error{Code: ErrConstraint(19), ExtendedCode: ErrConstraintUnique(2067)}
	pkg := w.P.Prog.ImportedPackage("github.com/mattn/go-sqlite3")
	if pkg == nil {
		panic(pathAbort{"unsupported", "sql: unique violation but go-sqlite3 is not loaded"})
	}
	et := pkg.Type("Error").Type()
	st := et.Underlying().(*types.Struct)
	f := make([]Value, st.NumFields())
	for i := range f {
		f[i] = w.zero(st.Field(i).Type())
		switch st.Field(i).Name() {
		case "Code":
			f[i] = w.TF.Const(64, 19)
		case "ExtendedCode":
			f[i] = w.TF.Const(64, 2067)
		case "err":
			f[i] = w.mkStr("UNIQUE constraint failed: " + u.name)
		}
	}
	return IfaceV{T: et, V: StructV{F: f}}
}

func (w *Worker) sqlDeleteRow(db *sqlDB, t *sqlTable, r *sqlRow) {
	for i, x := range t.rows {
		if x == r {
			t.rows = append(append([]*sqlRow(nil), t.rows[:i]...), t.rows[i+1:]...)
			break
		}
	}
	for _, fk := range db.fks {
		if fk.refTable != t.name || !fk.cascade {
			continue
		}
		ct := db.tables[fk.table]
		if ct == nil {
			continue
		}
		for _, cr := range append([]*sqlRow(nil), ct.rows...) {
			c := w.sqlCmp("=", cr.cells[fk.col], r.cells[fk.refCol])
			if !c.null && w.Branch(c.t) {
				w.sqlDeleteRow(db, ct, cr)
			}
		}
	}
}

// sqlExec runs a statement; returns (result rows, affected, error value or nil).
// sqlSplitUnionAll splits "select ... UNION ALL select ..." at parenthesis depth 0.
func sqlSplitUnionAll(src string) []string {
	var parts []string
	depth, start := 0, 0
	up := strings.ToUpper(src)
	inStr := false
	for i := 0; i < len(src); i++ {
		switch c := src[i]; {
		case c == '\'':
			inStr = !inStr
		case inStr:
		case c == '(':
			depth++
		case c == ')':
			depth--
		case depth == 0 && strings.HasPrefix(up[i:], " UNION ALL "):
			parts = append(parts, src[start:i])
			start = i + len(" UNION ALL ")
			i = start - 1
		}
	}
	return append(parts, src[start:])
}

func (w *Worker) sqlExec(src string, args []sqlVal) ([][]sqlVal, int, Value) {
	if parts := sqlSplitUnionAll(src); len(parts) > 1 {
		// UNION ALL of parameterless selects: the concatenation of their rows
		var all [][]sqlVal
		for _, part := range parts {
			if strings.Contains(part, "$") || strings.Contains(part, "?") {
				panic(pathAbort{"unsupported", "sql: UNION ALL with parameters: " + src})
			}
			rows, _, err := w.sqlExec(part, args)
			if err != nil {
				return nil, 0, err
			}
			all = append(all, rows...)
		}
		return all, 0, nil
	}
	db := w.sqlState()
	st, ok := w.sqlCache[src]
	if !ok {
		st = sqlParse(src)
		w.sqlCache[src] = st
	}
	db.stmts[src]++
	if sqlDebug {
		defer func() {
			var as []string
			for _, a := range args {
				if a.null {
					as = append(as, "NULL")
				} else {
					as = append(as, describe(a.v))
				}
			}
			if len(as) > 6 {
				as = append(as[:3], as[len(as)-3:]...)
			}
			fmt.Fprintf(os.Stderr, "SQL %s %s %v -> tables: %s\n", st.kind, st.table, as, w.sqlDump())
		}()
	}
	if len(args) < st.nparams {
		panic(pathAbort{"unsupported", fmt.Sprintf("sql: %d arguments for %d parameters: %s", len(args), st.nparams, src)})
	}
	t := w.sqlTableOf(db, st.table)
	project := func(cols []sqlExpr, r *sqlRow) []sqlVal {
		var out []sqlVal
		for _, c := range cols {
			if call, ok := c.(sqlCall); ok && call.star && call.fn == "*" {
				for _, cd := range t.cols {
					out = append(out, r.cells[cd.name])
				}
				continue
			}
			out = append(out, w.sqlEval(c, &sqlEnv{row: r, args: args}))
		}
		return out
	}
	switch st.kind {
	case "select":
		var sel []*sqlRow
		rows := t.rows
		if st.joinTable != "" {
			// inner join: nested loop over both tables; the joined row carries
			// every column as alias.name, and as a bare name when unambiguous
			// (the first table wins a clash)
			t2 := w.sqlTableOf(db, st.joinTable)
			a1, a2 := st.alias, st.joinAlias
			if a1 == "" {
				a1 = st.table
			}
			if a2 == "" {
				a2 = st.joinTable
			}
			rows = nil
			for _, r1 := range t.rows {
				matched := false
				for _, r2 := range t2.rows {
					j := &sqlRow{cells: map[string]sqlVal{}, id: r1.id*100000 + r2.id}
					for k, v := range r2.cells {
						j.cells[k] = v
						j.cells[a2+"."+k] = v
					}
					for k, v := range r1.cells {
						j.cells[k] = v
						j.cells[a1+"."+k] = v
					}
					if w.sqlMatch(st.joinOn, &sqlEnv{row: j, args: args}) {
						rows = append(rows, j)
						matched = true
					}
				}
				if st.joinLeft && !matched {
					// left join: the unmatched left row with NULLs for the right table
					j := &sqlRow{cells: map[string]sqlVal{}, id: r1.id * 100000}
					for _, cd := range t2.cols {
						j.cells[cd.name] = sqlVal{null: true}
						j.cells[a2+"."+cd.name] = sqlVal{null: true}
					}
					for k, v := range r1.cells {
						j.cells[k] = v
						j.cells[a1+"."+k] = v
					}
					rows = append(rows, j)
				}
			}
			for _, c := range st.cols {
				if call, ok := c.(sqlCall); ok && call.star && call.fn == "*" {
					panic(pathAbort{"unsupported", "sql: * in a join: " + src})
				}
			}
		}
		outerName := st.alias
		if outerName == "" {
			outerName = st.table
		}
		for _, r := range rows {
			if w.sqlMatch(st.where, &sqlEnv{row: r, args: args, alias: outerName}) {
				sel = append(sel, r)
			}
		}
		// sameVals: SQL grouping equality (NULLs group together), forking on symbolic values
		sameVals := func(a, b []sqlVal) bool {
			for i := range a {
				if a[i].null || b[i].null {
					if a[i].null != b[i].null {
						return false
					}
					continue
				}
				if !w.Branch(w.sqlCmp("=", a[i], b[i]).t) {
					return false
				}
			}
			return true
		}
		if len(st.groupBy) > 0 {
			// GROUP BY: groups in order of first appearance (SQLite emits them in key
			// order; no consumer in scope depends on the order); the select list may
			// hold COUNT(*), COUNT(DISTINCT e), MIN(e), MAX(e) and expressions, which are
			// evaluated on the group's first row
			type group struct {
				key  []sqlVal
				rows []*sqlRow
			}
			var groups []*group
			for _, r := range sel {
				var key []sqlVal
				for _, g := range st.groupBy {
					key = append(key, w.sqlEval(g, &sqlEnv{row: r, args: args, alias: outerName}))
				}
				var into *group
				for _, g := range groups {
					if sameVals(g.key, key) {
						into = g
						break
					}
				}
				if into == nil {
					into = &group{key: key}
					groups = append(groups, into)
				}
				into.rows = append(into.rows, r)
			}
			var out [][]sqlVal
			for _, g := range groups {
				var row []sqlVal
				for _, c := range st.cols {
					call, isCall := c.(sqlCall)
					switch {
					case isCall && call.fn == "count" && call.star:
						row = append(row, sqlVal{v: w.TF.Const(64, uint64(len(g.rows)))})
					case isCall && call.fn == "count" && len(call.args) == 1:
						var seen [][]sqlVal
						for _, r := range g.rows {
							v := w.sqlEval(call.args[0], &sqlEnv{row: r, args: args, alias: outerName})
							if v.null {
								continue
							}
							dup := false
							if call.distinct {
								for _, pv := range seen {
									if sameVals(pv, []sqlVal{v}) {
										dup = true
										break
									}
								}
							}
							if !dup {
								seen = append(seen, []sqlVal{v})
							}
						}
						row = append(row, sqlVal{v: w.TF.Const(64, uint64(len(seen)))})
					case isCall && (call.fn == "min" || call.fn == "max") && len(call.args) == 1:
						best := sqlVal{null: true}
						for _, r := range g.rows {
							v := w.sqlEval(call.args[0], &sqlEnv{row: r, args: args, alias: outerName})
							if v.null {
								continue
							}
							op := "<"
							if call.fn == "max" {
								op = ">"
							}
							if best.null || w.Branch(w.sqlCmp(op, v, best).t) {
								best = v
							}
						}
						row = append(row, best)
					default:
						row = append(row, w.sqlEval(c, &sqlEnv{row: g.rows[0], args: args, alias: outerName}))
					}
				}
				out = append(out, row)
			}
			return out, 0, nil
		}
		if len(st.cols) == 1 {
			if c, ok := st.cols[0].(sqlCall); ok && c.fn == "count" {
				if !c.star || c.distinct {
					panic(pathAbort{"unsupported", "sql: COUNT(expr) without GROUP BY: " + src})
				}
				return [][]sqlVal{{{v: w.TF.Const(64, uint64(len(sel)))}}}, 0, nil
			}
		}
		if len(st.order) > 0 {
			less := func(a, b *sqlRow) bool {
				for _, o := range st.order {
					va, vb := w.sqlEval(o.e, &sqlEnv{row: a, args: args}), w.sqlEval(o.e, &sqlEnv{row: b, args: args})
					if o.desc {
						va, vb = vb, va
					}
					// NULLs first in ascending order
					if va.null || vb.null {
						if va.null && !vb.null {
							return true
						}
						if !va.null && vb.null {
							return false
						}
						continue
					}
					if w.Branch(w.sqlCmp("<", va, vb).t) {
						return true
					}
					if w.Branch(w.sqlCmp("<", vb, va).t) {
						return false
					}
				}
				return false
			}
			for i := 1; i < len(sel); i++ {
				for j := i; j > 0 && less(sel[j], sel[j-1]); j-- {
					sel[j], sel[j-1] = sel[j-1], sel[j]
				}
			}
		}
		if st.limit != nil {
			lv := w.sqlEval(st.limit, &sqlEnv{args: args})
			n := int(int64(w.Concretize(lv.v.(*term.Term), "LIMIT", 16)))
			if n >= 0 && n < len(sel) {
				sel = sel[:n]
			}
		}
		var out [][]sqlVal
		for _, r := range sel {
			row := project(st.cols, r)
			if st.distinct {
				dup := false
				for _, prev := range out {
					same := true
					for i := range row {
						if row[i].null || prev[i].null {
							same = same && row[i].null && prev[i].null
							continue
						}
						if !w.Branch(w.sqlCmp("=", row[i], prev[i]).t) {
							same = false
							break
						}
					}
					if same {
						dup = true
						break
					}
				}
				if dup {
					continue
				}
			}
			out = append(out, row)
		}
		return out, 0, nil
	case "insert":
		db.rowSeq++
		row := &sqlRow{cells: map[string]sqlVal{}, id: db.rowSeq}
		for _, cd := range t.cols {
			if cd.hasDeflt {
				row.cells[cd.name] = w.sqlLitVal(*cd.def)
			} else {
				row.cells[cd.name] = sqlVal{null: true}
			}
		}
		if len(st.insCols) != len(st.insVals) {
			panic(pathAbort{"unsupported", "sql: insert column/value count"})
		}
		for i, c := range st.insCols {
			if _, ok := row.cells[c]; !ok {
				panic(pathAbort{"unsupported", "sql: insert into unknown column " + c})
			}
			row.cells[c] = w.sqlEval(st.insVals[i], &sqlEnv{args: args})
		}
		for _, cd := range t.cols {
			if cd.notNull && row.cells[cd.name].null {
				return nil, 0, w.sqlPlainErr("NOT NULL constraint failed: " + t.name + "." + cd.name)
			}
		}
		if other, u := w.sqlConflict(db, t, row); other != nil {
			switch st.onConfl {
			case "nothing":
				return nil, 0, nil
			case "replace":
				w.sqlDeleteRow(db, t, other)
			default:
				return nil, 0, w.sqlUniqueErr(u)
			}
		}
		t.rows = append(t.rows, row)
		return nil, 1, nil
	case "update":
		n := 0
		var ret [][]sqlVal
		for _, r := range t.rows {
			if !w.sqlMatch(st.where, &sqlEnv{row: r, args: args}) {
				continue
			}
			old := r.cells
			nc := make(map[string]sqlVal, len(old))
			for k, v := range old {
				nc[k] = v
			}
			for _, s := range st.sets {
				if _, ok := nc[s.col]; !ok {
					panic(pathAbort{"unsupported", "sql: update of unknown column " + s.col})
				}
				nc[s.col] = w.sqlEval(s.e, &sqlEnv{row: r, args: args})
			}
			r.cells = nc
			if other, u := w.sqlConflict(db, t, r); other != nil {
				r.cells = old
				return nil, 0, w.sqlUniqueErr(u)
			}
			n++
			if st.returning != nil {
				ret = append(ret, project(st.returning, r))
			}
		}
		return ret, n, nil
	case "delete":
		n := 0
		var ret [][]sqlVal
		for _, r := range append([]*sqlRow(nil), t.rows...) {
			if !w.sqlMatch(st.where, &sqlEnv{row: r, args: args}) {
				continue
			}
			if st.returning != nil {
				ret = append(ret, project(st.returning, r))
			}
			w.sqlDeleteRow(db, t, r)
			n++
		}
		return ret, n, nil
	}
	panic("sqlExec")
}

func (w *Worker) sqlPlainErr(msg string) Value {
	errNew := w.P.Prog.ImportedPackage("errors").Func("New")
	return w.call(w.cur, errNew, []Value{w.mkStr(msg)}, nil)
}

// ---------- Go-side conversion (Scan) ----------

func (w *Worker) sqlScanInto(dest Value, v sqlVal) Value {
	iv, ok := dest.(IfaceV)
	if !ok || iv.T == nil {
		panic(pathAbort{"unsupported", "sql: Scan destination"})
	}
	p, ok := iv.V.(PtrV)
	if !ok || p.O == nil {
		panic(pathAbort{"unsupported", "sql: Scan destination is not a pointer"})
	}
	et := deref(iv.T)
	// database/sql.NullInt64 / NullString / NullBool: {value, Valid}; their
	// Scan methods go through reflection (convertAssign)
	switch et.String() {
	case "database/sql.NullInt64", "database/sql.NullString", "database/sql.NullBool", "database/sql.NullInt32":
		st := et.Underlying().(*types.Struct)
		if v.null {
			w.store(w.kid(p.O, 0), w.zero(st.Field(0).Type()))
			w.store(w.kid(p.O, 1), w.TF.False)
			return nil
		}
		w.store(w.kid(p.O, 1), w.TF.True)
		return w.sqlScanInto(IfaceV{T: types.NewPointer(st.Field(0).Type()), V: PtrV{O: w.kid(p.O, 0)}}, v)
	}
	// sql.Scanner implementations
	if m := w.lookupMethodNamed(iv.T, "Scan"); m != nil && m.Signature.Params().Len() == 1 {
		var arg Value = IfaceV{}
		if !v.null {
			switch x := v.v.(type) {
			case *StrV:
				arg = IfaceV{T: types.Typ[types.String], V: x}
			case *term.Term:
				arg = IfaceV{T: types.Typ[types.Int64], V: x}
			}
		}
		return w.call(w.cur, m, []Value{p, arg}, nil)
	}
	if pt, isPtr := et.Underlying().(*types.Pointer); isPtr {
		if v.null {
			w.store(p.O, PtrV{})
			return nil
		}
		inner := w.newObj(pt.Elem())
		w.store(p.O, PtrV{O: inner})
		return w.sqlScanInto(IfaceV{T: et, V: PtrV{O: inner}}, v)
	}
	if v.null {
		if _, isIface := et.Underlying().(*types.Interface); isIface {
			w.store(p.O, IfaceV{})
			return nil
		}
		if sl, isSlice := et.Underlying().(*types.Slice); isSlice {
			if b, ok := sl.Elem().Underlying().(*types.Basic); ok && b.Kind() == types.Uint8 {
				// database/sql: NULL into *[]byte yields nil
				w.store(p.O, w.zero(et))
				return nil
			}
		}
		return w.sqlPlainErr("sql: Scan error: converting NULL to " + et.String() + " is unsupported")
	}
	switch x := v.v.(type) {
	case *StrV:
		if isString(et) {
			w.store(p.O, x)
			return nil
		}
		if sl, ok := et.Underlying().(*types.Slice); ok {
			w.store(p.O, w.strToBytes(x, sl.Elem()))
			return nil
		}
	case *term.Term:
		if bw, signed, ok := intInfo(et); ok {
			if bw == 0 {
				w.store(p.O, w.TF.Not(w.TF.Eq(x, w.TF.Const(64, 0))))
			} else {
				w.store(p.O, w.TF.Resize(x, bw, signed))
			}
			return nil
		}
	case sqlTime:
		if et.String() == "time.Time" {
			tp := w.P.Prog.ImportedPackage("time")
			t := w.call(w.cur, tp.Func("Unix"), []Value{w.TF.Const(64, 0), x.ns}, nil)
			utc := w.P.Prog.LookupMethod(et, tp.Pkg, "UTC")
			w.store(p.O, w.call(w.cur, utc, []Value{t}, nil))
			return nil
		}
	}
	panic(pathAbort{"unsupported", fmt.Sprintf("sql: Scan of %T into %s", v.v, et)})
}

// ---------- database/sql intrinsics ----------

var sqlDebug = os.Getenv("GOSMT_SQLDEBUG") != ""

type sqlResultVal struct{ n int }

type sqlResultMethod struct {
	name string
	n    int
}

func (w *Worker) sqlArgs(argsV Value) []sqlVal {
	var out []sqlVal
	for _, a := range w.sliceVals(argsV) {
		iv, _ := a.(IfaceV)
		if iv.T == nil {
			out = append(out, sqlVal{null: true})
			continue
		}
		out = append(out, w.sqlFromGo(iv.V, iv.T))
	}
	return out
}

func (w *Worker) sqlNewRows(rows [][]sqlVal, typeName string) Value {
	pkg := w.P.Prog.ImportedPackage("database/sql")
	rt := pkg.Type(typeName).Type()
	o := w.newObj(rt)
	w.sqlRows[o] = &sqlRowsState{rows: rows, pos: -1}
	return PtrV{O: o}
}

func init() {
	reg(func(w *Worker, _ *frame, fn *ssa.Function, a []Value) Value {
		src := w.concStr(a[2], "sql statement")
		_, n, err := w.sqlExec(src, w.sqlArgs(a[3]))
		if err != nil {
			return TupleV{IfaceV{}, err}
		}
		return TupleV{IfaceV{T: stubType, V: sqlResultVal{n}}, IfaceV{}}
	}, "(*database/sql.Tx).ExecContext")
	reg(func(w *Worker, _ *frame, fn *ssa.Function, a []Value) Value {
		src := w.concStr(a[2], "sql statement")
		rows, _, err := w.sqlExec(src, w.sqlArgs(a[3]))
		if err != nil {
			return TupleV{PtrV{}, err}
		}
		return TupleV{w.sqlNewRows(rows, "Rows"), IfaceV{}}
	}, "(*database/sql.Tx).QueryContext")
	reg(func(w *Worker, _ *frame, fn *ssa.Function, a []Value) Value {
		src := w.concStr(a[2], "sql statement")
		rows, _, err := w.sqlExec(src, w.sqlArgs(a[3]))
		r := w.sqlNewRows(rows, "Row").(PtrV)
		if err != nil {
			w.sqlRows[r.O].err = err
		}
		return r
	}, "(*database/sql.Tx).QueryRowContext")
	reg(func(w *Worker, _ *frame, fn *ssa.Function, a []Value) Value {
		st := w.sqlRows[a[0].(PtrV).O]
		st.pos++
		return w.TF.Bool(st.pos < len(st.rows))
	}, "(*database/sql.Rows).Next")
	reg(func(w *Worker, _ *frame, fn *ssa.Function, a []Value) Value { return IfaceV{} },
		"(*database/sql.Rows).Close", "(*database/sql.Rows).Err", "(*database/sql.Row).Err")
	scan := func(w *Worker, _ *frame, fn *ssa.Function, a []Value) Value {
		st := w.sqlRows[a[0].(PtrV).O]
		if st == nil {
			panic(pathAbort{"unsupported", "sql: Scan on unknown rows"})
		}
		if fn.Name() == "Scan" && strings.Contains(fn.String(), "sql.Row)") {
			if st.err != nil {
				return st.err
			}
			if len(st.rows) == 0 {
				g := w.P.Prog.ImportedPackage("database/sql").Var("ErrNoRows")
				return w.load(w.global(g))
			}
			st.pos = 0
		}
		if st.pos < 0 || st.pos >= len(st.rows) {
			return w.sqlPlainErr("sql: Scan called without calling Next")
		}
		dests := w.sliceVals(a[1])
		row := st.rows[st.pos]
		if len(dests) != len(row) {
			return w.sqlPlainErr(fmt.Sprintf("sql: expected %d destination arguments in Scan, not %d", len(row), len(dests)))
		}
		for i, d := range dests {
			if err := w.sqlScanInto(d, row[i]); err != nil {
				return err
			}
		}
		return IfaceV{}
	}
	reg(scan, "(*database/sql.Rows).Scan", "(*database/sql.Row).Scan")
}

// sqlDump renders the tables for diagnostics.
func (w *Worker) sqlDump() string {
	if w.sql == nil {
		return ""
	}
	var sb strings.Builder
	var names []string
	for n, t := range w.sql.tables {
		if len(t.rows) > 0 {
			names = append(names, n)
		}
	}
	sort.Strings(names)
	for _, n := range names {
		fmt.Fprintf(&sb, "%s: %d rows; ", n, len(w.sql.tables[n].rows))
	}
	return sb.String()
}

// ---------- transactions: snapshot / restore ----------

func (db *sqlDB) clone() *sqlDB {
	n := &sqlDB{tables: map[string]*sqlTable{}, uniques: db.uniques, fks: db.fks, rowSeq: db.rowSeq, stmts: db.stmts}
	for name, t := range db.tables {
		nt := &sqlTable{name: t.name, cols: t.cols, rows: make([]*sqlRow, len(t.rows))}
		for i, r := range t.rows {
			cells := make(map[string]sqlVal, len(r.cells))
			for k, v := range r.cells {
				cells[k] = v
			}
			nt.rows[i] = &sqlRow{cells: cells, id: r.id}
		}
		n.tables[name] = nt
	}
	return n
}

func init() {
	// verifSQLBegin(tx *sql.Tx): a write transaction starts; remember the database state
	harnessIntrinsicsExtra["verifSQLBegin"] = func(w *Worker, _ *frame, _ *ssa.Function, a []Value) Value {
		iv, _ := a[0].(IfaceV)
		p, ok := iv.V.(PtrV)
		if !ok || p.O == nil {
			panic(pathAbort{"unsupported", "verifSQLBegin needs a *sql.Tx"})
		}
		w.sqlTx[p.O] = &sqlTxState{snap: w.sqlState().clone()}
		return nil
	}
	txEnd := func(commit bool) intrinsic {
		return func(w *Worker, _ *frame, fn *ssa.Function, a []Value) Value {
			p := a[0].(PtrV)
			st := w.sqlTx[p.O]
			if st == nil {
				// a transaction the harness did not register: nothing to undo
				st = &sqlTxState{}
				w.sqlTx[p.O] = st
			}
			if st.done {
				g := w.P.Prog.ImportedPackage("database/sql").Var("ErrTxDone")
				return w.load(w.global(g))
			}
			st.done = true
			if !commit && st.snap != nil {
				w.sql = st.snap
			}
			st.committed = commit
			return IfaceV{}
		}
	}
	reg(txEnd(true), "(*database/sql.Tx).Commit")
	reg(txEnd(false), "(*database/sql.Tx).Rollback")
}

type sqlTxState struct {
	snap      *sqlDB
	done      bool
	committed bool
}
