package sym

import (
	"fmt"
	"go/types"
	"strings"

	"gosmt/term"

	"golang.org/x/tools/go/ssa"
)

// Value is the dynamic value of an SSA register or memory cell.
//
//	*term.Term   bool and all integer kinds (Bool / BitVec N)
//	FloatV       float32/64 (concrete only)
//	*StrV        string: concrete length, per-byte terms (or opaque)
//	PtrV         pointer to an *Obj (nil Obj = nil pointer)
//	SliceV       slice header over an array *Obj
//	*MapV        map (pointer identity; nil = nil map)
//	IfaceV       interface value (T == nil = nil interface)
//	StructV      struct register value
//	ArrayV       array register value
//	TupleV       multiple results
//	*ssa.Function, *ssa.Builtin, *Closure, NilFunc  func values
//	*ChanV       channel (sequential model)
//	*IterV       map/string range iterator
//	Poison       result of something the engine does not model
type Value interface{}

type FloatV float64

type StrV struct {
	B      []*term.Term
	Opaque *Opaque
}

// Opaque is a string whose content is not modelled (result of formatting).
type Opaque struct {
	ID   int
	Fmt  string
	Args []Value
}

type Obj struct {
	Typ    types.Type
	Leaf   bool
	V      Value  // leaf
	Kids   []*Obj // struct fields or array elements (lazily created when nil)
	N      int    // number of kids (arrays may be lazily populated)
	ID     int
	Glob   bool // created by a package initialiser
	Parent *Obj
	Sparse map[int]*Obj // element storage of very large arrays (Kids stays nil)
	// lock-set monitor
	Guard string
}

type PtrV struct {
	O *Obj
	// symbolic element pointer: Arr[Idx] with Idx symbolic (O == nil then)
	Arr *Obj
	Off int
	Len int
	Idx *term.Term
	// function pointers to non-memory things are not modelled
}

type SliceV struct {
	Arr *Obj
	Off int
	Len int
	Cap int
}

type MapV struct {
	Keys []Value
	Vals []Value
	KT   types.Type
	VT   types.Type
	ID   int
	Glob bool
}

type IfaceV struct {
	T types.Type
	V Value
}

type StructV struct{ F []Value }
type ArrayV struct{ E []Value }
type TupleV []Value

type Closure struct {
	Fn  *ssa.Function
	Env []Value
}

type NilFunc struct{}

type ChanV struct {
	Buf    []Value
	Cap    int
	Closed bool
	ET     types.Type
	ID     int
}

type IterV struct {
	M    *MapV
	S    *StrV
	Pos  int
	Keys []Value // snapshot
	Vals []Value
}

type Poison struct{ Why string }

func (p Poison) String() string { return "poison(" + p.Why + ")" }

// ---------- helpers ----------

func isNilPtr(p PtrV) bool { return p.O == nil && p.Arr == nil }

func (s *StrV) Len() int { return len(s.B) }

func (s *StrV) Concrete() (string, bool) {
	if s.Opaque != nil {
		return "", false
	}
	var sb strings.Builder
	for _, b := range s.B {
		if !b.IsConst() {
			return "", false
		}
		sb.WriteByte(byte(b.Val))
	}
	return sb.String(), true
}

func (w *Worker) mkStr(s string) *StrV {
	b := make([]*term.Term, len(s))
	for i := 0; i < len(s); i++ {
		b[i] = w.TF.Byte(s[i])
	}
	return &StrV{B: b}
}

func describe(v Value) string {
	switch v := v.(type) {
	case nil:
		return "<nil>"
	case *term.Term:
		return v.String()
	case *StrV:
		if v.Opaque != nil {
			return fmt.Sprintf("opaque#%d(%q)", v.Opaque.ID, v.Opaque.Fmt)
		}
		if s, ok := v.Concrete(); ok {
			return fmt.Sprintf("%q", s)
		}
		return fmt.Sprintf("symstr[%d]", len(v.B))
	case PtrV:
		if isNilPtr(v) {
			return "nilptr"
		}
		if v.O != nil {
			return fmt.Sprintf("&obj%d", v.O.ID)
		}
		return "&sym-elem"
	case IfaceV:
		if v.T == nil {
			return "nil-iface"
		}
		return fmt.Sprintf("iface(%s, %s)", v.T, describe(v.V))
	case StructV:
		parts := make([]string, len(v.F))
		for i, f := range v.F {
			parts[i] = describe(f)
		}
		return "{" + strings.Join(parts, ", ") + "}"
	case SliceV:
		return fmt.Sprintf("slice[%d:%d]", v.Off, v.Off+v.Len)
	}
	return fmt.Sprintf("%T", v)
}

// ---------- type classification ----------

func intInfo(t types.Type) (w int, signed bool, ok bool) {
	b, isb := t.Underlying().(*types.Basic)
	if !isb {
		return 0, false, false
	}
	switch b.Kind() {
	case types.Bool, types.UntypedBool:
		return 0, false, true
	case types.Int8:
		return 8, true, true
	case types.Int16:
		return 16, true, true
	case types.Int32, types.UntypedRune:
		return 32, true, true
	case types.Int, types.Int64, types.UntypedInt:
		return 64, true, true
	case types.Uint8:
		return 8, false, true
	case types.Uint16:
		return 16, false, true
	case types.Uint32:
		return 32, false, true
	case types.Uint, types.Uint64, types.Uintptr:
		return 64, false, true
	}
	return 0, false, false
}

func isFloat(t types.Type) bool {
	b, ok := t.Underlying().(*types.Basic)
	return ok && b.Info()&types.IsFloat != 0
}

func isString(t types.Type) bool {
	b, ok := t.Underlying().(*types.Basic)
	return ok && b.Info()&types.IsString != 0
}

func deref(t types.Type) types.Type {
	if p, ok := t.Underlying().(*types.Pointer); ok {
		return p.Elem()
	}
	panic(fmt.Sprintf("deref of non-pointer %s", t))
}

// ---------- zero values & objects ----------

func (w *Worker) zero(t types.Type) Value {
	switch u := t.Underlying().(type) {
	case *types.Basic:
		if bw, _, ok := intInfo(u); ok {
			return w.TF.Const(bw, 0)
		}
		switch {
		case u.Info()&types.IsFloat != 0:
			return FloatV(0)
		case u.Info()&types.IsString != 0:
			return &StrV{}
		case u.Kind() == types.UnsafePointer:
			return PtrV{}
		case u.Kind() == types.UntypedNil:
			return PtrV{}
		}
		return Poison{"zero of " + t.String()}
	case *types.Pointer:
		return PtrV{}
	case *types.Slice:
		return SliceV{}
	case *types.Map:
		return (*MapV)(nil)
	case *types.Interface:
		return IfaceV{}
	case *types.Signature:
		return NilFunc{}
	case *types.Chan:
		return (*ChanV)(nil)
	case *types.Struct:
		f := make([]Value, u.NumFields())
		for i := range f {
			f[i] = w.zero(u.Field(i).Type())
		}
		return StructV{f}
	case *types.Array:
		n := int(u.Len())
		e := make([]Value, n)
		for i := range e {
			e[i] = w.zero(u.Elem())
		}
		return ArrayV{e}
	case *types.Tuple:
		tv := make(TupleV, u.Len())
		for i := range tv {
			tv[i] = w.zero(u.At(i).Type())
		}
		return tv
	}
	return Poison{"zero of " + t.String()}
}

// newObj allocates zeroed storage of type t.
func (w *Worker) newObj(t types.Type) *Obj {
	w.objSeq++
	o := &Obj{Typ: t, ID: w.objSeq}
	switch u := t.Underlying().(type) {
	case *types.Struct:
		o.N = u.NumFields()
		o.Kids = make([]*Obj, o.N)
	case *types.Array:
		o.N = int(u.Len())
		if o.N > sparseArrayThreshold {
			o.Sparse = map[int]*Obj{}
		} else {
			o.Kids = make([]*Obj, o.N)
		}
	default:
		o.Leaf = true
		o.V = w.zero(t)
	}
	return o
}

// newArrayObj allocates an array object of n elements of type elem.
func (w *Worker) newArrayObj(elem types.Type, n int) *Obj {
	return w.newObj(types.NewArray(elem, int64(n)))
}

func (o *Obj) elemType(i int) types.Type {
	switch u := o.Typ.Underlying().(type) {
	case *types.Struct:
		return u.Field(i).Type()
	case *types.Array:
		return u.Elem()
	}
	panic("elemType of leaf")
}

const sparseArrayThreshold = 1 << 20

func (w *Worker) kid(o *Obj, i int) *Obj {
	if o.Leaf {
		panic(fmt.Sprintf("kid of leaf object of type %s", o.Typ))
	}
	if i < 0 || i >= o.N {
		panic(fmt.Sprintf("kid index %d out of range %d", i, o.N))
	}
	if o.Sparse != nil {
		k := o.Sparse[i]
		if k == nil {
			k = w.newObj(o.elemType(i))
			k.Guard, k.Glob, k.Parent = o.Guard, o.Glob, o
			o.Sparse[i] = k
		}
		return k
	}
	k := o.Kids[i]
	if k == nil {
		k = w.newObj(o.elemType(i))
		k.Guard = o.Guard
		k.Glob = o.Glob
		k.Parent = o
		o.Kids[i] = k
	}
	return k
}

func (w *Worker) load(o *Obj) Value {
	if o.Leaf {
		return o.V
	}
	switch o.Typ.Underlying().(type) {
	case *types.Struct:
		f := make([]Value, o.N)
		for i := range f {
			if o.Kids[i] == nil {
				f[i] = w.zero(o.elemType(i))
			} else {
				f[i] = w.load(o.Kids[i])
			}
		}
		return StructV{f}
	case *types.Array:
		e := make([]Value, o.N)
		var z Value
		for i := range e {
			if o.Kids[i] == nil {
				if z == nil {
					z = w.zero(o.elemType(i))
				}
				e[i] = z
			} else {
				e[i] = w.load(o.Kids[i])
			}
		}
		return ArrayV{e}
	}
	panic("load: bad object")
}

func (w *Worker) store(o *Obj, v Value) {
	if o.Glob && w.inInit == 0 && !w.restoring {
		// package-level state written by a path is restored before the next path
		if !w.globSaved[o] {
			w.globSaved[o] = true
			w.restoring = true
			w.globUndo = append(w.globUndo, globUndo{o, w.load(o)})
			w.restoring = false
		}
	}
	if o.Leaf {
		o.V = v
		return
	}
	switch v := v.(type) {
	case StructV:
		for i, f := range v.F {
			w.store(w.kid(o, i), f)
		}
	case ArrayV:
		for i, e := range v.E {
			w.store(w.kid(o, i), e)
		}
	case Poison:
		for i := 0; i < o.N; i++ {
			w.store(w.kid(o, i), v)
		}
	default:
		panic(fmt.Sprintf("store %T into composite %s", v, o.Typ))
	}
}
