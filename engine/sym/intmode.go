package sym

// Int mode: values created by verifMathInt64 are mathematical integers (SMT
// Int). Arithmetic on them stays in Int, and every result carries a range
// obligation for its Go type: the executor proves (pc => result fits) before
// continuing, so the Int semantics coincide with Go's wrap-around semantics on
// every explored path. A possible overflow ends the path as "overflow" (the
// check is then broken, never passed).

import (
	"fmt"
	"go/token"
	"go/types"
	"math"

	"gosmt/solver"
	"gosmt/term"
)

func isIntT(t *term.Term) bool { return t.W == term.IntW }

func (w *Worker) toInt(t *term.Term, typ types.Type) *term.Term {
	if isIntT(t) {
		return t
	}
	if t.W == 0 {
		panic(pathAbort{"unsupported", "bool in integer arithmetic"})
	}
	_, signed, _ := intInfo(typ)
	return w.TF.BV2Int(t, signed)
}

func (w *Worker) typeRange(typ types.Type) (lo, hi *term.Term) {
	bw, signed, ok := intInfo(typ)
	if !ok || bw == 0 {
		panic(pathAbort{"unsupported", "range of non-integer type " + typ.String()})
	}
	tf := w.TF
	if signed {
		return tf.IntConst(-1 << uint(bw-1)), tf.IntConst(1<<uint(bw-1) - 1)
	}
	if bw == 64 {
		m := tf.IntConst(math.MaxInt64)
		return tf.IntConst(0), tf.IBin(term.OpIAdd, tf.IBin(term.OpIAdd, m, m), tf.IntConst(1))
	}
	return tf.IntConst(0), tf.IntConst(1<<uint(bw) - 1)
}

// fits discharges the obligation that r lies in the range of typ.
func (w *Worker) fits(r *term.Term, typ types.Type, what string) *term.Term {
	tf := w.TF
	lo, hi := w.typeRange(typ)
	in := tf.And(tf.IBin(term.OpILe, lo, r), tf.IBin(term.OpILe, r, hi))
	if in.IsTrue() {
		return r
	}
	if in.IsFalse() {
		panic(pathAbort{"overflow", what + " overflows " + typ.String()})
	}
	if w.P.Concrete {
		panic(pathAbort{"unsupported", "int mode in concrete run"})
	}
	if !w.replaying {
		switch w.checkWith(tf.Not(in)) {
		case solver.Sat:
			panic(pathAbort{"overflow", fmt.Sprintf("%s may overflow %s (the Int model would diverge from Go's wrap-around); tighten the harness bounds", what, typ)})
		case solver.Unknown:
			w.res.Sites["$branch"].Unknown++
		}
		w.res.Sites["$range"].Discharged++
	}
	w.addPC(in)
	return r
}

func (w *Worker) intBinop(op token.Token, xt, yt types.Type, x, y *term.Term) Value {
	tf := w.TF
	a, b := w.toInt(x, xt), w.toInt(y, yt)
	switch op {
	case token.ADD:
		return w.fits(tf.IBin(term.OpIAdd, a, b), xt, "addition")
	case token.SUB:
		return w.fits(tf.IBin(term.OpISub, a, b), xt, "subtraction")
	case token.MUL:
		return w.fits(tf.IBin(term.OpIMul, a, b), xt, "multiplication")
	case token.QUO, token.REM:
		zero := tf.IntConst(0)
		if !w.Branch(tf.Not(tf.Eq(b, zero))) {
			w.rtPanic("integer divide by zero")
		}
		// Go truncates toward zero; SMT div/mod are Euclidean. Split on signs.
		bpos := tf.IBin(term.OpILt, zero, b)
		apos := tf.IBin(term.OpILe, zero, a)
		absA := tf.Ite(apos, a, tf.INeg(a))
		absB := tf.Ite(bpos, b, tf.INeg(b))
		q0 := tf.IBin(term.OpIDiv, absA, absB)
		sameSign := tf.Eq(apos, bpos)
		// a == 0 has apos true; sign only matters when q0 != 0
		q := tf.Ite(sameSign, q0, tf.INeg(q0))
		if op == token.QUO {
			return w.fits(q, xt, "division")
		}
		return tf.IBin(term.OpISub, a, tf.IBin(term.OpIMul, q, b))
	case token.LSS:
		return tf.IBin(term.OpILt, a, b)
	case token.LEQ:
		return tf.IBin(term.OpILe, a, b)
	case token.GTR:
		return tf.IBin(term.OpILt, b, a)
	case token.GEQ:
		return tf.IBin(term.OpILe, b, a)
	case token.EQL:
		return tf.Eq(a, b)
	case token.NEQ:
		return tf.Not(tf.Eq(a, b))
	case token.SHL:
		if y.IsConst() && y.Val < 62 {
			return w.fits(tf.IBin(term.OpIMul, a, tf.IntConst(1<<y.Val)), xt, "shift")
		}
	case token.SHR:
		if y.IsConst() && y.Val < 62 {
			return tf.IBin(term.OpIDiv, a, tf.IntConst(1<<y.Val)) // floor division = arithmetic shift
		}
	case token.AND:
		if y.IsConst() && !isIntT(y) && y.Val&(y.Val+1) == 0 && y.Val < 1<<62 {
			return tf.IBin(term.OpIMod, a, tf.IntConst(int64(y.Val+1)))
		}
	}
	panic(pathAbort{"unsupported", fmt.Sprintf("operator %s on a mathematical integer", op)})
}

// intConv converts an Int-mode value between integer types (range obligation).
func (w *Worker) intConv(dst types.Type, x *term.Term) Value {
	if _, _, ok := intInfo(dst); !ok {
		panic(pathAbort{"unsupported", "conversion of a mathematical integer to " + dst.String()})
	}
	return w.fits(x, dst, "conversion")
}
