package sym

import (
	"fmt"
	"go/token"
	"go/types"
	"math"
	"unicode/utf8"

	"gosmt/term"

	"golang.org/x/tools/go/ssa"
)

func (w *Worker) unop(instr *ssa.UnOp, x Value) Value {
	if p, ok := x.(Poison); ok && instr.Op != token.MUL {
		return p
	}
	switch instr.Op {
	case token.MUL:
		return w.loadPtr(x)
	case token.ARROW:
		return w.chanRecv(x, instr.CommaOk)
	case token.NOT:
		return w.TF.Not(x.(*term.Term))
	case token.SUB:
		switch x := x.(type) {
		case *term.Term:
			if isIntT(x) {
				return w.fits(w.TF.INeg(x), instr.X.Type(), "negation")
			}
			return w.TF.BVNeg(x)
		case FloatV:
			return -x
		case SymFloat:
			return SymFloat{w.TF.BVXor(x.B, w.TF.Const(64, 1<<63))}
		}
	case token.XOR:
		return w.TF.BVNot(x.(*term.Term))
	}
	panic(pathAbort{"unsupported", fmt.Sprintf("unop %s on %T", instr.Op, x)})
}

// shiftCount normalises a Go shift count of any integer type to width w,
// saturating at w (any count >= w behaves like w).
func (w *Worker) shiftCount(y *term.Term, ysigned bool, width int) *term.Term {
	tf := w.TF
	if ysigned {
		if !w.Branch(tf.Not(tf.Slt(y, tf.Const(y.W, 0)))) {
			w.rtPanic("negative shift amount")
		}
	}
	if y.IsConst() {
		v := y.Val
		if v > uint64(width) {
			v = uint64(width)
		}
		return tf.Const(width, v)
	}
	if y.W == width {
		return y
	}
	if y.W < width {
		return tf.Zext(y, width)
	}
	// wider count: saturate
	big := tf.Not(tf.Ult(y, tf.Const(y.W, uint64(width))))
	return tf.Ite(big, tf.Const(width, uint64(width)), tf.Extract(y, width-1, 0))
}

func (w *Worker) binop(op token.Token, xt, yt types.Type, x, y Value) Value {
	tf := w.TF
	if p, ok := x.(Poison); ok {
		return p
	}
	if p, ok := y.(Poison); ok {
		return p
	}
	if xa, ok := x.(*term.Term); ok {
		if ya, ok := y.(*term.Term); ok && (isIntT(xa) || isIntT(ya)) {
			return w.intBinop(op, xt, yt, xa, ya)
		}
	}
	if r, ok := w.floatBinop(op, x, y); ok {
		return r
	}
	switch op {
	case token.EQL:
		return w.eqValues(x, y)
	case token.NEQ:
		return tf.Not(w.eqValues(x, y))
	}
	switch x := x.(type) {
	case *term.Term:
		yv, ok := y.(*term.Term)
		if !ok {
			break
		}
		bw, signed, _ := intInfo(xt)
		if bw == 0 {
			switch op {
			case token.AND, token.LAND:
				return tf.And(x, yv)
			case token.OR, token.LOR:
				return tf.Or(x, yv)
			}
			break
		}
		switch op {
		case token.ADD:
			return tf.BVAdd(x, yv)
		case token.SUB:
			return tf.BVSub(x, yv)
		case token.MUL:
			return tf.BVMul(x, yv)
		case token.QUO, token.REM:
			if !w.Branch(tf.Not(tf.Eq(yv, tf.Const(bw, 0)))) {
				w.rtPanic("integer divide by zero")
			}
			switch {
			case op == token.QUO && signed:
				return tf.BVSDiv(x, yv)
			case op == token.QUO:
				return tf.BVUDiv(x, yv)
			case signed:
				return tf.BVSRem(x, yv)
			}
			return tf.BVURem(x, yv)
		case token.AND:
			return tf.BVAnd(x, yv)
		case token.OR:
			return tf.BVOr(x, yv)
		case token.XOR:
			return tf.BVXor(x, yv)
		case token.AND_NOT:
			return tf.BVAnd(x, tf.BVNot(yv))
		case token.SHL, token.SHR:
			_, ysigned, _ := intInfo(yt)
			cnt := w.shiftCount(yv, ysigned, bw)
			switch {
			case op == token.SHL:
				return tf.BVShl(x, cnt)
			case signed:
				return tf.BVAshr(x, cnt)
			}
			return tf.BVLshr(x, cnt)
		case token.LSS:
			if signed {
				return tf.Slt(x, yv)
			}
			return tf.Ult(x, yv)
		case token.LEQ:
			if signed {
				return tf.Sle(x, yv)
			}
			return tf.Ule(x, yv)
		case token.GTR:
			if signed {
				return tf.Slt(yv, x)
			}
			return tf.Ult(yv, x)
		case token.GEQ:
			if signed {
				return tf.Sle(yv, x)
			}
			return tf.Ule(yv, x)
		}
	case FloatV:
		yv, ok := y.(FloatV)
		if !ok {
			break
		}
		switch op {
		case token.ADD:
			return x + yv
		case token.SUB:
			return x - yv
		case token.MUL:
			return x * yv
		case token.QUO:
			return x / yv
		case token.LSS:
			return tf.Bool(x < yv)
		case token.LEQ:
			return tf.Bool(x <= yv)
		case token.GTR:
			return tf.Bool(x > yv)
		case token.GEQ:
			return tf.Bool(x >= yv)
		}
	case *StrV:
		yv, ok := y.(*StrV)
		if !ok {
			break
		}
		switch op {
		case token.ADD:
			if x.Opaque != nil || yv.Opaque != nil {
				w.opaqueID++
				return &StrV{Opaque: &Opaque{ID: w.opaqueID, Fmt: "%s%s", Args: []Value{x, yv}}}
			}
			b := make([]*term.Term, 0, len(x.B)+len(yv.B))
			b = append(b, x.B...)
			b = append(b, yv.B...)
			return &StrV{B: b}
		case token.LSS:
			return w.strLess(x, yv, false)
		case token.LEQ:
			return w.strLess(x, yv, true)
		case token.GTR:
			return w.strLess(yv, x, false)
		case token.GEQ:
			return w.strLess(yv, x, true)
		}
	}
	panic(pathAbort{"unsupported", fmt.Sprintf("binop %s on %T, %T", op, x, y)})
}

// strLess builds the lexicographic (bytewise) comparison a < b (or <=).
func (w *Worker) strLess(a, b *StrV, orEq bool) *term.Term {
	w.needStr(a)
	w.needStr(b)
	tf := w.TF
	n := len(a.B)
	if len(b.B) < n {
		n = len(b.B)
	}
	// tail: all n bytes equal
	var res *term.Term
	switch {
	case len(a.B) < len(b.B):
		res = tf.True
	case len(a.B) > len(b.B):
		res = tf.False
	default:
		res = tf.Bool(orEq)
	}
	for i := n - 1; i >= 0; i-- {
		res = tf.Or(tf.Ult(a.B[i], b.B[i]), tf.And(tf.Eq(a.B[i], b.B[i]), res))
	}
	return res
}

func (w *Worker) strEq(a, b *StrV) *term.Term {
	if a.Opaque != nil || b.Opaque != nil {
		if a.Opaque != nil && b.Opaque != nil && a.Opaque.ID == b.Opaque.ID {
			return w.TF.True
		}
		panic(pathAbort{"unsupported", "comparison of formatted string"})
	}
	if len(a.B) != len(b.B) {
		return w.TF.False
	}
	res := w.TF.True
	for i := range a.B {
		res = w.TF.And(res, w.TF.Eq(a.B[i], b.B[i]))
		if res.IsFalse() {
			break
		}
	}
	return res
}

func (w *Worker) eqValues(x, y Value) *term.Term {
	tf := w.TF
	switch x := x.(type) {
	case *term.Term:
		if yv, ok := y.(*term.Term); ok {
			return tf.Eq(x, yv)
		}
	case FloatV:
		if yv, ok := y.(FloatV); ok {
			return tf.Bool(x == yv)
		}
	case *StrV:
		if yv, ok := y.(*StrV); ok {
			return w.strEq(x, yv)
		}
	case PtrV:
		if yv, ok := y.(PtrV); ok {
			if x.Arr != nil || yv.Arr != nil {
				panic(pathAbort{"unsupported", "comparison of symbolic element pointers"})
			}
			return tf.Bool(x.O == yv.O)
		}
	case SliceV:
		if yv, ok := y.(SliceV); ok { // only vs nil
			return tf.Bool((x.Arr == nil) == (yv.Arr == nil) && (x.Arr == nil || yv.Arr == nil))
		}
	case *MapV:
		if yv, ok := y.(*MapV); ok {
			return tf.Bool(x == yv)
		}
	case *ChanV:
		if yv, ok := y.(*ChanV); ok {
			return tf.Bool(x == yv)
		}
	case NilFunc:
		_, ok := y.(NilFunc)
		return tf.Bool(ok)
	case *ssa.Function, *Closure, *ssa.Builtin:
		if _, ok := y.(NilFunc); ok {
			return tf.False
		}
	case IfaceV:
		yv, ok := y.(IfaceV)
		if !ok {
			break
		}
		if x.T == nil || yv.T == nil {
			return tf.Bool(x.T == nil && yv.T == nil)
		}
		if !types.Identical(x.T, yv.T) {
			return tf.False
		}
		if !types.Comparable(x.T) {
			w.rtPanic("comparing uncomparable type " + x.T.String())
		}
		return w.eqValues(x.V, yv.V)
	case StructV:
		if yv, ok := y.(StructV); ok {
			res := tf.True
			for i := range x.F {
				res = tf.And(res, w.eqValues(x.F[i], yv.F[i]))
			}
			return res
		}
	case ArrayV:
		if yv, ok := y.(ArrayV); ok {
			res := tf.True
			for i := range x.E {
				res = tf.And(res, w.eqValues(x.E[i], yv.E[i]))
			}
			return res
		}
	}
	panic(pathAbort{"unsupported", fmt.Sprintf("equality of %T and %T", x, y)})
}

// ---------- conversions ----------

func (w *Worker) conv(dst, src types.Type, x Value) Value {
	if p, ok := x.(Poison); ok {
		return p
	}
	tf := w.TF
	du, su := dst.Underlying(), src.Underlying()
	if tp, ok := dst.(*types.TypeParam); ok {
		_ = tp
		return Poison{"conversion to type parameter"}
	}
	switch xv := x.(type) {
	case *term.Term:
		if isIntT(xv) {
			return w.intConv(dst, xv)
		}
		if dw, _, ok := intInfo(du); ok && dw > 0 {
			_, ssigned, _ := intInfo(su)
			return tf.Resize(xv, dw, ssigned)
		}
		if isFloat(du) {
			if !xv.IsConst() {
				sw, ssigned, _ := intInfo(su)
				if du.(*types.Basic).Kind() != types.Float64 || (sw == 64 && !ssigned) || sw <= 0 {
					return Poison{"int->float of symbolic value (only signed or <64-bit integers to float64 are modelled)"}
				}
				return SymFloat{tf.FFromS(tf.Resize(xv, 64, ssigned))}
			}
			_, ssigned, _ := intInfo(su)
			if ssigned {
				return FloatV(float64(xv.Signed()))
			}
			return FloatV(float64(xv.Val))
		}
		if isString(du) {
			// string(rune)
			if !xv.IsConst() {
				panic(pathAbort{"unsupported", "string(symbolic rune)"})
			}
			return w.mkStr(string(rune(xv.Signed())))
		}
		if b, ok := du.(*types.Basic); ok && b.Kind() == types.UnsafePointer {
			if xv.IsConst() && xv.Val == 0 {
				return PtrV{}
			}
			return Poison{"uintptr->unsafe.Pointer"}
		}
	case SymFloat:
		if dw, dsigned, ok := intInfo(du); ok && dw == 64 && dsigned {
			return tf.FToS(xv.B)
		}
		if isFloat(du) && du.(*types.Basic).Kind() == types.Float64 {
			return xv
		}
		return Poison{"conversion of a symbolic float64 to anything but int64"}
	case FloatV:
		if dw, dsigned, ok := intInfo(du); ok && dw > 0 {
			if dsigned {
				return tf.Const(dw, uint64(int64(xv)))
			}
			return tf.Const(dw, uint64(xv))
		}
		if isFloat(du) {
			if du.(*types.Basic).Kind() == types.Float32 {
				return FloatV(float32(xv))
			}
			return xv
		}
	case *StrV:
		if isString(du) {
			return xv
		}
		if sl, ok := du.(*types.Slice); ok {
			w.needStr(xv)
			eb, _ := sl.Elem().Underlying().(*types.Basic)
			if eb != nil && eb.Kind() == types.Uint8 {
				arr := w.newArrayObj(sl.Elem(), len(xv.B))
				for i, b := range xv.B {
					w.kid(arr, i).V = b
				}
				return SliceV{Arr: arr, Len: len(xv.B), Cap: len(xv.B)}
			}
			if eb != nil && eb.Kind() == types.Int32 {
				s, ok := xv.Concrete()
				if !ok {
					panic(pathAbort{"unsupported", "[]rune(symbolic string)"})
				}
				rs := []rune(s)
				arr := w.newArrayObj(sl.Elem(), len(rs))
				for i, r := range rs {
					w.kid(arr, i).V = tf.Const(32, uint64(r))
				}
				return SliceV{Arr: arr, Len: len(rs), Cap: len(rs)}
			}
		}
	case SliceV:
		if isString(du) {
			eb, _ := su.(*types.Slice).Elem().Underlying().(*types.Basic)
			if eb != nil && eb.Kind() == types.Uint8 {
				return w.bytesToStr(xv)
			}
			if eb != nil && eb.Kind() == types.Int32 {
				var rs []rune
				for i := 0; i < xv.Len; i++ {
					t := w.load(w.kid(xv.Arr, xv.Off+i)).(*term.Term)
					if !t.IsConst() {
						panic(pathAbort{"unsupported", "string(symbolic []rune)"})
					}
					rs = append(rs, rune(t.Signed()))
				}
				return w.mkStr(string(rs))
			}
		}
		if _, ok := du.(*types.Slice); ok {
			return xv
		}
		if at, ok := du.(*types.Array); ok { // slice to array conversion
			n := int(at.Len())
			if xv.Len < n {
				w.rtPanic("cannot convert slice to array: length too short")
			}
			e := make([]Value, n)
			for i := range e {
				e[i] = w.load(w.kid(xv.Arr, xv.Off+i))
			}
			return ArrayV{e}
		}
	case PtrV:
		switch d := du.(type) {
		case *types.Pointer:
			return xv
		case *types.Basic:
			if d.Kind() == types.UnsafePointer {
				return xv
			}
			if d.Kind() == types.Uintptr {
				if isNilPtr(xv) {
					return tf.Const(64, 0)
				}
				if xv.O != nil {
					return tf.Const(64, 0xc000000000+uint64(xv.O.ID)*64)
				}
			}
		}
	default:
		if types.Identical(du, su) {
			return x
		}
	}
	panic(pathAbort{"unsupported", fmt.Sprintf("conversion %s -> %s of %T", src, dst, x)})
}

func (w *Worker) bytesToStr(s SliceV) *StrV {
	b := make([]*term.Term, s.Len)
	for i := range b {
		t, ok := w.load(w.kid(s.Arr, s.Off+i)).(*term.Term)
		if !ok {
			panic(pathAbort{"unsupported", "string of poisoned bytes"})
		}
		b[i] = t
	}
	return &StrV{B: b}
}

func (w *Worker) strToBytes(s *StrV, elem types.Type) SliceV {
	w.needStr(s)
	arr := w.newArrayObj(elem, len(s.B))
	for i, b := range s.B {
		w.kid(arr, i).V = b
	}
	return SliceV{Arr: arr, Len: len(s.B), Cap: len(s.B)}
}

// ---------- maps ----------

func (w *Worker) mapFind(m *MapV, key Value) int {
	if m == nil {
		return -1
	}
	for i, k := range m.Keys {
		if w.Branch(w.eqValues(k, key)) {
			return i
		}
	}
	return -1
}

func (w *Worker) lookup(instr *ssa.Lookup, x, idx Value) Value {
	switch x := x.(type) {
	case *StrV:
		return w.index(x, idx, instr.Index.Type())
	case *MapV:
		vt := instr.X.Type().Underlying().(*types.Map).Elem()
		i := w.mapFind(x, idx)
		var v Value
		if i >= 0 {
			v = x.Vals[i]
		} else {
			v = w.zero(vt)
		}
		if instr.CommaOk {
			return TupleV{v, w.TF.Bool(i >= 0)}
		}
		return v
	case Poison:
		return x
	}
	panic(fmt.Sprintf("Lookup on %T", x))
}

func (w *Worker) mapUpdate(mv, key, val Value) {
	m, ok := mv.(*MapV)
	if !ok {
		panic(pathAbort{"unsupported", fmt.Sprintf("map update on %T", mv)})
	}
	if m == nil {
		w.rtPanic("assignment to entry in nil map")
	}
	if m.Glob && w.inInit == 0 {
		if len(w.res.GlobalMut) < 8 {
			w.res.GlobalMut = append(w.res.GlobalMut, "map "+m.KT.String())
		}
	}
	i := w.mapFind(m, key)
	if i >= 0 {
		m.Vals[i] = val
		return
	}
	m.Keys = append(m.Keys, key)
	m.Vals = append(m.Vals, val)
}

func (w *Worker) mapDelete(m *MapV, key Value) {
	if m == nil {
		return
	}
	i := w.mapFind(m, key)
	if i < 0 {
		return
	}
	m.Keys = append(append([]Value(nil), m.Keys[:i]...), m.Keys[i+1:]...)
	m.Vals = append(append([]Value(nil), m.Vals[:i]...), m.Vals[i+1:]...)
}

// ---------- range ----------

func (w *Worker) rangeIter(x Value) Value {
	switch x := x.(type) {
	case *MapV:
		it := &IterV{M: x}
		if x != nil {
			it.Keys = append([]Value(nil), x.Keys...)
			it.Vals = append([]Value(nil), x.Vals...)
		}
		return it
	case *StrV:
		w.needStr(x)
		return &IterV{S: x}
	}
	panic(pathAbort{"unsupported", fmt.Sprintf("range over %T", x)})
}

func (w *Worker) iterNext(it *IterV, instr *ssa.Next) Value {
	tf := w.TF
	if instr.IsString {
		s := it.S
		if it.Pos >= len(s.B) {
			return TupleV{tf.False, tf.Const(64, 0), tf.Const(32, 0)}
		}
		pos := it.Pos
		b0 := s.B[pos]
		if !b0.IsConst() {
			if w.Branch(tf.Ult(b0, tf.Const(8, 0x80))) {
				it.Pos++
				return TupleV{tf.True, tf.Const(64, uint64(pos)), tf.Zext(b0, 32)}
			}
			return w.decodeRuneSym(it, pos)
		}
		if b0.Val < 0x80 {
			it.Pos++
			return TupleV{tf.True, tf.Const(64, uint64(pos)), tf.Const(32, b0.Val)}
		}
		// decode concretely as far as bytes are concrete
		var buf []byte
		for i := pos; i < len(s.B) && i < pos+4; i++ {
			if !s.B[i].IsConst() {
				return w.decodeRuneSym(it, pos)
			}
			buf = append(buf, byte(s.B[i].Val))
		}
		r, n := utf8.DecodeRune(buf)
		it.Pos += n
		return TupleV{tf.True, tf.Const(64, uint64(pos)), tf.Const(32, uint64(r))}
	}
	// map
	for it.Pos < len(it.Keys) {
		k, v := it.Keys[it.Pos], it.Vals[it.Pos]
		it.Pos++
		// entry may have been deleted during iteration
		live := false
		for j, mk := range it.M.Keys {
			if isSameKey(mk, k) {
				live = true
				v = it.M.Vals[j]
				break
			}
		}
		if !live {
			continue
		}
		return TupleV{tf.True, k, v}
	}
	mt := instr.Iter.(*ssa.Range).X.Type().Underlying().(*types.Map)
	return TupleV{tf.False, w.zero(mt.Key()), w.zero(mt.Elem())}
}

// decodeRuneSym decodes the rune at pos of a string with symbolic bytes by
// running the real unicode/utf8.DecodeRuneInString symbolically.
func (w *Worker) decodeRuneSym(it *IterV, pos int) Value {
	pkg := w.P.Prog.ImportedPackage("unicode/utf8")
	if pkg == nil || pkg.Func("DecodeRuneInString") == nil {
		panic(pathAbort{"unsupported", "range over string with symbolic non-ASCII byte (unicode/utf8 not loaded)"})
	}
	end := pos + 4
	if end > len(it.S.B) {
		end = len(it.S.B)
	}
	r := w.call(w.cur, pkg.Func("DecodeRuneInString"), []Value{&StrV{B: it.S.B[pos:end]}}, nil).(TupleV)
	size := int(w.Concretize(r[1].(*term.Term), "rune size", 5))
	it.Pos += size
	return TupleV{w.TF.True, w.TF.Const(64, uint64(pos)), r[0]}
}

func isSameKey(a, b Value) bool {
	switch a := a.(type) {
	case *StrV:
		if bs, ok := b.(*StrV); ok {
			if len(a.B) != len(bs.B) {
				return false
			}
			for i := range a.B {
				if a.B[i] != bs.B[i] {
					return false
				}
			}
			return true
		}
	case IfaceV:
		if bi, ok := b.(IfaceV); ok && a.T != nil && bi.T != nil && types.Identical(a.T, bi.T) {
			return isSameKey(a.V, bi.V)
		}
		return false
	case StructV:
		if bs, ok := b.(StructV); ok && len(a.F) == len(bs.F) {
			for i := range a.F {
				if !isSameKey(a.F[i], bs.F[i]) {
					return false
				}
			}
			return true
		}
		return false
	case ArrayV:
		if bs, ok := b.(ArrayV); ok && len(a.E) == len(bs.E) {
			for i := range a.E {
				if !isSameKey(a.E[i], bs.E[i]) {
					return false
				}
			}
			return true
		}
		return false
	}
	return sameValue(a, b)
}

// ---------- builtins ----------

func (w *Worker) callBuiltin(caller *frame, fn *ssa.Builtin, args []Value) Value {
	tf := w.TF
	for _, a := range args {
		if p, ok := a.(Poison); ok {
			switch fn.Name() {
			case "print", "println":
			default:
				return p
			}
		}
	}
	switch fn.Name() {
	case "append":
		if len(args) == 1 {
			return args[0]
		}
		dst := args[0].(SliceV)
		var elems []Value
		var et types.Type
		if st, ok := fn.Type().(*types.Signature).Params().At(0).Type().Underlying().(*types.Slice); ok {
			et = st.Elem()
		}
		switch src := args[1].(type) {
		case *StrV:
			w.needStr(src)
			for _, b := range src.B {
				elems = append(elems, b)
			}
		case SliceV:
			for i := 0; i < src.Len; i++ {
				elems = append(elems, w.load(w.kid(src.Arr, src.Off+i)))
			}
			if et == nil && src.Arr != nil {
				et = src.Arr.elemType(0)
			}
		}
		if len(elems) == 0 {
			return dst
		}
		if dst.Arr != nil && et == nil {
			et = dst.Arr.elemType(0)
		}
		n := dst.Len + len(elems)
		if n <= dst.Cap {
			for i, e := range elems {
				w.store(w.kid(dst.Arr, dst.Off+dst.Len+i), e)
			}
			return SliceV{Arr: dst.Arr, Off: dst.Off, Len: n, Cap: dst.Cap}
		}
		ncap := 2 * dst.Cap
		if ncap < n {
			ncap = n
		}
		if ncap < 4 {
			ncap = 4
		}
		arr := w.newArrayObj(et, ncap)
		for i := 0; i < dst.Len; i++ {
			w.store(w.kid(arr, i), w.load(w.kid(dst.Arr, dst.Off+i)))
		}
		for i, e := range elems {
			w.store(w.kid(arr, dst.Len+i), e)
		}
		return SliceV{Arr: arr, Len: n, Cap: ncap}
	case "copy":
		dst := args[0].(SliceV)
		var n int
		switch src := args[1].(type) {
		case *StrV:
			w.needStr(src)
			n = min(dst.Len, len(src.B))
			for i := 0; i < n; i++ {
				w.store(w.kid(dst.Arr, dst.Off+i), src.B[i])
			}
		case SliceV:
			n = min(dst.Len, src.Len)
			tmp := make([]Value, n)
			for i := 0; i < n; i++ {
				tmp[i] = w.load(w.kid(src.Arr, src.Off+i))
			}
			for i := 0; i < n; i++ {
				w.store(w.kid(dst.Arr, dst.Off+i), tmp[i])
			}
		}
		return tf.Const(64, uint64(n))
	case "close":
		c := args[0].(*ChanV)
		if c == nil {
			w.rtPanic("close of nil channel")
		}
		if c.Closed {
			w.rtPanic("close of closed channel")
		}
		c.Closed = true
		return nil
	case "delete":
		w.mapDelete(args[0].(*MapV), args[1])
		return nil
	case "clear":
		switch x := args[0].(type) {
		case *MapV:
			if x != nil {
				x.Keys, x.Vals = nil, nil
			}
		case SliceV:
			for i := 0; i < x.Len; i++ {
				k := w.kid(x.Arr, x.Off+i)
				w.store(k, w.zero(k.Typ))
			}
		}
		return nil
	case "print", "println":
		return nil
	case "len":
		switch x := args[0].(type) {
		case *StrV:
			w.needStr(x)
			return tf.Const(64, uint64(len(x.B)))
		case SliceV:
			return tf.Const(64, uint64(x.Len))
		case ArrayV:
			return tf.Const(64, uint64(len(x.E)))
		case PtrV:
			if x.O == nil {
				// len of nil *array is the array length; type is lost here
				panic(pathAbort{"unsupported", "len of nil array pointer"})
			}
			return tf.Const(64, uint64(x.O.N))
		case *MapV:
			if x == nil {
				return tf.Const(64, 0)
			}
			return tf.Const(64, uint64(len(x.Keys)))
		case *ChanV:
			if x == nil {
				return tf.Const(64, 0)
			}
			return tf.Const(64, uint64(len(x.Buf)))
		}
	case "cap":
		switch x := args[0].(type) {
		case SliceV:
			return tf.Const(64, uint64(x.Cap))
		case ArrayV:
			return tf.Const(64, uint64(len(x.E)))
		case PtrV:
			if x.O != nil {
				return tf.Const(64, uint64(x.O.N))
			}
		case *ChanV:
			if x == nil {
				return tf.Const(64, 0)
			}
			return tf.Const(64, uint64(x.Cap))
		}
	case "min", "max":
		res := args[0]
		for _, a := range args[1:] {
			switch r := res.(type) {
			case *term.Term:
				at := a.(*term.Term)
				pt := fn.Type().(*types.Signature).Params().At(0).Type()
				_, signed, _ := intInfo(pt)
				var lt *term.Term
				if isIntT(at) || isIntT(r) {
					at, r = w.toInt(at, pt), w.toInt(r, pt)
					lt = tf.IBin(term.OpILt, at, r)
				} else if signed {
					lt = tf.Slt(at, r)
				} else {
					lt = tf.Ult(at, r)
				}
				if fn.Name() == "max" {
					lt = tf.And(tf.Not(lt), tf.Not(tf.Eq(at, r)))
				}
				res = tf.Ite(lt, at, r)
			case FloatV:
				af := a.(FloatV)
				if fn.Name() == "min" {
					res = FloatV(math.Min(float64(r), float64(af)))
				} else {
					res = FloatV(math.Max(float64(r), float64(af)))
				}
			default:
				panic(pathAbort{"unsupported", "min/max on " + describe(res)})
			}
		}
		return res
	case "panic":
		panic(targetPanic{args[0]})
	case "recover":
		return w.doRecover(caller)
	case "ssa:wrapnilchk":
		if p, ok := args[0].(PtrV); ok && isNilPtr(p) {
			w.rtPanic("value method called using nil pointer")
		}
		return args[0]
	case "String": // unsafe.String(ptr, len)
		p := args[0].(PtrV)
		n := int(w.Concretize(args[1].(*term.Term), "unsafe.String len", 64))
		if n == 0 {
			return &StrV{}
		}
		arr, off := w.elemPos(p)
		return w.bytesToStr(SliceV{Arr: arr, Off: off, Len: n, Cap: n})
	case "StringData":
		s := args[0].(*StrV)
		if len(s.B) == 0 {
			return PtrV{}
		}
		sl := w.strToBytes(s, types.Typ[types.Uint8])
		return PtrV{O: w.kid(sl.Arr, 0)}
	case "SliceData":
		s := args[0].(SliceV)
		if s.Arr == nil {
			return PtrV{}
		}
		if s.Cap == 0 {
			return PtrV{O: w.newObj(s.Arr.elemType(0))}
		}
		return PtrV{O: w.kid(s.Arr, s.Off)}
	case "Slice": // unsafe.Slice(ptr, len)
		p := args[0].(PtrV)
		n := int(w.Concretize(args[1].(*term.Term), "unsafe.Slice len", 64))
		if isNilPtr(p) {
			return SliceV{}
		}
		arr, off := w.elemPos(p)
		return SliceV{Arr: arr, Off: off, Len: n, Cap: n}
	}
	panic(pathAbort{"unsupported", "builtin " + fn.Name() + fmt.Sprintf(" on %T", args[0])})
}

// elemPos finds the array and index an element pointer points into.
func (w *Worker) elemPos(p PtrV) (*Obj, int) {
	if p.O == nil {
		panic(pathAbort{"unsupported", "unsafe op on nil/symbolic pointer"})
	}
	if o, i, ok := w.parentOf(p.O); ok {
		return o, i
	}
	// pointer to a lone object: view it as a 1-element array
	w.objSeq++
	return &Obj{Typ: types.NewArray(p.O.Typ, 1), N: 1, Kids: []*Obj{p.O}, ID: w.objSeq}, 0
}

// parentOf is only known for elements handed out through unsafe helpers.
func (w *Worker) parentOf(o *Obj) (*Obj, int, bool) {
	if o.Parent != nil {
		for i, k := range o.Parent.Kids {
			if k == o {
				return o.Parent, i, true
			}
		}
	}
	return nil, 0, false
}

// ---------- channels / goroutines (sequential model) ----------

func (w *Worker) chanSend(cv, v Value) {
	c, ok := cv.(*ChanV)
	if !ok || c == nil {
		panic(pathAbort{"unsupported", "send on nil/unknown channel"})
	}
	if c.Closed {
		w.rtPanic("send on closed channel")
	}
	if len(c.Buf) >= c.Cap {
		panic(pathAbort{"unsupported", "channel send would block (goroutines are not modelled)"})
	}
	c.Buf = append(c.Buf, v)
}

func (w *Worker) chanRecv(cv Value, commaOk bool) Value {
	c, ok := cv.(*ChanV)
	if !ok || c == nil {
		panic(pathAbort{"unsupported", "receive on nil/unknown channel"})
	}
	var v Value
	okv := true
	switch {
	case len(c.Buf) > 0:
		v = c.Buf[0]
		c.Buf = c.Buf[1:]
	case c.Closed:
		v = w.zero(c.ET)
		okv = false
	default:
		if w.runPending() {
			return w.chanRecv(cv, commaOk)
		}
		panic(pathAbort{"unsupported", "channel receive would block (goroutines are not modelled)"})
	}
	if commaOk {
		return TupleV{v, w.TF.Bool(okv)}
	}
	return v
}

// Goroutines, sequential model: a `go` statement queues the call; queued
// goroutines run to completion, in creation order, when the running code would
// block on a channel receive or WaitGroup.Wait (one legal schedule; a goroutine
// that itself blocks is unsupported). Goroutines still queued when the entry
// function returns are run then.
type pendingGo struct {
	fn   Value
	args []Value
}

func (w *Worker) goStmt(fr *frame, instr *ssa.Go) {
	if !w.P.Goroutines {
		panic(pathAbort{"unsupported", "go statement in " + fr.fn.String()})
	}
	fn, args := fr.prepareCall(&instr.Call)
	w.pending = append(w.pending, pendingGo{fn, args})
}

// runPending runs queued goroutines; reports whether any ran.
func (w *Worker) runPending() bool {
	// (also from inside a goroutine: the queue shrinks with every start, so a
	// goroutine that blocks with nothing left to run still ends as unsupported)
	if len(w.pending) == 0 {
		return false
	}
	for len(w.pending) > 0 {
		g := w.pending[0]
		w.pending = w.pending[1:]
		w.callValue(nil, g.fn, g.args)
	}
	return true
}

func (w *Worker) selectStmt(fr *frame, instr *ssa.Select) Value {
	// sequential model: pick the first ready case in source order, else default
	tf := w.TF
	nrecv := 0
	for _, st := range instr.States {
		if st.Dir == types.RecvOnly {
			nrecv++
		}
	}
	mk := func(idx int, recvOk bool, recvIdx int, v Value) Value {
		r := TupleV{tf.Const(64, uint64(int64(idx))), tf.Bool(recvOk)}
		for i, st := range instr.States {
			if st.Dir == types.RecvOnly {
				if i == recvIdx {
					r = append(r, v)
				} else {
					r = append(r, w.zero(st.Chan.Type().Underlying().(*types.Chan).Elem()))
				}
			}
		}
		return r
	}
	for i, st := range instr.States {
		c, _ := fr.get(st.Chan).(*ChanV)
		if c == nil {
			continue
		}
		if st.Dir == types.RecvOnly {
			if len(c.Buf) > 0 || c.Closed {
				t := w.chanRecv(c, true).(TupleV)
				okb, _ := t[1].(*term.Term).ConstBool()
				return mk(i, okb, i, t[0])
			}
		} else if !c.Closed && len(c.Buf) < c.Cap {
			w.chanSend(c, fr.get(st.Send))
			return mk(i, false, -1, nil)
		}
	}
	if !instr.Blocking {
		return mk(-1, false, -1, nil)
	}
	panic(pathAbort{"unsupported", "select would block (goroutines are not modelled) in " + fr.fn.String()})
}

// ---------- merging (if-conversion) ----------

// tryMerge handles a symbolic two-way branch whose arms are pure and rejoin
// immediately (a diamond or triangle), by evaluating both arms and turning the
// join's phis into ite terms. Returns false if the shape does not apply.
func (w *Worker) tryMerge(fr *frame, instr *ssa.If, cond *term.Term) bool {
	if w.P.MergeOff {
		return false
	}
	b := fr.block
	t, f := b.Succs[0], b.Succs[1]
	var join *ssa.BasicBlock
	var arms [2]*ssa.BasicBlock // nil = edge goes straight to join
	switch {
	case isPureArm(t) && isPureArm(f) && t.Succs[0] == f.Succs[0] && t != f:
		join = t.Succs[0]
		arms = [2]*ssa.BasicBlock{t, f}
	case isPureArm(t) && t.Succs[0] == f:
		join = f
		arms = [2]*ssa.BasicBlock{t, nil}
	case isPureArm(f) && f.Succs[0] == t:
		join = t
		arms = [2]*ssa.BasicBlock{nil, f}
	default:
		return false
	}
	if join == b || len(join.Preds) != 2 {
		return false
	}
	// the arms must be entered only from b
	for _, a := range arms {
		if a != nil && (len(a.Preds) != 1 || len(a.Instrs) > 12) {
			return false
		}
	}
	// evaluate arms into scratch environments
	type armRes struct {
		vals map[ssa.Value]Value
		pred *ssa.BasicBlock
	}
	var res [2]armRes
	for i, a := range arms {
		res[i].vals = map[ssa.Value]Value{}
		res[i].pred = b
		if a == nil {
			continue
		}
		res[i].pred = a
		for _, in := range a.Instrs {
			switch in := in.(type) {
			case *ssa.BinOp:
				x, y := w.armGet(fr, res[i].vals, in.X), w.armGet(fr, res[i].vals, in.Y)
				xt, ok1 := x.(*term.Term)
				yt, ok2 := y.(*term.Term)
				if !ok1 || !ok2 {
					return false
				}
				if (in.Op == token.QUO || in.Op == token.REM) && !yt.IsConst() {
					return false
				}
				if in.Op == token.SHL || in.Op == token.SHR {
					if _, ys, _ := intInfo(in.Y.Type()); ys && !yt.IsConst() {
						return false
					}
				}
				_ = xt
				res[i].vals[in] = w.binop(in.Op, in.X.Type(), in.Y.Type(), x, y)
			case *ssa.IndexAddr:
				// a concrete, in-range element address is pure
				idx, ok := w.armGet(fr, res[i].vals, in.Index).(*term.Term)
				if !ok || !idx.IsConst() {
					return false
				}
				k := int(idx.Signed())
				switch x := w.armGet(fr, res[i].vals, in.X).(type) {
				case SliceV:
					if k < 0 || k >= x.Len {
						return false
					}
					res[i].vals[in] = PtrV{O: w.kid(x.Arr, x.Off+k)}
				case PtrV:
					if x.O == nil || k < 0 || k >= x.O.N {
						return false
					}
					res[i].vals[in] = PtrV{O: w.kid(x.O, k)}
				default:
					return false
				}
			case *ssa.UnOp:
				if in.Op == token.ARROW {
					return false
				}
				if in.Op == token.MUL {
					p, ok := w.armGet(fr, res[i].vals, in.X).(PtrV)
					if !ok || p.O == nil || !p.O.Leaf {
						return false
					}
					if _, ok := p.O.V.(*term.Term); !ok {
						return false
					}
					res[i].vals[in] = p.O.V
					continue
				}
				x := w.armGet(fr, res[i].vals, in.X)
				if _, ok := x.(*term.Term); !ok {
					return false
				}
				res[i].vals[in] = w.unop(in, x)
			case *ssa.Convert:
				x := w.armGet(fr, res[i].vals, in.X)
				if _, ok := x.(*term.Term); !ok {
					return false
				}
				if dw, _, ok := intInfo(in.Type()); !ok || dw == 0 {
					return false
				}
				res[i].vals[in] = w.conv(in.Type(), in.X.Type(), x)
			case *ssa.Jump, *ssa.DebugRef:
			default:
				return false
			}
		}
	}
	// all phis at the join must merge scalar terms
	var phis []*ssa.Phi
	for _, in := range join.Instrs {
		p, ok := in.(*ssa.Phi)
		if !ok {
			break
		}
		phis = append(phis, p)
	}
	merged := make([]Value, len(phis))
	for k, p := range phis {
		var v [2]Value
		for i := range arms {
			pi := -1
			for j, pr := range join.Preds {
				if pr == res[i].pred {
					pi = j
				}
			}
			if pi < 0 {
				return false
			}
			v[i] = w.armGet(fr, res[i].vals, p.Edges[pi])
		}
		a, ok1 := v[0].(*term.Term)
		c, ok2 := v[1].(*term.Term)
		if !ok1 || !ok2 || a.W != c.W {
			if ok1 && ok2 {
				return false
			}
			// identical non-scalar values on both arms are fine
			if !sameValue(v[0], v[1]) {
				return false
			}
			merged[k] = v[0]
			continue
		}
		merged[k] = w.TF.Ite(cond, a, c)
	}
	// values defined in the arms must not be used beyond the join's phis
	for i, a := range arms {
		if a == nil {
			continue
		}
		for _, in := range a.Instrs {
			if v, ok := in.(ssa.Value); ok {
				for _, ref := range *v.Referrers() {
					if ref.Block() != a {
						if p, isPhi := ref.(*ssa.Phi); !isPhi || p.Block() != join {
							return false
						}
					}
				}
			}
		}
		_ = i
	}
	for k, p := range phis {
		fr.env[p] = merged[k]
	}
	w.steps += len(phis)
	// resume at the first non-phi instruction of join
	fr.prevBlock = res[0].pred
	fr.block = join
	fr.skipPhis = true
	return true
}

func sameValue(a, b Value) bool {
	defer func() { recover() }()
	return a == b
}

func (w *Worker) armGet(fr *frame, vals map[ssa.Value]Value, v ssa.Value) Value {
	if x, ok := vals[v]; ok {
		return x
	}
	return fr.get(v)
}

// isPureArm: a block with a single unconditional successor.
func isPureArm(b *ssa.BasicBlock) bool {
	if len(b.Succs) != 1 || len(b.Instrs) == 0 {
		return false
	}
	_, ok := b.Instrs[len(b.Instrs)-1].(*ssa.Jump)
	return ok
}
