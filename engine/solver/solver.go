// Package solver drives one long-lived SMT solver process (z3 -in) over pipes.
package solver

import (
	"bufio"
	"fmt"
	"io"
	"os/exec"
	"strconv"
	"strings"
	"time"
)

type Result int

const (
	Unsat Result = iota
	Sat
	Unknown
)

func (r Result) String() string { return [...]string{"unsat", "sat", "unknown"}[r] }

type Stats struct {
	Queries  int
	Sat      int
	Unsat    int
	Unknown  int
	Errors   int
	Time     time.Duration
	MaxQuery time.Duration
}

type Solver struct {
	cmd       *exec.Cmd
	in        io.WriteCloser
	out       *bufio.Reader
	Bin       string
	Args      []string
	TimeoutMS int
	Stats     Stats
	LastError string
	Logic     string
	Log       io.Writer // optional transcript
	seq       int
	lines     chan string
	Dead      bool // killed after a hard timeout or died; Restart before reuse
	HardKills int
}

// New starts the solver. bin e.g. "z3-new", args e.g. ["-in"].
func New(bin string, args []string, timeoutMS int) (*Solver, error) {
	return NewLogic(bin, args, timeoutMS, "")
}

// NewLogic starts the solver with (set-logic logic) unless logic is empty.
func NewLogic(bin string, args []string, timeoutMS int, logic string) (*Solver, error) {
	s := &Solver{Bin: bin, Args: args, TimeoutMS: timeoutMS, Logic: logic}
	if err := s.start(); err != nil {
		return nil, err
	}
	return s, nil
}

func (s *Solver) start() error {
	cmd := exec.Command(s.Bin, s.Args...)
	in, err := cmd.StdinPipe()
	if err != nil {
		return err
	}
	out, err := cmd.StdoutPipe()
	if err != nil {
		return err
	}
	cmd.Stderr = cmd.Stdout
	if err := cmd.Start(); err != nil {
		return err
	}
	s.cmd, s.in, s.out = cmd, in, bufio.NewReaderSize(out, 1<<20)
	s.lines = make(chan string, 1024)
	s.Dead = false
	go func(r *bufio.Reader, ch chan string) {
		for {
			line, err := r.ReadString('\n')
			if err != nil {
				close(ch)
				return
			}
			ch <- line
		}
	}(s.out, s.lines)
	s.Send("(set-option :global-declarations true)\n")
	if s.Logic != "" {
		s.Send("(set-logic " + s.Logic + ")\n")
	}
	if strings.Contains(s.Bin, "z3") && s.TimeoutMS > 0 {
		s.Send(fmt.Sprintf("(set-option :timeout %d)\n", s.TimeoutMS))
	}
	return nil
}

// Restart kills and restarts the process; the caller must re-emit definitions.
func (s *Solver) Restart() error {
	s.Close()
	return s.start()
}

func (s *Solver) Close() {
	if s.cmd != nil {
		s.in.Close()
		s.cmd.Process.Kill()
		s.cmd.Wait()
		s.cmd = nil
	}
}

func (s *Solver) Send(text string) {
	if s.Dead {
		return
	}
	if s.Log != nil {
		io.WriteString(s.Log, text)
	}
	io.WriteString(s.in, text)
}

// sync sends an echo marker and returns all lines printed before it.
func (s *Solver) sync() ([]string, error) {
	s.seq++
	marker := "sync-" + strconv.Itoa(s.seq)
	s.Send("(echo \"" + marker + "\")\n")
	var lines []string
	// z3's soft timeout is not always honoured: enforce a hard wall-clock limit
	limit := time.Duration(s.TimeoutMS)*time.Millisecond*2 + 10*time.Second
	if s.TimeoutMS <= 0 {
		limit = 10 * time.Minute
	}
	timer := time.NewTimer(limit)
	defer timer.Stop()
	for {
		var line string
		select {
		case l, ok := <-s.lines:
			if !ok {
				s.Dead = true
				return lines, fmt.Errorf("solver died")
			}
			line = l
		case <-timer.C:
			s.Dead = true
			s.HardKills++
			if s.cmd != nil {
				s.cmd.Process.Kill()
			}
			return lines, fmt.Errorf("solver did not answer within %v (killed)", limit)
		}
		line = strings.TrimRight(line, "\r\n")
		if line == marker || line == "\""+marker+"\"" {
			return lines, nil
		}
		if line != "" {
			lines = append(lines, line)
		}
	}
}

// Check runs (check-sat) in the current context.
func (s *Solver) Check() Result {
	start := time.Now()
	s.Send("(check-sat)\n")
	lines, err := s.sync()
	d := time.Since(start)
	s.Stats.Queries++
	s.Stats.Time += d
	if d > s.Stats.MaxQuery {
		s.Stats.MaxQuery = d
	}
	res := Unknown
	bad := err != nil
	for _, l := range lines {
		switch {
		case l == "sat":
			res = Sat
		case l == "unsat":
			res = Unsat
		case l == "unknown":
			res = Unknown
		case strings.Contains(l, "(error"):
			bad = true
			s.LastError = l
		}
	}
	if bad {
		s.Stats.Errors++
		if err != nil {
			s.LastError = err.Error()
		}
		res = Unknown
	}
	switch res {
	case Sat:
		s.Stats.Sat++
	case Unsat:
		s.Stats.Unsat++
	default:
		s.Stats.Unknown++
	}
	return res
}

// GetValues returns the model values of the given references (after a Sat).
// Values are returned as uint64 (bool: 0/1; Int: two's complement).
func (s *Solver) GetValues(refs []string) (map[string]uint64, error) {
	res := map[string]uint64{}
	const batch = 200
	for i := 0; i < len(refs); i += batch {
		j := i + batch
		if j > len(refs) {
			j = len(refs)
		}
		s.Send("(get-value (" + strings.Join(refs[i:j], " ") + "))\n")
		lines, err := s.sync()
		if err != nil {
			return nil, err
		}
		text := strings.Join(lines, " ")
		if strings.Contains(text, "(error") {
			return nil, fmt.Errorf("get-value: %s", text)
		}
		if err := parseValues(text, res); err != nil {
			return nil, err
		}
	}
	return res, nil
}

// parseValues parses ((ref val) (ref val) ...).
func parseValues(text string, out map[string]uint64) error {
	toks := tokenize(text)
	pos := 0
	var parse func() (any, error)
	parse = func() (any, error) {
		if pos >= len(toks) {
			return nil, fmt.Errorf("unexpected end")
		}
		t := toks[pos]
		pos++
		if t == "(" {
			var l []any
			for pos < len(toks) && toks[pos] != ")" {
				x, err := parse()
				if err != nil {
					return nil, err
				}
				l = append(l, x)
			}
			pos++
			return l, nil
		}
		return t, nil
	}
	top, err := parse()
	if err != nil {
		return err
	}
	l, ok := top.([]any)
	if !ok {
		return fmt.Errorf("bad get-value output: %s", text)
	}
	for _, p := range l {
		pl, ok := p.([]any)
		if !ok || len(pl) != 2 {
			return fmt.Errorf("bad pair in: %s", text)
		}
		name, ok := pl[0].(string)
		if !ok {
			return fmt.Errorf("bad name in: %s", text)
		}
		v, err := valueOf(pl[1])
		if err != nil {
			return fmt.Errorf("%v in %s", err, text)
		}
		out[name] = v
	}
	return nil
}

func valueOf(x any) (uint64, error) {
	switch x := x.(type) {
	case string:
		switch {
		case x == "true":
			return 1, nil
		case x == "false":
			return 0, nil
		case strings.HasPrefix(x, "#x"):
			return strconv.ParseUint(x[2:], 16, 64)
		case strings.HasPrefix(x, "#b"):
			return strconv.ParseUint(x[2:], 2, 64)
		}
		v, err := strconv.ParseInt(x, 10, 64)
		return uint64(v), err
	case []any:
		// (- n) or (_ bvN w)
		if len(x) == 2 && x[0] == "-" {
			v, err := valueOf(x[1])
			return -v, err
		}
		if len(x) == 3 && x[0] == "_" {
			if s, ok := x[1].(string); ok && strings.HasPrefix(s, "bv") {
				return strconv.ParseUint(s[2:], 10, 64)
			}
		}
	}
	return 0, fmt.Errorf("unparsable value %v", x)
}

func tokenize(s string) []string {
	var toks []string
	i := 0
	for i < len(s) {
		c := s[i]
		switch {
		case c == '(' || c == ')':
			toks = append(toks, string(c))
			i++
		case c == ' ' || c == '\t' || c == '\n':
			i++
		case c == '|':
			j := strings.IndexByte(s[i+1:], '|')
			if j < 0 {
				j = len(s) - i - 2
			}
			toks = append(toks, s[i:i+j+2])
			i += j + 2
		default:
			j := i
			for j < len(s) && s[j] != '(' && s[j] != ')' && s[j] != ' ' && s[j] != '\n' {
				j++
			}
			toks = append(toks, s[i:j])
			i = j
		}
	}
	return toks
}
