package main

import (
	"encoding/json"
	"flag"
	"fmt"
	"os"
	"os/exec"
	"path/filepath"
	"runtime"
	"sort"
	"strconv"
	"strings"
	"sync"
	"time"

	"gosmt/sym"

	"golang.org/x/tools/go/ssa"
)

type Unit struct {
	Package         string            `json:"package"`
	Dir             string            `json:"dir"`
	Files           []string          `json:"files"`
	Entries         []Entry           `json:"entries"`
	Redirects       map[string]string `json:"redirects"`
	Tests           bool              `json:"tests"`
	Native          []string          `json:"native_files"`
	ParallelEntries int               `json:"parallel_entries"`
	SQLSchema       bool              `json:"sql_schema"`
	Goroutines      bool              `json:"goroutines"`
}

type checkOpts struct {
	tier, repo, verif, only, solverBin string
	workers                            int
	trace, noReplay                    bool
}

type unitResult struct {
	runs       []*evRun
	lines      []string
	broken     []string
	violations int
	replayed   int
	loadTime   time.Duration
}

var cexCounter int

func runUnit(spec *Spec, o *checkOpts, openKnown map[string]bool, openList []KnownFinding, knownReported map[string]bool, outDir string) *unitResult {
	ur := &unitResult{}
	tmp, err := os.MkdirTemp("", "gosmt-"+spec.Property+"-")
	if err != nil {
		ur.broken = append(ur.broken, err.Error())
		return ur
	}
	defer os.RemoveAll(tmp)
	tLoad := time.Now()
	l, err := load(o.repo, o.verif, spec, tmp)
	if err != nil {
		ur.broken = append(ur.broken, "load: "+err.Error())
		return ur
	}
	ur.loadTime = time.Since(tLoad)

	schemaPath := ""
	if spec.SQLSchema {
		p, err := dumpSchema(o.repo, o.verif, tmp)
		if err != nil {
			ur.broken = append(ur.broken, "schema dump: "+err.Error())
			return ur
		}
		schemaPath = p
	}
	redirects := map[string]*ssa.Function{}
	for from, to := range spec.Redirects {
		f := l.harness.Func(to)
		if f == nil {
			ur.broken = append(ur.broken, "redirect target "+to+" not found in harness package")
			return ur
		}
		redirects[from] = f
	}
	// linkname declarations in harness files: body-less local function -> real function elsewhere
	for _, src := range l.overlay {
		for _, line := range strings.Split(string(src), "\n") {
			f := strings.Fields(line)
			if len(f) == 3 && f[0] == "//go:linkname" {
				local := l.harness.Func(f[1])
				dot := strings.LastIndex(f[2], ".")
				if local == nil || dot < 0 {
					ur.broken = append(ur.broken, "bad linkname "+line)
					continue
				}
				tp := l.prog.ImportedPackage(f[2][:dot])
				if tp == nil || tp.Func(f[2][dot+1:]) == nil {
					ur.broken = append(ur.broken, "linkname target not found: "+f[2])
					continue
				}
				redirects[local.String()] = tp.Func(f[2][dot+1:])
			}
		}
	}

	type job struct {
		e   Entry
		cfg TierCfg
	}
	var jobs []job
	for _, e := range spec.Entries {
		if o.only != "" && e.Func != o.only {
			continue
		}
		cfg, ok := e.Tiers[o.tier]
		if !ok {
			cfg = e.Tiers["quick"]
		}
		if cfg.Skip {
			continue
		}
		if len(cfg.Sets) == 0 {
			jobs = append(jobs, job{e, cfg})
			continue
		}
		for _, set := range cfg.Sets {
			c := cfg
			c.Params = map[string]int64{}
			for k, v := range cfg.Params {
				c.Params[k] = v
			}
			var label []string
			for k, v := range set {
				c.Params[k] = v
			}
			keys := make([]string, 0, len(set))
			for k := range set {
				keys = append(keys, k)
			}
			sort.Strings(keys)
			for _, k := range keys {
				label = append(label, fmt.Sprintf("%s=%d", k, set[k]))
			}
			c.Label = strings.Join(label, ",")
			jobs = append(jobs, job{e, c})
		}
	}
	par := spec.ParallelEntries
	if par < 1 {
		par = 1
	}
	perJob := o.workers / par
	if perJob < 1 {
		perJob = 1
	}
	var mu sync.Mutex
	sem := make(chan struct{}, par)
	var wg sync.WaitGroup
	for _, j := range jobs {
		e, cfg := j.e, j.cfg
		fn := l.harness.Func(e.Func)
		if fn == nil {
			ur.broken = append(ur.broken, "entry "+e.Func+" not found")
			continue
		}
		wg.Add(1)
		sem <- struct{}{}
		go func() {
			defer func() { <-sem; wg.Done() }()
			mk := func(probe string, kn map[string]bool) *sym.Program {
				p := &sym.Program{Prog: l.prog, Harness: l.harness, Redirects: redirects, Params: cfg.Params, Known: kn, Probe: probe,
					Unwind: cfg.Unwind, MaxSteps: cfg.MaxSteps, MaxDepth: 400, SolverBin: o.solverBin, SolverArg: []string{"-in"}, TimeoutMS: cfg.Timeout, FastTimeoutMS: 2000, Trace: o.trace, Logic: cfg.Logic, SQLSchema: schemaPath, Goroutines: spec.Goroutines}
				if p.Unwind == 0 {
					p.Unwind = 64
				}
				if p.MaxSteps == 0 {
					p.MaxSteps = 20_000_000
				}
				if p.TimeoutMS == 0 {
					p.TimeoutMS = 60_000
				}
				if p.Params == nil {
					p.Params = map[string]int64{}
				}
				return p
			}
			res, err := sym.Explore(mk("", openKnown), fn, perJob, cfg.MaxPaths)
			if err != nil {
				mu.Lock()
				ur.broken = append(ur.broken, e.Func+": "+err.Error())
				mu.Unlock()
				return
			}
			er := &evRun{Entry: e, Cfg: cfg, Res: res, Probes: map[string]*sym.EntryResult{}}
			for id := range res.KnownHit {
				pr, err := sym.Explore(mk(id, openKnown), fn, perJob, cfg.MaxPaths)
				if err == nil {
					er.Probes[id] = pr
				}
			}
			mu.Lock()
			defer mu.Unlock()
			ur.runs = append(ur.runs, er)
			name := e.Func
			if cfg.Label != "" {
				name += "[" + cfg.Label + "]"
			}
			er.Name = name
			fmt.Fprintf(os.Stderr, "[%s] %s: paths=%d kinds=%v queries=%d (sat %d unsat %d unknown %d) solver=%.1fs wall=%.1fs\n",
				spec.Property, name, res.Paths, res.PathKinds, res.Solver.Queries, res.Solver.Sat, res.Solver.Unsat, res.Solver.Unknown, res.Solver.Time.Seconds(), res.Wall.Seconds())
		}()
	}
	wg.Wait()

	type cex struct {
		Entry string
		File  string
		V     sym.Violation
		Probe string
	}
	var cexs []cex
	for _, r := range ur.runs {
		add := func(vs []sym.Violation, probe string) {
			for _, v := range vs {
				cexCounter++
				file := filepath.Join(outDir, fmt.Sprintf("cex-%d.json", cexCounter))
				obj := map[string]any{"property": spec.Property, "entry": r.Entry.Func, "msg": v.Msg, "kind": v.Kind, "model": v.Model, "order": v.Order, "params": r.Cfg.Params, "probe": probe, "package": spec.Package, "extra": v.Extra}
				b, _ := json.MarshalIndent(obj, "", " ")
				os.WriteFile(file, b, 0o644)
				cexs = append(cexs, cex{r.Entry.Func, file, v, probe})
			}
		}
		add(r.Res.Violations, "")
		for id, pr := range r.Probes {
			var in []sym.Violation
			for _, v := range pr.Violations {
				if v.Known == id {
					in = append(in, v)
				}
			}
			add(in, id)
		}
		res := r.Res
		for _, a := range res.Aborts {
			ur.broken = append(ur.broken, r.Entry.Func+": "+a)
		}
		for k, c := range res.PathKinds {
			switch k {
			case "ok", "assume", "violation", "panic":
			default:
				ur.broken = append(ur.broken, fmt.Sprintf("%s: %d path(s) ended with %s", r.Entry.Func, c, k))
			}
		}
		if res.Solver.Unknown > 0 || res.Solver.Errors > 0 {
			ur.broken = append(ur.broken, fmt.Sprintf("%s: %d inconclusive solver answers, %d solver errors", r.Entry.Func, res.Solver.Unknown, res.Solver.Errors))
		}
		reached := 0
		for k, s := range res.Sites {
			if strings.HasPrefix(k, "$") {
				continue
			}
			reached += s.Trivial + s.Discharged + s.Violated + s.Unknown
		}
		if reached == 0 {
			ur.broken = append(ur.broken, r.Entry.Func+": VACUOUS: no assertion reached on any feasible path")
		}
		// cover points and kernel functions are checked over the union of the
		// parameter sets of an entry (see below)
		if r.Entry.MinPaths > 0 && res.Paths < r.Entry.MinPaths {
			ur.broken = append(ur.broken, fmt.Sprintf("%s: only %d paths explored, expected at least %d", r.Entry.Func, res.Paths, r.Entry.MinPaths))
		}
	}

	{
		covers := map[string]map[string]int{}
		funcs := map[string]map[string]int{}
		entries := map[string]Entry{}
		var order []string
		for _, r := range ur.runs {
			f := r.Entry.Func
			if covers[f] == nil {
				covers[f], funcs[f] = map[string]int{}, map[string]int{}
				entries[f] = r.Entry
				order = append(order, f)
			}
			for k, v := range r.Res.Covers {
				covers[f][k] += v
			}
			for k, v := range r.Res.Funcs {
				funcs[f][k] += v
			}
		}
		sort.Strings(order)
		for _, f := range order {
			e := entries[f]
			for _, c := range e.Covers {
				if covers[f][c] == 0 {
					ur.broken = append(ur.broken, f+": VACUOUS: cover point "+c+" not reached")
				}
			}
			for _, k := range e.Kernel {
				found := false
				for fnName, cnt := range funcs[f] {
					if cnt > 0 && (fnName == k || strings.HasSuffix(fnName, "."+k) || strings.HasSuffix(fnName, ")."+k)) {
						found = true
						break
					}
				}
				if !found {
					ur.broken = append(ur.broken, f+": kernel function "+k+" was not executed")
				}
			}
		}
	}

	// replay at most maxReplay counterexamples per unit: one per distinct
	// (entry, message, probe) first, then in discovery order
	const maxReplay = 8
	if len(cexs) > maxReplay {
		var first, rest []cex
		seen := map[string]bool{}
		for _, c := range cexs {
			k := c.Entry + "|" + c.V.Msg + "|" + c.Probe
			if !seen[k] {
				seen[k] = true
				first = append(first, c)
			} else {
				rest = append(rest, c)
			}
		}
		cexs = append(first, rest...)
		if len(cexs) > maxReplay && len(first) <= maxReplay {
			cexs = cexs[:maxReplay]
		} else if len(first) > maxReplay {
			cexs = first
		}
	}

	confirmed := map[string]replayOutcome{}
	if len(cexs) > 0 && !o.noReplay {
		var items [][2]string
		for _, c := range cexs {
			items = append(items, [2]string{c.Entry, c.File})
		}
		res, out, err := runNative(o.repo, o.verif, spec, l, tmp, items)
		if err != nil {
			ur.broken = append(ur.broken, "native replay: "+err.Error()+": "+tail(out, 1500))
		}
		confirmed = res
		ur.replayed = len(res)
	}
	for _, c := range cexs {
		ro, ok := confirmed[c.File]
		reproduced := ok && (ro.Outcome == "assert-failed" || ro.Outcome == "panic")
		if o.noReplay || c.V.Kind == "lockset" {
			// an unguarded access is a property of the executed path itself (a data
			// race needs no particular native schedule to exist); reported without native replay
			reproduced = true
		}
		if !reproduced {
			ur.broken = append(ur.broken, fmt.Sprintf("ENCODER-MISMATCH: counterexample %s (%s: %s) did not reproduce natively (outcome=%s %s)", c.File, c.Entry, c.V.Msg, ro.Outcome, ro.Msg))
			continue
		}
		if c.Probe != "" {
			if !knownReported[c.Probe] {
				knownReported[c.Probe] = true
				what := ""
				for _, k := range openList {
					if k.ID == c.Probe {
						what = k.What
					}
				}
				ur.lines = append(ur.lines, fmt.Sprintf("KNOWN-FINDING: property=%s %s: %s (replay=%s)", spec.Property, c.Probe, what, c.File))
			}
			continue
		}
		ur.violations++
		ur.lines = append(ur.lines, fmt.Sprintf("VIOLATION property=%s replay=%s", spec.Property, c.File))
		fmt.Fprintf(os.Stderr, "  violated: %s [%s] %s (native: %s %s)\n", c.Entry, c.V.Kind, c.V.Msg, ro.Outcome, ro.Msg)
	}
	return ur
}

func unitSpec(spec *Spec, u *Unit) *Spec {
	s := *spec
	s.Package, s.Dir, s.Files, s.Entries, s.Redirects, s.Tests, s.Native, s.ParallelEntries, s.SQLSchema = u.Package, u.Dir, u.Files, u.Entries, u.Redirects, u.Tests, u.Native, u.ParallelEntries, u.SQLSchema
	s.Goroutines = spec.Goroutines || u.Goroutines
	return &s
}

func cmdCheck(args []string) int {
	fs := flag.NewFlagSet("check", flag.ExitOnError)
	specPath := fs.String("spec", "", "spec.json")
	o := &checkOpts{}
	fs.StringVar(&o.tier, "tier", "quick", "quick|thorough")
	fs.StringVar(&o.repo, "repo", "/repo", "repository root")
	fs.StringVar(&o.verif, "verif", "/verif", "verif root")
	fs.IntVar(&o.workers, "workers", 0, "parallel workers (0 = NumCPU)")
	fs.StringVar(&o.only, "entry", "", "run only this entry")
	fs.BoolVar(&o.trace, "trace", false, "trace calls")
	fs.StringVar(&o.solverBin, "solver", "z3-new", "solver binary")
	fs.BoolVar(&o.noReplay, "no-replay", false, "skip native replay")
	replayFile := fs.String("replay", "", "replay a counterexample file natively and exit")
	noEvidence := fs.Bool("no-evidence", false, "do not write the evidence file")
	fs.Parse(args)
	start := time.Now()
	if t := os.Getenv("VERIF_TIER"); t == "quick" || t == "thorough" {
		o.tier = t
	}

	data, err := os.ReadFile(*specPath)
	if err != nil {
		fmt.Fprintln(os.Stderr, err)
		return 2
	}
	var spec Spec
	if err := json.Unmarshal(data, &spec); err != nil {
		fmt.Fprintln(os.Stderr, "spec:", err)
		return 2
	}
	if len(spec.Units) == 0 {
		spec.Units = []Unit{{Package: spec.Package, Dir: spec.Dir, Files: spec.Files, Entries: spec.Entries, Redirects: spec.Redirects, Tests: spec.Tests, Native: spec.Native, ParallelEntries: spec.ParallelEntries, SQLSchema: spec.SQLSchema, Goroutines: spec.Goroutines}}
	}
	if o.workers <= 0 {
		o.workers = runtime.NumCPU()
	}
	seed, _ := strconv.Atoi(os.Getenv("VERIF_SEED"))

	if *replayFile != "" {
		var c struct {
			Entry   string `json:"entry"`
			Package string `json:"package"`
		}
		data, err := os.ReadFile(*replayFile)
		if err != nil {
			fmt.Fprintln(os.Stderr, err)
			return 2
		}
		json.Unmarshal(data, &c)
		for i := range spec.Units {
			u := &spec.Units[i]
			for _, e := range u.Entries {
				if e.Func == c.Entry && (c.Package == "" || c.Package == u.Package) {
					us := unitSpec(&spec, u)
					tmp, _ := os.MkdirTemp("", "gosmt-replay-")
					defer os.RemoveAll(tmp)
					l, err := load(o.repo, o.verif, us, tmp)
					if err != nil {
						fmt.Fprintln(os.Stderr, "BROKEN: load:", err)
						return 2
					}
					return doReplayOnly(o.repo, o.verif, us, l, tmp, *replayFile)
				}
			}
		}
		fmt.Fprintln(os.Stderr, "entry of replay file not found in spec")
		return 2
	}

	known := readKnown(o.verif)
	openKnown := map[string]bool{}
	var openList []KnownFinding
	for _, k := range known {
		if k.Property == spec.Property && k.Status == "open" {
			openKnown[k.ID] = true
			openList = append(openList, k)
		}
	}
	outDir := filepath.Join(o.verif, "out", spec.Property)
	os.MkdirAll(outDir, 0o755)
	old, _ := filepath.Glob(filepath.Join(outDir, "cex-*.json"))
	for _, f := range old {
		os.Remove(f)
	}

	var runs []*evRun
	var lines, broken []string
	violations, replayed := 0, 0
	var loadTime time.Duration
	knownReported := map[string]bool{}
	for i := range spec.Units {
		ur := runUnit(unitSpec(&spec, &spec.Units[i]), o, openKnown, openList, knownReported, outDir)
		runs = append(runs, ur.runs...)
		lines = append(lines, ur.lines...)
		broken = append(broken, ur.broken...)
		violations += ur.violations
		replayed += ur.replayed
		loadTime += ur.loadTime
	}
	exit := 0
	if violations > 0 {
		exit = 1
	}
	for _, k := range openList {
		if !knownReported[k.ID] {
			fmt.Fprintf(os.Stderr, "note: known finding %s did not reproduce in this run\n", k.ID)
		}
	}
	for _, ln := range lines {
		fmt.Println(ln)
	}
	if len(broken) > 0 {
		seenFirst := map[string]bool{}
		shown := 0
		for _, b := range uniqStrings(broken) {
			first := strings.SplitN(b, "\n", 2)[0]
			if seenFirst[first] {
				continue
			}
			seenFirst[first] = true
			if shown++; shown > 25 {
				break
			}
			if len(b) > 1500 {
				b = b[:1500] + "…"
			}
			fmt.Fprintln(os.Stderr, "BROKEN:", b)
		}
		if exit == 0 {
			exit = 2
		}
	}
	if iw := sym.InitWarnings(); len(iw) > 0 && o.trace {
		for k, v := range iw {
			fmt.Fprintf(os.Stderr, "init warning: %s: %s\n", k, v)
		}
	}
	if !*noEvidence && o.only == "" {
		ev := buildEvidence(&spec, o.tier, seed, runs, violations, replayed, loadTime, time.Since(start), broken, lines, *specPath)
		b, _ := json.MarshalIndent(ev, "", " ")
		os.MkdirAll(filepath.Join(o.verif, "evidence"), 0o755)
		os.WriteFile(filepath.Join(o.verif, "evidence", spec.Property+".json"), b, 0o644)
	}
	return exit
}

// dumpSchema runs the repository's real migrations on a scratch SQLite database
// (through an overlaid test in package sqlite) and returns the file holding the
// resulting CREATE statements.
func dumpSchema(repo, verif, tmp string) (string, error) {
	out := filepath.Join(tmp, "schema.sql")
	ov := map[string]map[string]string{"Replace": {filepath.Join(repo, "internal/storage/database/sqlite/zz_verif_dump_test.go"): filepath.Join(verif, "harness/sqlschema/dump_test.go")}}
	ovPath := filepath.Join(tmp, "schema-overlay.json")
	b, _ := json.Marshal(ov)
	os.WriteFile(ovPath, b, 0o644)
	cmd := exec.Command(filepath.Join(goBin, "go"), "test", "-vet=off", "-count=1", "-overlay", ovPath, "-run", "^TestVerifDumpSchema$", "./internal/storage/database/sqlite/")
	cmd.Dir = repo
	cmd.Env = append(goEnv(), "VERIF_SCHEMA_OUT="+out)
	if outb, err := cmd.CombinedOutput(); err != nil {
		return "", fmt.Errorf("%v: %s", err, tail(string(outb), 600))
	}
	return out, nil
}
