// gosmt: bounded symbolic execution of Go SSA against an SMT solver.
//
//	gosmt check -spec /verif/harness/C05/spec.json -tier quick
package main

import (
	"bufio"
	"encoding/json"
	"fmt"
	"os"
	"os/exec"
	"path/filepath"
	"regexp"
	"sort"
	"strconv"
	"strings"
	"time"

	"gosmt/sym"

	"golang.org/x/tools/go/packages"
	"golang.org/x/tools/go/ssa"
	"golang.org/x/tools/go/ssa/ssautil"
)

type TierCfg struct {
	Params   map[string]int64   `json:"params"`
	Unwind   int                `json:"unwind"`
	MaxPaths int                `json:"max_paths"`
	MaxSteps int                `json:"max_steps"`
	Timeout  int                `json:"timeout_ms"`
	Skip     bool               `json:"skip"`
	Sets     []map[string]int64 `json:"param_sets"`
	Label    string             `json:"-"`
	Logic    string             `json:"logic"`
}

type Entry struct {
	Func     string             `json:"func"`
	Tiers    map[string]TierCfg `json:"tiers"`
	Covers   []string           `json:"covers"`
	Kernel   []string           `json:"kernel"`
	Replay   string             `json:"replay"` // native (default) | none
	MinPaths int                `json:"min_paths"`
	Note     string             `json:"note"`
}

type Spec struct {
	Property        string            `json:"property"`
	Package         string            `json:"package"`
	Dir             string            `json:"dir"`
	Files           []string          `json:"files"`
	TestFiles       []string          `json:"test_files"`
	Entries         []Entry           `json:"entries"`
	Redirects       map[string]string `json:"redirects"`
	Bounds          map[string]string `json:"bounds"`
	Assumptions     []string          `json:"assumptions"`
	Outside         []string          `json:"outside"`
	Stubs           []string          `json:"stubs"`
	Level           string            `json:"level"`
	Tests           bool              `json:"tests"`
	Units           []Unit            `json:"units"`
	Native          []string          `json:"native_files"`
	ParallelEntries int               `json:"parallel_entries"`
	SQLSchema       bool              `json:"sql_schema"`
	Gen             []string          `json:"generate"`
	Goroutines      bool              `json:"goroutines"`
}

type KnownFinding struct {
	Status   string `json:"status"` // open | fixed
	Property string `json:"property"`
	ID       string `json:"id"`
	What     string `json:"what"`
	Commit   string `json:"commit,omitempty"`
}

const goBin = "/opt/veriftools/go1.27.0/bin"

func init() {
	os.Setenv("PATH", goBin+":"+os.Getenv("PATH"))
	os.Setenv("GOTOOLCHAIN", "local")
	os.Setenv("GOFLAGS", "-mod=mod")
	os.Setenv("GOPROXY", "off")
	os.Setenv("GOSUMDB", "off")
}

func goEnv() []string { return os.Environ() }

func main() {
	if len(os.Args) < 2 {
		fmt.Fprintln(os.Stderr, "usage: gosmt check|concrete ...")
		os.Exit(2)
	}
	switch os.Args[1] {
	case "check":
		os.Exit(cmdCheck(os.Args[2:]))
	default:
		fmt.Fprintln(os.Stderr, "unknown command")
		os.Exit(2)
	}
}

type loaded struct {
	prog    *ssa.Program
	harness *ssa.Package
	pkgName string
	rtFile  string
	overlay map[string][]byte
	files   map[string]string // virtual -> real path (for go test -overlay)
}

func load(repo, verif string, spec *Spec, tmp string) (*loaded, error) {
	pkgDir := filepath.Join(repo, spec.Dir)
	// package name from an existing file
	pkgName := ""
	ents, _ := os.ReadDir(pkgDir)
	re := regexp.MustCompile(`(?m)^package\s+(\w+)`)
	for _, e := range ents {
		if strings.HasSuffix(e.Name(), ".go") && !strings.HasSuffix(e.Name(), "_test.go") {
			data, _ := os.ReadFile(filepath.Join(pkgDir, e.Name()))
			if m := re.FindSubmatch(data); m != nil {
				pkgName = string(m[1])
				break
			}
		}
	}
	if pkgName == "" {
		return nil, fmt.Errorf("cannot determine package name in %s", pkgDir)
	}
	l := &loaded{pkgName: pkgName, overlay: map[string][]byte{}, files: map[string]string{}}
	rt, err := os.ReadFile(filepath.Join(verif, "harness/rt/rt.go.tmpl"))
	if err != nil {
		return nil, err
	}
	rtSrc := strings.Replace(string(rt), "PKGNAME", pkgName, 1)
	suffix := ".go"
	if spec.Tests {
		suffix = "_test.go"
	}
	rtReal := filepath.Join(tmp, "zz_verif_rt"+suffix)
	os.WriteFile(rtReal, []byte(rtSrc), 0o644)
	rtVirt := filepath.Join(pkgDir, "zz_verif_rt"+suffix)
	l.overlay[rtVirt] = []byte(rtSrc)
	l.files[rtVirt] = rtReal
	for i, f := range spec.Files {
		real := filepath.Join(verif, "harness", spec.Property, f)
		data, err := os.ReadFile(real)
		if err != nil {
			return nil, err
		}
		src := strings.Replace(string(data), "package PKGNAME", "package "+pkgName, 1)
		realGen := filepath.Join(tmp, fmt.Sprintf("zz_verif_%s_%d%s", strings.ToLower(spec.Property), i, suffix))
		os.WriteFile(realGen, []byte(src), 0o644)
		virt := filepath.Join(pkgDir, fmt.Sprintf("zz_verif_%s_%d%s", strings.ToLower(spec.Property), i, suffix))
		l.overlay[virt] = []byte(src)
		l.files[virt] = realGen
	}
	for _, g := range spec.Gen {
		var src string
		var err error
		switch g {
		case "storagedouble":
			src, err = genStorageDouble(repo, pkgName, spec.Package)
		default:
			err = fmt.Errorf("unknown generator %q", g)
		}
		if err != nil {
			return nil, err
		}
		name := "zz_verif_gen_" + g + suffix
		os.WriteFile(filepath.Join(tmp, name), []byte(src), 0o644)
		l.overlay[filepath.Join(pkgDir, name)] = []byte(src)
		l.files[filepath.Join(pkgDir, name)] = filepath.Join(tmp, name)
	}
	cfg := &packages.Config{
		Mode:    packages.LoadAllSyntax,
		Dir:     repo,
		Overlay: l.overlay,
		Env:     goEnv(),
		Tests:   spec.Tests,
	}
	pkgs, err := packages.Load(cfg, spec.Package)
	if err != nil {
		return nil, err
	}
	nerr := 0
	packages.Visit(pkgs, nil, func(p *packages.Package) {
		for _, e := range p.Errors {
			if nerr < 10 {
				fmt.Fprintf(os.Stderr, "load error: %s: %v\n", p.PkgPath, e)
			}
			nerr++
		}
	})
	if nerr > 0 {
		return nil, fmt.Errorf("%d package load errors (the harness must compile against the current tree)", nerr)
	}
	prog, spkgs := ssautil.AllPackages(pkgs, ssa.InstantiateGenerics)
	prog.Build()
	for i, p := range pkgs {
		if spkgs[i] == nil {
			continue
		}
		// with Tests=true the in-package test variant has ID "path [path.test]"
		if p.PkgPath == spec.Package {
			if l.harness == nil || strings.Contains(p.ID, ".test]") {
				l.harness = spkgs[i]
			}
		}
	}
	if l.harness == nil {
		return nil, fmt.Errorf("package %s not found after load", spec.Package)
	}
	l.prog = prog
	return l, nil
}

type replayOutcome struct {
	Outcome string
	Msg     string
	Trace   string
}

func runNative(repo, verif string, spec *Spec, l *loaded, tmp string, items [][2]string) (map[string]replayOutcome, string, error) {
	tmplB, err := os.ReadFile(filepath.Join(verif, "harness/rt/replay_test.go.tmpl"))
	if err != nil {
		return nil, "", err
	}
	var ents strings.Builder
	seen := map[string]bool{}
	for _, e := range spec.Entries {
		if !seen[e.Func] {
			fmt.Fprintf(&ents, "\t\t%q: %s,\n", e.Func, e.Func)
			seen[e.Func] = true
		}
	}
	src := strings.Replace(string(tmplB), "PKGNAME", l.pkgName, 1)
	src = strings.Replace(src, "ENTRIES", ents.String(), 1)
	testReal := filepath.Join(tmp, "zz_verif_replay_test.go")
	os.WriteFile(testReal, []byte(src), 0o644)
	ov := map[string]map[string]string{"Replace": {}}
	for v, r := range l.files {
		ov["Replace"][v] = r
	}
	ov["Replace"][filepath.Join(repo, spec.Dir, "zz_verif_replay_test.go")] = testReal
	for i, nf := range spec.Native {
		data, err := os.ReadFile(filepath.Join(verif, "harness", spec.Property, nf))
		if err != nil {
			return nil, "", err
		}
		nsrc := strings.Replace(string(data), "package PKGNAME", "package "+l.pkgName, 1)
		real := filepath.Join(tmp, fmt.Sprintf("zz_verif_native_%d_test.go", i))
		os.WriteFile(real, []byte(nsrc), 0o644)
		ov["Replace"][filepath.Join(repo, spec.Dir, fmt.Sprintf("zz_verif_native_%d_test.go", i))] = real
	}
	ovPath := filepath.Join(tmp, "overlay.json")
	ovData, _ := json.Marshal(ov)
	os.WriteFile(ovPath, ovData, 0o644)
	var arg []string
	for _, it := range items {
		arg = append(arg, it[0]+"="+it[1])
	}
	cmd := exec.Command(filepath.Join(goBin, "go"), "test", "-v", "-vet=off", "-count=1", "-overlay", ovPath, "-run", "^TestVerifReplay$", "-timeout", "10m", "./"+spec.Dir)
	cmd.Dir = repo
	cmd.Env = append(goEnv(), "VERIF_REPLAY_FILES="+strings.Join(arg, ","))
	out, err := cmd.CombinedOutput()
	res := map[string]replayOutcome{}
	re := regexp.MustCompile(`VERIF-REPLAY file=(\S+) outcome=(\S+) msg=("(?:[^"\\]|\\.)*") trace=("(?:[^"\\]|\\.)*")`)
	for _, m := range re.FindAllStringSubmatch(string(out), -1) {
		msg, _ := strconv.Unquote(m[3])
		tr, _ := strconv.Unquote(m[4])
		res[m[1]] = replayOutcome{m[2], msg, tr}
	}
	if len(res) == 0 && err != nil {
		return res, string(out), fmt.Errorf("native replay failed: %v", err)
	}
	return res, string(out), nil
}

func readKnown(verif string) []KnownFinding {
	var out []KnownFinding
	f, err := os.Open(filepath.Join(verif, "known_findings.jsonl"))
	if err != nil {
		return nil
	}
	defer f.Close()
	sc := bufio.NewScanner(f)
	sc.Buffer(make([]byte, 1<<20), 1<<20)
	for sc.Scan() {
		line := strings.TrimSpace(sc.Text())
		if line == "" || strings.HasPrefix(line, "#") {
			continue
		}
		var k KnownFinding
		if json.Unmarshal([]byte(line), &k) == nil {
			out = append(out, k)
		}
	}
	return out
}

func tail(s string, n int) string {
	if len(s) > n {
		return s[len(s)-n:]
	}
	return s
}

func uniqStrings(s []string) []string {
	seen := map[string]bool{}
	var out []string
	for _, x := range s {
		if !seen[x] {
			seen[x] = true
			out = append(out, x)
		}
	}
	return out
}

type evRun struct {
	Name   string
	Entry  Entry
	Cfg    TierCfg
	Res    *sym.EntryResult
	Probes map[string]*sym.EntryResult
}

func buildEvidence(spec *Spec, tier string, seed int, runs []*evRun, violations, replayed int, loadTime, wall time.Duration, broken, lines []string, specPath string) map[string]any {
	obl, dis, triv, paths, queries, states, unknown := 0, 0, 0, 0, 0, 0, 0
	assertPaths := 0
	solverS := 0.0
	var entries []map[string]any
	var samples []any
	funcs := map[string]int{}
	for _, r := range runs {
		res := r.Res
		if res == nil {
			continue
		}
		paths += res.Paths
		queries += res.Solver.Queries
		unknown += res.Solver.Unknown
		solverS += res.Solver.Time.Seconds()
		sites := []map[string]any{}
		keys := []string{}
		for k := range res.Sites {
			keys = append(keys, k)
		}
		sort.Strings(keys)
		eo, ed := 0, 0
		for _, k := range keys {
			s := res.Sites[k]
			if strings.HasPrefix(k, "$") {
				continue
			}
			o := s.Discharged + s.Violated + s.Unknown
			eo += o
			ed += s.Discharged
			triv += s.Trivial
			sites = append(sites, map[string]any{"assertion": s.Msg, "solver_obligations": o, "discharged_unsat": s.Discharged, "violated_sat": s.Violated, "inconclusive": s.Unknown, "trivially_true": s.Trivial})
		}
		obl += eo
		dis += ed
		okPaths := res.PathKinds["ok"] + res.PathKinds["violation"]
		assertPaths += okPaths
		states += res.Paths
		for f, c := range res.Funcs {
			funcs[f] += c
		}
		e := map[string]any{
			"entry": r.Name, "paths": res.Paths, "path_kinds": res.PathKinds, "assert_sites": sites,
			"solver_queries": res.Solver.Queries, "solver_sat": res.Solver.Sat, "solver_unsat": res.Solver.Unsat, "solver_unknown": res.Solver.Unknown,
			"solver_time_s": round3(res.Solver.Time.Seconds()), "max_query_s": round3(res.Solver.MaxQuery.Seconds()), "wall_s": round3(res.Wall.Seconds()),
			"instructions_executed": res.Steps, "max_decisions_on_a_path": res.MaxDecisions, "terms_built": res.Terms,
			"params": r.Cfg.Params, "unwind_bound": r.Cfg.Unwind, "covers": res.Covers, "kernel_required": r.Entry.Kernel, "note": r.Entry.Note,
		}
		if len(res.GlobalMut) > 0 {
			e["global_state_written"] = res.GlobalMut
		}
		if len(res.LockViol) > 0 {
			e["lockset_reports"] = res.LockViol
		}
		if len(r.Probes) > 0 {
			pp := map[string]any{}
			for id, pr := range r.Probes {
				pp[id] = map[string]any{"paths": pr.Paths, "violations_in_region": len(pr.Violations)}
			}
			e["known_finding_probes"] = pp
		}
		entries = append(entries, e)
		for _, pc := range res.SamplePCs {
			if len(samples) < 6 {
				samples = append(samples, map[string]any{"entry": r.Entry.Func, "last_path_condition_conjunct": pc})
			}
		}
		for _, v := range res.Violations {
			if len(samples) < 10 {
				samples = append(samples, map[string]any{"entry": r.Entry.Func, "violated": v.Msg, "model": v.Model})
			}
		}
	}
	if len(samples) == 0 {
		samples = append(samples, map[string]any{"note": "no symbolic path condition recorded (all obligations trivially true?)"})
	}
	// functions of the repository that were executed symbolically
	var fl []string
	for f, c := range funcs {
		if strings.Contains(f, "jdillenkofer/pithos") && !strings.Contains(f, "verif") && !strings.Contains(f, "Verif") {
			fl = append(fl, fmt.Sprintf("%s (%d instr)", f, c))
		}
	}
	sort.Strings(fl)
	level := spec.Level
	if level == "" {
		level = "model_checking"
	}
	cov := map[string]any{
		"obligations": obl, "discharged": dis, "trivially_true_assertions": triv,
		"evaluations": queries, "distinct_nontrivial": assertPaths,
		"rule":   "bounded symbolic execution of the Go SSA of the listed functions; one evaluation = one SMT query (branch feasibility or assertion); a case is one feasible path (distinct decision sequence) that ran to an assertion or to the end of the harness",
		"states": max(states, 1), "transitions": max(queries, 1), "traces_validated_against_impl": replayed,
		"samples": samples, "exhaustive": len(broken) == 0,
		"checker_cmd":       "gosmt check -spec " + specPath + " -tier " + tier,
		"trusted_base":      []string{"golang.org/x/tools/go/ssa v0.50.0", "gosmt SSA->SMT-LIB2 executor (/verif/engine)", "z3 5.1.0 (z3-new)"},
		"explanation":       "solver-based bounded checking of the real code: every path of the harness is executed symbolically from the SSA of /repo's working tree, every assertion is an SMT obligation (unsat = holds for all inputs inside the bounds); counterexamples are replayed natively before they are reported",
		"functions_encoded": fl, "entries": entries, "bounds": spec.Bounds, "outside_claim": spec.Outside, "stubs": spec.Stubs,
		"solver": "z3-new 5.1.0", "solver_time_s": round3(solverS), "inconclusive": unknown,
		"load_and_ssa_build_s": round3(loadTime.Seconds()), "result_lines": lines,
	}
	if len(broken) > 0 {
		cov["broken"] = uniqStrings(broken)
	}
	return map[string]any{
		"property_id": spec.Property, "tier": tier, "seed": seed, "level": level,
		"coverage": cov, "assumptions": spec.Assumptions, "wall_s": round3(wall.Seconds()), "violations": violations,
	}
}

func round3(f float64) float64 { return float64(int64(f*1000+0.5)) / 1000 }

func writeEvidenceBroken(verif string, spec *Spec, tier string, seed int, why string, wall time.Duration, skip bool) {
	if skip {
		return
	}
	ev := map[string]any{"property_id": spec.Property, "tier": tier, "seed": seed, "level": "other",
		"coverage": map[string]any{"explanation": "check could not run: " + why, "evaluations": 0, "distinct_nontrivial": 0},
		"wall_s":   round3(wall.Seconds()), "violations": 0}
	b, _ := json.MarshalIndent(ev, "", " ")
	os.MkdirAll(filepath.Join(verif, "evidence"), 0o755)
	os.WriteFile(filepath.Join(verif, "evidence", spec.Property+".json"), b, 0o644)
}

func doReplayOnly(repo, verif string, spec *Spec, l *loaded, tmp, file string) int {
	if abs, err := filepath.Abs(file); err == nil {
		file = abs
	}
	data, err := os.ReadFile(file)
	if err != nil {
		fmt.Fprintln(os.Stderr, err)
		return 2
	}
	var c struct {
		Entry string `json:"entry"`
	}
	json.Unmarshal(data, &c)
	res, out, err := runNative(repo, verif, spec, l, tmp, [][2]string{{c.Entry, file}})
	if err != nil {
		fmt.Fprintln(os.Stderr, err, out)
		return 2
	}
	ro := res[file]
	fmt.Printf("replay %s: entry=%s outcome=%s msg=%q\n", file, c.Entry, ro.Outcome, ro.Msg)
	if ro.Outcome == "assert-failed" || ro.Outcome == "panic" {
		fmt.Printf("VIOLATION property=%s replay=%s\n", spec.Property, file)
		return 1
	}
	return 0
}
