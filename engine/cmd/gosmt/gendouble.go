package main

// Generator for the recording double of storage.Storage and the "invoke method
// number i" driver. Both are produced from the interface's method set as it is
// in /repo at the time of the run, so a method added to the interface is part
// of every sweep over "all methods" without touching the harness.

import (
	"fmt"
	"go/types"
	"sort"
	"strings"

	"golang.org/x/tools/go/packages"
)

const storagePkgPath = "github.com/jdillenkofer/pithos/internal/storage"

func genStorageDouble(repo, pkgName, harnessPkgPath string) (string, error) {
	cfg := &packages.Config{Mode: packages.NeedTypes | packages.NeedImports | packages.NeedDeps | packages.NeedName, Dir: repo, Env: goEnv()}
	pkgs, err := packages.Load(cfg, storagePkgPath)
	if err != nil {
		return "", err
	}
	if len(pkgs) != 1 || pkgs[0].Types == nil || len(pkgs[0].Errors) > 0 {
		return "", fmt.Errorf("cannot load %s", storagePkgPath)
	}
	obj := pkgs[0].Types.Scope().Lookup("Storage")
	if obj == nil {
		return "", fmt.Errorf("storage.Storage not found")
	}
	iface, ok := obj.Type().Underlying().(*types.Interface)
	if !ok {
		return "", fmt.Errorf("storage.Storage is not an interface")
	}
	imports := map[string]string{} // path -> name
	qual := func(p *types.Package) string {
		if p.Path() == harnessPkgPath {
			return ""
		}
		name := p.Name()
		if p.Path() == "database/sql" {
			name = "dbsql"
		}
		imports[p.Path()] = name
		return name
	}
	ts := func(t types.Type) string { return types.TypeString(t, qual) }
	isNamed := func(t types.Type, name string) bool {
		t = types.Unalias(t)
		n, ok := t.(*types.Named)
		return ok && n.Obj().Name() == name
	}
	isAliasNamed := func(t types.Type, name string) bool {
		if a, ok := t.(*types.Alias); ok && a.Obj().Name() == name {
			return true
		}
		return isNamed(t, name)
	}

	var methods []*types.Func
	for i := 0; i < iface.NumMethods(); i++ {
		methods = append(methods, iface.Method(i))
	}
	sort.Slice(methods, func(i, j int) bool { return methods[i].Name() < methods[j].Name() })

	var b strings.Builder
	var body strings.Builder
	w := func(f string, a ...any) { fmt.Fprintf(&body, f, a...) }

	w("// verifCall is one recorded call on a double.\n")
	w("type verifCall struct {\n\tMethod  string\n\tBuckets []string\n\tKeys    []string\n\tUpload  string\n\tArgs    []any\n}\n\n")
	w("// verifDouble implements storage.Storage: it records every call, runs the\n// per-method hook when one is set and otherwise returns non-nil zero results\n// (or err when failing).\n")
	w("type verifDouble struct {\n\tname  string\n\tcalls []verifCall\n\terr   error\n")
	for _, m := range methods {
		sig := m.Type().(*types.Signature)
		w("\tfn%s func%s\n", m.Name(), strings.TrimPrefix(ts(sig), "func"))
	}
	w("}\n\n")
	w("func (d *verifDouble) count(method string) int {\n\tn := 0\n\tfor _, c := range d.calls {\n\t\tif c.Method == method {\n\t\t\tn++\n\t\t}\n\t}\n\treturn n\n}\n\n")
	w("var verifMethodNames = []string{")
	for _, m := range methods {
		w("%q, ", m.Name())
	}
	w("}\n\n")

	zero := func(t types.Type) string {
		switch u := t.Underlying().(type) {
		case *types.Pointer:
			if _, ok := u.Elem().Underlying().(*types.Struct); ok {
				return "&" + ts(u.Elem()) + "{}"
			}
			return "nil"
		case *types.Basic:
			switch {
			case u.Info()&types.IsString != 0:
				return `""`
			case u.Info()&types.IsBoolean != 0:
				return "false"
			case u.Info()&types.IsNumeric != 0:
				return "0"
			}
			return "nil"
		case *types.Struct:
			return ts(t) + "{}"
		}
		return "nil"
	}

	for _, m := range methods {
		sig := m.Type().(*types.Signature)
		var params, names []string
		for i := 0; i < sig.Params().Len(); i++ {
			p := sig.Params().At(i)
			n := fmt.Sprintf("p%d", i)
			names = append(names, n)
			params = append(params, n+" "+ts(p.Type()))
		}
		var results []string
		for i := 0; i < sig.Results().Len(); i++ {
			results = append(results, ts(sig.Results().At(i).Type()))
		}
		w("func (d *verifDouble) %s(%s) (%s) {\n", m.Name(), strings.Join(params, ", "), strings.Join(results, ", "))
		w("\tc := verifCall{Method: %q}\n", m.Name())
		for i := 0; i < sig.Params().Len(); i++ {
			pt := sig.Params().At(i).Type()
			switch {
			case isAliasNamed(pt, "BucketName"):
				w("\tc.Buckets = append(c.Buckets, p%d.String())\n", i)
			case isAliasNamed(pt, "ObjectKey"):
				w("\tc.Keys = append(c.Keys, p%d.String())\n", i)
			case isAliasNamed(pt, "UploadId"):
				w("\tc.Upload = p%d.String()\n", i)
			}
		}
		if len(names) > 1 {
			w("\tc.Args = []any{%s}\n", strings.Join(names[1:], ", "))
		}
		w("\td.calls = append(d.calls, c)\n")
		w("\tif d.fn%s != nil {\n\t\treturn d.fn%s(%s)\n\t}\n", m.Name(), m.Name(), strings.Join(names, ", "))
		// failing: zero values + err
		var zf, zo []string
		for i := 0; i < sig.Results().Len(); i++ {
			rt := sig.Results().At(i).Type()
			if isNamed(rt, "error") {
				zf = append(zf, "d.err")
				zo = append(zo, "nil")
				continue
			}
			zf = append(zf, "nil")
			if _, ok := rt.Underlying().(*types.Pointer); !ok {
				if _, isSlice := rt.Underlying().(*types.Slice); !isSlice {
					if _, isMap := rt.Underlying().(*types.Map); !isMap {
						zf[len(zf)-1] = zero(rt)
					}
				}
			}
			zo = append(zo, zero(rt))
		}
		if len(results) > 0 {
			w("\tif d.err != nil {\n\t\treturn %s\n\t}\n", strings.Join(zf, ", "))
			w("\treturn %s\n", strings.Join(zo, ", "))
		}
		w("}\n\n")
	}

	// driver
	w("// verifArgs are the argument values verifInvoke distributes over a method's\n// parameters by type.\n")
	w("type verifArgs struct {\n\tbucket, bucket2 storage.BucketName\n\tkey, key2       storage.ObjectKey\n\tupload          storage.UploadId\n\tbody            []byte\n}\n\n")
	w("// verifInvoke calls method number i (index into verifMethodNames) of s and\n// returns the error result, if the method has one.\n")
	w("func verifInvoke(s storage.Storage, i int, a verifArgs) error {\n\tctx := context.Background()\n\tswitch i {\n")
	imports["context"] = "context"
	imports[storagePkgPath] = "storage"
	for idx, m := range methods {
		sig := m.Type().(*types.Signature)
		var args []string
		nb, nk := 0, 0
		for i := 0; i < sig.Params().Len(); i++ {
			pt := sig.Params().At(i).Type()
			switch {
			case isNamed(pt, "Context"):
				args = append(args, "ctx")
			case isAliasNamed(pt, "BucketName"):
				if nb == 0 {
					args = append(args, "a.bucket")
				} else {
					args = append(args, "a.bucket2")
				}
				nb++
			case isAliasNamed(pt, "ObjectKey"):
				if nk == 0 {
					args = append(args, "a.key")
				} else {
					args = append(args, "a.key2")
				}
				nk++
			case isAliasNamed(pt, "UploadId"):
				args = append(args, "a.upload")
			case isNamed(pt, "Reader"):
				imports["bytes"] = "bytes"
				args = append(args, "bytes.NewReader(a.body)")
			default:
				switch u := pt.Underlying().(type) {
				case *types.Pointer:
					if _, ok := u.Elem().Underlying().(*types.Struct); ok && !strings.HasSuffix(ts(u.Elem()), "Options") && !strings.HasSuffix(ts(u.Elem()), "ChecksumInput") {
						args = append(args, "&"+ts(u.Elem())+"{}")
					} else {
						args = append(args, "nil")
					}
				case *types.Basic:
					if u.Info()&types.IsString != 0 {
						args = append(args, `"STANDARD"`)
					} else if u.Info()&types.IsNumeric != 0 {
						args = append(args, "1")
					} else {
						args = append(args, "false")
					}
				case *types.Struct:
					args = append(args, ts(pt)+"{}")
				default:
					args = append(args, "nil")
				}
			}
		}
		hasErr := sig.Results().Len() > 0 && isNamed(sig.Results().At(sig.Results().Len()-1).Type(), "error")
		w("\tcase %d:\n", idx)
		lhs := ""
		if sig.Results().Len() > 0 {
			var l []string
			for i := 0; i < sig.Results().Len(); i++ {
				if i == sig.Results().Len()-1 && hasErr {
					l = append(l, "err")
				} else {
					l = append(l, "_")
				}
			}
			if hasErr {
				lhs = strings.Join(l, ", ") + " := "
			} else {
				lhs = strings.Join(l, ", ") + " = "
			}
		}
		w("\t\t%ss.%s(%s)\n", lhs, m.Name(), strings.Join(args, ", "))
		if hasErr {
			w("\t\treturn err\n")
		}
	}
	w("\t}\n\treturn nil\n}\n")

	fmt.Fprintf(&b, "// Code generated by gosmt from the method set of storage.Storage in /repo. DO NOT EDIT.\n\npackage %s\n\nimport (\n", pkgName)
	var paths []string
	for p := range imports {
		paths = append(paths, p)
	}
	sort.Strings(paths)
	for _, p := range paths {
		n := imports[p]
		if strings.HasSuffix(p, "/"+n) || p == n {
			fmt.Fprintf(&b, "\t%q\n", p)
		} else {
			fmt.Fprintf(&b, "\t%s %q\n", n, p)
		}
	}
	b.WriteString(")\n\n")
	b.WriteString(body.String())
	return b.String(), nil
}
